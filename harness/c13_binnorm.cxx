// C13 — implementation side.  Bin normalisation: apply and undo are inverse and match the bin efficiency.
//
// Drives the real STIR API on generated geometries:
//   TrivialBinNormalisation, BinNormalisationFromProjData (non-TOF factors with non-TOF/TOF data, TOF factors with TOF
//   data, factors with more segments than the data), BinNormalisationFromAttenuationImage (ray tracing matrix forward
//   projector with several symmetry settings), BinNormalisationPETFromComponents (crystal efficiencies, geometric and
//   block factors), ChainedBinNormalisation (nested), the BinNormalisation base-class defaults and
//   BinNormalisationWithCalibration through two table-driven subclasses defined here;
//   set_up, then apply/undo on RelatedViewgrams for several symmetry groupings and on whole ProjData objects.
// Usage: c13_binnorm <seed> <quick|thorough> <opsfile> <implfile>
// ops/impl: the line protocol answered by lean/Driver/C13.lean;  <implfile>.oracle: the property's own statement
// evaluated on the implementation (all bins).
#include "stir_fixtures.h"
#include "common.h"
#include "stir/recon_buildblock/BinNormalisation.h"
#include "stir/recon_buildblock/BinNormalisationWithCalibration.h"
#include "stir/recon_buildblock/TrivialBinNormalisation.h"
#include "stir/recon_buildblock/BinNormalisationFromProjData.h"
#include "stir/recon_buildblock/BinNormalisationFromAttenuationImage.h"
#include "stir/recon_buildblock/BinNormalisationPETFromComponents.h"
#include "stir/recon_buildblock/ChainedBinNormalisation.h"
#include "stir/recon_buildblock/TrivialDataSymmetriesForBins.h"
#include "stir/recon_buildblock/DataSymmetriesForBins_PET_CartesianGrid.h"
#include "stir/recon_buildblock/ProjMatrixByBinUsingRayTracing.h"
#include "stir/recon_buildblock/ForwardProjectorByBinUsingProjMatrixByBin.h"
#include "stir/recon_buildblock/ProjMatrixElemsForOneBin.h"
#include "stir/ML_norm.h"
#include "stir/ProjDataInMemory.h"
#include "stir/RelatedViewgrams.h"
#include "stir/ViewSegmentNumbers.h"
#include "stir/ExamInfo.h"
#include "stir/Radionuclide.h"
#include "stir/Succeeded.h"
#include "stir/Bin.h"
#include <cmath>
#include <map>
#include <set>
#include <functional>

using namespace stir;
typedef ProjDataInMemory PD;

static FILE *g_ops, *g_out, *g_orc;
static long g_checks = 0, g_fails = 0;
static std::set<std::string> g_known_emitted;
static std::string g_cfg;

static void
op(const std::string& o, const std::string& answer)
{
  std::fprintf(g_ops, "%s\n", o.c_str());
  std::fprintf(g_out, "%s\n", answer.c_str());
}

static void
oracle_fail(const std::string& text)
{
  ++g_fails;
  if (g_fails <= 40)
    std::fprintf(g_orc, "ORACLE-FAIL %s [%s]\n", text.c_str(), g_cfg.c_str());
}

static void
known_candidate(const std::string& key, const std::string& text)
{
  if (g_known_emitted.insert(key).second)
    std::fprintf(g_orc, "KNOWN-CANDIDATE %s %s\n", key.c_str(), text.c_str());
}

// ---------------------------------------------------------------- table-driven subclasses (exercise the base-class loops)

// implements only get_bin_efficiency: apply/undo are BinNormalisation's defaults
class TableNorm : public BinNormalisation
{
public:
  explicit TableNorm(shared_ptr<PD> t)
      : table(t)
  {}
  std::string get_registered_name() const override { return "verif table"; }
  float get_bin_efficiency(const Bin& bin) const override
  {
    Bin c(bin);
    return table->get_bin_value(c);
  }
  shared_ptr<PD> table;
};

class CalibTableNorm : public BinNormalisationWithCalibration
{
public:
  explicit CalibTableNorm(shared_ptr<PD> t)
      : table(t)
  {}
  std::string get_registered_name() const override { return "verif calibrated table"; }
  float get_uncalibrated_bin_efficiency(const Bin& bin) const override
  {
    Bin c(bin);
    return table->get_bin_value(c);
  }
  shared_ptr<PD> table;
};

// ---------------------------------------------------------------- geometry helpers

static shared_ptr<Scanner>
block_scanner(int N, int R, int trans_per_block, int axial_per_block, int max_tof_bins)
{
  const float ring_radius = 100.F + N / 4.F;
  return shared_ptr<Scanner>(new Scanner(Scanner::User_defined_scanner, std::string("verif_scanner"), N, R,
                                         N / 2 - 1 > 0 ? N / 2 - 1 : 1, N / 2 - 1 > 0 ? N / 2 - 1 : 1, ring_radius, 5.F, 4.F, 2.F, 0.F,
                                         /*num_axial_blocks_per_bucket*/ 1, /*num_transaxial_blocks_per_bucket*/ 1, axial_per_block,
                                         trans_per_block, 1, 1, 1, 0.1F, 511.F, static_cast<short>(max_tof_bins),
                                         max_tof_bins > 0 ? 100.F : -1.F, max_tof_bins > 0 ? 400.F : -1.F, "Cylindrical"));
}

// ProjDataInMemory::get_bin_value is not const
static float
bin_value(const PD& d, Bin b)
{
  return const_cast<PD&>(d).get_bin_value(b);
}

struct Row
{
  int seg, view, ax, tof;
};

struct Geom
{
  shared_ptr<Scanner> scanner;
  shared_ptr<ProjDataInfo> pdi;
  shared_ptr<ExamInfo> exam;
  std::vector<Row> rows;
  int tmin, tmax, nt;
  std::size_t nbins() const { return rows.size() * nt; }
};

static std::vector<Row>
rows_of(const ProjDataInfo& p)
{
  std::vector<Row> r;
  for (int k = p.get_min_tof_pos_num(); k <= p.get_max_tof_pos_num(); ++k)
    for (int s = p.get_min_segment_num(); s <= p.get_max_segment_num(); ++s)
      for (int v = p.get_min_view_num(); v <= p.get_max_view_num(); ++v)
        for (int a = p.get_min_axial_pos_num(s); a <= p.get_max_axial_pos_num(s); ++a)
          r.push_back(Row{ s, v, a, k });
  return r;
}

static std::vector<float>
flatten(const Geom& g, const PD& d)
{
  std::vector<float> v;
  v.reserve(g.nbins());
  for (const Row& r : g.rows)
    for (int t = g.tmin; t <= g.tmax; ++t)
      {
        Bin b(r.seg, r.view, r.ax, t, r.tof);
        v.push_back(bin_value(d, b));
      }
  return v;
}

static void
fill_from(const Geom& g, PD& d, const std::vector<float>& v)
{
  std::size_t i = 0;
  for (const Row& r : g.rows)
    for (int t = g.tmin; t <= g.tmax; ++t)
      {
        Bin b(r.seg, r.view, r.ax, t, r.tof, v[i++]);
        d.set_bin_value(b);
      }
}

// fill any PD (possibly of another geometry) with values from a generator
static void
fill_gen(PD& d, const std::function<float()>& gen)
{
  const ProjDataInfo& p = *d.get_proj_data_info_sptr();
  for (const Row& r : rows_of(p))
    for (int t = p.get_min_tangential_pos_num(); t <= p.get_max_tangential_pos_num(); ++t)
      {
        Bin b(r.seg, r.view, r.ax, t, r.tof, gen());
        d.set_bin_value(b);
      }
}

static std::string
fmt(float x)
{
  if (!std::isfinite(x))
    return "nonfinite";
  return vh::hex(x);
}

// send a table (values of a PD of the geometry of `p`) to the model
static void
send_table(const std::string& name, const PD& d)
{
  const ProjDataInfo& p = *d.get_proj_data_info_sptr();
  for (const Row& r : rows_of(p))
    {
      std::ostringstream s;
      s << "tab " << name << " " << r.seg << " " << r.view << " " << r.ax << " " << r.tof << " " << p.get_min_tangential_pos_num();
      for (int t = p.get_min_tangential_pos_num(); t <= p.get_max_tangential_pos_num(); ++t)
        {
          Bin b(r.seg, r.view, r.ax, t, r.tof);
          s << " " << vh::hex(bin_value(d, b));
        }
      op(s.str(), "ok");
    }
}

// ---------------------------------------------------------------- routes (how apply/undo is called)

struct Route
{
  std::string name;
  bool whole;
  shared_ptr<DataSymmetriesForViewSegmentNumbers> sym; // may be null for whole (=> library default)
};

// returns false if the library threw
static bool
run_route(const BinNormalisation& n, const Route& r, const Geom& g, PD& d, bool do_apply)
{
  try
    {
      if (r.whole)
        {
          if (do_apply)
            n.apply(d, r.sym);
          else
            n.undo(d, r.sym);
        }
      else
        {
          const ProjDataInfo& p = *g.pdi;
          for (int s = p.get_min_segment_num(); s <= p.get_max_segment_num(); ++s)
            for (int v = p.get_min_view_num(); v <= p.get_max_view_num(); ++v)
              {
                const ViewSegmentNumbers vs(v, s);
                if (!r.sym->is_basic(vs))
                  continue;
                for (int k = p.get_min_tof_pos_num(); k <= p.get_max_tof_pos_num(); ++k)
                  {
                    RelatedViewgrams<float> rv = d.get_related_viewgrams(vs, r.sym, false, k);
                    if (do_apply)
                      n.apply(rv);
                    else
                      n.undo(rv);
                    d.set_related_viewgrams(rv);
                  }
              }
        }
    }
  catch (...)
    {
      return false;
    }
  return true;
}

// ---------------------------------------------------------------- normalisation cases

struct Case
{
  std::string id, kind;
  shared_ptr<BinNormalisation> norm;
  std::vector<Route> routes;
  bool has_small_eff = false;          // efficiencies of 0 / below the 1e-20 floor occur (on purpose)
  bool positive_inputs = true;         // all factor data > 0  => efficiency must be > 0
  std::vector<int> members;            // for chains: indices of the two members
  std::vector<float> acf;              // for attenuation: independently computed exp(line integral), per bin
  std::vector<float> stored_factor;    // for FromProjData: the stored factor each bin must be multiplied with by apply
  bool is_components = false;
  // measured
  std::vector<std::vector<float>> F;   // per route: efficiency factor measured from undo
};

static bool
close_rel(double a, double b, double rel)
{
  if (!std::isfinite(a) || !std::isfinite(b))
    return false;
  return std::fabs(a - b) <= rel * std::max(std::fabs(a), std::fabs(b)) + 1e-37;
}

static std::string
bin_name(const Geom& g, std::size_t i)
{
  const Row& r = g.rows[i / g.nt];
  std::ostringstream s;
  s << "bin(seg=" << r.seg << ",view=" << r.view << ",ax=" << r.ax << ",tang=" << g.tmin + static_cast<int>(i % g.nt) << ",tof=" << r.tof
    << ")";
  return s.str();
}

// emit `apply`/`undo` correspondence lines: input data `in`, implementation result `res`
static void
send_result(const std::string& what, const Case& c, const Route& r, const Geom& g, const std::vector<float>& in,
            const std::vector<float>& res)
{
  std::size_t i = 0;
  for (const Row& row : g.rows)
    {
      std::ostringstream o, a;
      o << what << " " << c.id << " " << r.name << " " << row.seg << " " << row.view << " " << row.ax << " " << row.tof << " " << g.tmin;
      for (int t = 0; t < g.nt; ++t, ++i)
        {
          o << " " << vh::hex(in[i]);
          a << (t ? " " : "") << fmt(res[i]);
        }
      op(o.str(), a.str());
    }
}

struct Runner
{
  vh::Rng& rng;
  bool thorough;
  Geom g;
  std::vector<Case> cases;
  std::vector<float> d1, d2;

  Runner(vh::Rng& r, bool th)
      : rng(r),
        thorough(th)
  {}

  float rnd(float lo, float hi) { return static_cast<float>(lo + (hi - lo) * rng.unit()); }

  shared_ptr<PD> new_pd(const shared_ptr<ProjDataInfo>& pdi) { return shared_ptr<PD>(new PD(g.exam, pdi)); }

  shared_ptr<PD> random_positive_pd(const shared_ptr<ProjDataInfo>& pdi, float lo, float hi)
  {
    shared_ptr<PD> p = new_pd(pdi);
    fill_gen(*p, [&]() { return rnd(lo, hi); });
    return p;
  }

  void set_geometry(const shared_ptr<Scanner>& sc, const shared_ptr<ProjDataInfo>& pdi, const std::string& descr)
  {
    g.scanner = sc;
    g.pdi = pdi;
    g.exam.reset(new ExamInfo);
    g.exam->imaging_modality = ImagingModality::PT;
    g.rows = rows_of(*pdi);
    g.tmin = pdi->get_min_tangential_pos_num();
    g.tmax = pdi->get_max_tangential_pos_num();
    g.nt = g.tmax - g.tmin + 1;
    cases.clear();
    g_cfg = descr;
    op("cfg " + descr, "ok");
    d1.resize(g.nbins());
    d2.resize(g.nbins());
    for (std::size_t i = 0; i < d1.size(); ++i)
      {
        d1[i] = rng.range(0, 19) == 0 ? 0.F : rnd(0.5F, 8.F);
        d2[i] = (d1[i] == 0.F || rng.range(0, 19) != 0) ? rnd(0.25F, 12.F) : 0.F;
      }
  }

  // ---- symmetry groupings for classes that accept any symmetries
  std::vector<Route> generic_routes()
  {
    std::vector<Route> r;
    shared_ptr<DataSymmetriesForViewSegmentNumbers> triv(new TrivialDataSymmetriesForBins(g.pdi));
    r.push_back(Route{ "rv:trivial", false, triv });
    shared_ptr<DiscretisedDensity<3, float>> image = vh::make_image(*g.pdi, 1.F, 5, -1);
    std::vector<int> flags;
    if (thorough)
      for (int f = 0; f < 8; ++f)
        flags.push_back(f);
    else
      {
        flags.push_back(7);
        flags.push_back(rng.range(0, 6));
      }
    for (int f : flags)
      {
        shared_ptr<DataSymmetriesForViewSegmentNumbers> s(
            new DataSymmetriesForBins_PET_CartesianGrid(g.pdi, image, f & 1, f & 2, f & 4, rng.coin(), rng.coin()));
        r.push_back(Route{ "rv:pet" + std::to_string(f), false, s });
      }
    r.push_back(Route{ "whole:default", true, shared_ptr<DataSymmetriesForViewSegmentNumbers>() });
    {
      const int f = thorough ? 7 : rng.range(1, 7);
      shared_ptr<DataSymmetriesForViewSegmentNumbers> s(new DataSymmetriesForBins_PET_CartesianGrid(g.pdi, image, f & 1, f & 2, f & 4, true, true));
      r.push_back(Route{ "whole:pet" + std::to_string(f), true, s });
    }
    return r;
  }

  int add(Case c)
  {
    c.id = "n" + std::to_string(cases.size());
    cases.push_back(c);
    return static_cast<int>(cases.size()) - 1;
  }

  // ---- constructors of the cases (each also sends the `norm` definition to the model)

  int add_trivial()
  {
    Case c;
    c.kind = "trivial";
    c.norm.reset(new TrivialBinNormalisation);
    c.routes = generic_routes();
    const int k = add(c);
    op("norm " + cases[k].id + " trivial", "ok");
    return k;
  }

  int add_table(bool with_small)
  {
    Case c;
    c.kind = with_small ? "table0" : "table";
    shared_ptr<PD> t = new_pd(g.pdi);
    fill_gen(*t, [&]() {
      if (with_small)
        {
          const int k = rng.range(0, 9);
          if (k == 0)
            return 0.F;
          if (k == 1)
            return 1.e-25F * rnd(1.F, 9.F); // below the 1e-20 floor
          if (k == 2)
            return 1.e-20F;
        }
      return rnd(0.2F, 5.F);
    });
    c.norm.reset(new TableNorm(t));
    c.routes = generic_routes();
    c.has_small_eff = with_small;
    c.positive_inputs = !with_small;
    const int k = add(c);
    send_table("t" + cases[k].id, *t);
    op("norm " + cases[k].id + " table t" + cases[k].id, "ok");
    return k;
  }

  int add_calib()
  {
    Case c;
    c.kind = "calib";
    shared_ptr<PD> t = random_positive_pd(g.pdi, 0.2F, 5.F);
    shared_ptr<CalibTableNorm> n(new CalibTableNorm(t));
    const float cal = rnd(0.3F, 40.F);
    const float br = rng.coin() ? 0.9686F : rnd(0.1F, 1.F);
    n->set_calibration_factor(cal);
    n->set_radionuclide(Radionuclide("verif", 511.F, br, 6584.04F, ImagingModality(ImagingModality::PT)));
    c.norm = n;
    c.routes = generic_routes();
    const int k = add(c);
    send_table("t" + cases[k].id, *t);
    op("norm " + cases[k].id + " calib t" + cases[k].id + " " + vh::hex(cal) + " " + vh::hex(br), "ok");
    return k;
  }

  // factors_pdi: geometry of the stored factors
  int add_from_proj_data(const shared_ptr<ProjDataInfo>& factors_pdi, const std::string& label)
  {
    Case c;
    c.kind = "fpd:" + label;
    shared_ptr<PD> f = random_positive_pd(factors_pdi, 0.25F, 4.F);
    c.norm.reset(new BinNormalisationFromProjData(f));
    c.routes = generic_routes();
    const bool norm_tof = factors_pdi->is_tof_data();
    c.stored_factor.reserve(g.nbins());
    for (const Row& r : g.rows)
      for (int t = g.tmin; t <= g.tmax; ++t)
        {
          Bin b(r.seg, r.view, r.ax, t, norm_tof ? r.tof : 0);
          c.stored_factor.push_back(bin_value(*f, b));
        }
    const int k = add(c);
    send_table("t" + cases[k].id, *f);
    op("norm " + cases[k].id + " fpd t" + cases[k].id + " " + (norm_tof ? "1" : "0"), "ok");
    return k;
  }

  // attenuation image + ray tracing matrix with symmetry flags `f`
  int add_atten(int f, float zoom, int nxy)
  {
    Case c;
    c.kind = "atten" + std::to_string(f);
    shared_ptr<VoxelsOnCartesianGrid<float>> mu = vh::make_image(*g.pdi, zoom, nxy, -1);
    for (auto it = mu->begin_all(); it != mu->end_all(); ++it)
      *it = rng.range(0, 5) == 0 ? 0.F : rnd(0.02F, 0.45F); // cm^-1
    auto make_matrix = [&](int flags, bool swap_s, bool shift_z) {
      shared_ptr<ProjMatrixByBinUsingRayTracing> pm(new ProjMatrixByBinUsingRayTracing);
      pm->set_do_symmetry_90degrees_min_phi(flags & 1);
      pm->set_do_symmetry_180degrees_min_phi(flags & 2);
      pm->set_do_symmetry_swap_segment(flags & 4);
      pm->set_do_symmetry_swap_s(swap_s);
      pm->set_do_symmetry_shift_z(shift_z);
      return pm;
    };
    const bool swap_s = rng.coin(), shift_z = rng.coin();
    shared_ptr<ProjMatrixByBinUsingRayTracing> pm = make_matrix(f, swap_s, shift_z);
    shared_ptr<ForwardProjectorByBin> fwd(new ForwardProjectorByBinUsingProjMatrixByBin(pm));
    shared_ptr<const DiscretisedDensity<3, float>> mu_c(mu);
    c.norm.reset(new BinNormalisationFromAttenuationImage(mu_c, fwd));
    // (the class must be set up before the projector's symmetries exist: routes are filled in by run_case)
    // explicit rows: a second matrix object with the same settings (that rows do not depend on the symmetry settings is
    // property C03, not this one), cache off; the line integrals are summed here, not by a projector
    shared_ptr<ProjMatrixByBinUsingRayTracing> pm0 = make_matrix(f, swap_s, shift_z);
    pm0->enable_cache(false);
    pm0->set_up(g.pdi, mu);
    const float vx = mu->get_voxel_size().x();
    const int k = add(c);
    Case& cc = cases[k];
    cc.acf.reserve(g.nbins());
    ProjMatrixElemsForOneBin row;
    for (const Row& r : g.rows)
      for (int t = g.tmin; t <= g.tmax; ++t)
        {
          Bin b(r.seg, r.view, r.ax, t, r.tof);
          pm0->get_proj_matrix_elems_for_one_bin(row, b);
          std::ostringstream s;
          s << "row r" << cc.id << " " << r.seg << " " << r.view << " " << r.ax << " " << t;
          double integral = 0;
          for (auto e = row.begin(); e != row.end(); ++e)
            {
              // the projectors ignore elements outside the axial range of the image (ProjMatrixElemsForOneBin::forward_project)
              if (e->coord1() < mu->get_min_index() || e->coord1() > mu->get_max_index())
                continue;
              const float m = (*mu)[e->coord1()][e->coord2()][e->coord3()];
              s << " " << vh::hex(e->get_value()) << " " << vh::hex(m);
              // length in mm = element * x voxel size; mu in mm^-1 = mu / 10
              integral += static_cast<double>(e->get_value()) * vx * (static_cast<double>(m) / 10.);
            }
          op(s.str(), "ok");
          cc.acf.push_back(static_cast<float>(std::exp(integral)));
        }
    op("norm " + cc.id + " atten " + vh::hex(vx) + " r" + cc.id, "ok");
    atten_fwd[k] = fwd;
    return k;
  }
  std::map<int, shared_ptr<ForwardProjectorByBin>> atten_fwd;

  // components: which = bit0 efficiencies, bit1 geo, bit2 block; mode 0 random, 1 all exactly 1, 2 within 5e-5 of 1, 3 efficiencies with zeros
  int add_components(int which, int mode)
  {
    Case c;
    c.kind = "comp" + std::to_string(which) + "m" + std::to_string(mode);
    c.is_components = true;
    shared_ptr<BinNormalisationPETFromComponents> n(new BinNormalisationPETFromComponents);
    n->allocate(g.pdi, which & 1, which & 2, which & 4);
    auto val = [&]() {
      if (mode == 1)
        return 1.F;
      if (mode == 2)
        return 1.F + rnd(-5.e-5F, 5.e-5F);
      return rnd(0.5F, 2.F);
    };
    float emin = 1, emax = 1, gmin = 1, gmax = 1, bmin = 1, bmax = 1;
    auto track = [](float v, float& mn, float& mx, bool first) {
      if (first || v < mn)
        mn = v;
      if (first || v > mx)
        mx = v;
    };
    if (which & 1)
      {
        DetectorEfficiencies& e = n->crystal_efficiencies();
        bool first = true;
        for (int r = e.get_min_index(); r <= e.get_max_index(); ++r)
          for (int d = e[r].get_min_index(); d <= e[r].get_max_index(); ++d)
            {
              float v = val();
              if (mode == 3 && rng.range(0, 7) == 0)
                v = 0.F;
              e[r][d] = v;
              track(v, emin, emax, first);
              first = false;
            }
      }
    if (which & 2)
      {
        GeoData3D& geo = n->geometric_factors();
        // the array also has cells that no crystal pair ever reads; set every cell through the Array interface
        bool first = true;
        for (auto it = geo.begin_all(); it != geo.end_all(); ++it)
          {
            *it = val();
            track(*it, gmin, gmax, first);
            first = false;
          }
      }
    if (which & 4)
      {
        BlockData3D& bd = n->block_factors();
        bool first = true;
        for (int ra = bd.get_min_ra(); ra <= bd.get_max_ra(); ++ra)
          for (int a = bd.get_min_a(); a <= bd.get_max_a(); ++a)
            for (int rb = std::max(ra, bd.get_min_rb(ra)); rb <= bd.get_max_rb(ra); ++rb)
              for (int b = bd.get_min_b(a); b <= bd.get_max_b(a); ++b)
                {
                  const float v = val();
                  bd(ra, a, rb, b) = v;
                  track(v, bmin, bmax, first);
                  first = false;
                }
      }
    c.norm = n;
    c.routes = generic_routes();
    c.has_small_eff = true; // bins outside the fan / zero efficiencies
    c.positive_inputs = mode != 3;
    const int k = add(c);
    const std::string id = cases[k].id;
    // per-bin component tables: expand each component with the library's own fan-data functions (ML_norm.h);
    // crystal efficiencies are looked up directly through the detector pair of the bin
    PD ones(g.exam, g.pdi);
    ones.fill(1.F);
    {
      FanProjData fan;
      make_fan_data_remove_gaps(fan, ones);
      PD in_fan(g.exam, g.pdi);
      set_fan_data_add_gaps(in_fan, fan);
      send_table("fan" + id, in_fan);
    }
    if (which & 1)
      {
        PD ea(g.exam, g.pdi), eb(g.exam, g.pdi);
        auto pc = dynamic_cast<const ProjDataInfoCylindricalNoArcCorr*>(g.pdi.get());
        const DetectorEfficiencies& e = n->crystal_efficiencies();
        for (const Row& r : g.rows)
          for (int t = g.tmin; t <= g.tmax; ++t)
            {
              Bin b(r.seg, r.view, r.ax, t, r.tof);
              int a = 0, ra = 0, bb = 0, rb = 0;
              pc->get_det_pair_for_bin(a, ra, bb, rb, b);
              Bin x(b), y(b);
              x.set_bin_value(e[ra][a]);
              y.set_bin_value(e[rb][bb]);
              ea.set_bin_value(x);
              eb.set_bin_value(y);
            }
        send_table("ea" + id, ea);
        send_table("eb" + id, eb);
      }
    if (which & 2)
      {
        FanProjData fan;
        make_fan_data_remove_gaps(fan, ones);
        apply_geo_norm(fan, n->geometric_factors(), true);
        PD t(g.exam, g.pdi);
        set_fan_data_add_gaps(t, fan);
        send_table("geo" + id, t);
        // find_min / find_max of the component arrays are what is_trivial looks at
        gmin = n->geometric_factors().find_min();
        gmax = n->geometric_factors().find_max();
      }
    if (which & 4)
      {
        FanProjData fan;
        make_fan_data_remove_gaps(fan, ones);
        apply_block_norm(fan, n->block_factors(), true);
        PD t(g.exam, g.pdi);
        set_fan_data_add_gaps(t, fan);
        send_table("blk" + id, t);
      }
    std::ostringstream s;
    s << "norm " << id << " comp fan" << id << " " << ((which & 1) ? "ea" + id : std::string("-")) << " "
      << ((which & 1) ? "eb" + id : std::string("-")) << " " << ((which & 2) ? "geo" + id : std::string("-")) << " "
      << ((which & 4) ? "blk" + id : std::string("-")) << " " << vh::hex(emin) << " " << vh::hex(emax) << " " << vh::hex(gmin) << " "
      << vh::hex(gmax) << " " << vh::hex(bmin) << " " << vh::hex(bmax);
    op(s.str(), "ok");
    return k;
  }

  int add_chain(int i, int j)
  {
    Case c;
    c.kind = "chain(" + cases[i].kind + "," + cases[j].kind + ")";
    ++g_checks;
    try
      {
        if (cases[i].norm && cases[j].norm)
          c.norm.reset(new ChainedBinNormalisation(cases[i].norm, cases[j].norm));
      }
    catch (...)
      {
        oracle_fail("ChainedBinNormalisation refused members of which at most one has a calibration factor: " + c.kind);
      }
    c.members = { i, j };
    c.has_small_eff = cases[i].has_small_eff || cases[j].has_small_eff;
    c.positive_inputs = cases[i].positive_inputs && cases[j].positive_inputs;
    c.is_components = cases[i].is_components || cases[j].is_components; // bins outside the fan have efficiency 0
    c.routes = generic_routes(); // restricted in set_up_case if a member is an attenuation object
    const int k = add(c);
    op("norm " + cases[k].id + " chain " + cases[i].id + " " + cases[j].id, "ok");
    return k;
  }

  int add_empty_chain()
  {
    Case c;
    c.kind = "chain(null,null)";
    c.norm.reset(new ChainedBinNormalisation);
    c.routes = generic_routes();
    const int k = add(c);
    op("norm " + cases[k].id + " chain null null", "ok");
    return k;
  }

  // attenuation objects only accept related viewgrams following the symmetries of their projector
  int find_atten(int k) const
  {
    if (atten_fwd.count(k))
      return k;
    for (int m : cases[k].members)
      {
        const int a = find_atten(m);
        if (a >= 0)
          return a;
      }
    return -1;
  }
  void restrict_routes(int k, std::vector<Route>& routes)
  {
    const int a = find_atten(k);
    if (a < 0)
      return;
    shared_ptr<DataSymmetriesForViewSegmentNumbers> s(atten_fwd[a]->get_symmetries_used()->clone());
    routes.clear();
    routes.push_back(Route{ "rv:projector", false, s });
    routes.push_back(Route{ "whole:projector", true, s });
  }

  // ---- run one case: set_up, all routes, correspondence lines and oracle
  void run_case(int k)
  {
    Case& c = cases[k];
    if (!c.norm)
      return;
    bool ok = false;
    try
      {
        ok = c.norm->set_up(g.exam, g.pdi) == Succeeded::yes;
      }
    catch (...)
      {
        ok = false;
      }
    ++g_checks;
    if (!ok)
      {
        oracle_fail("set_up failed for a compatible geometry: " + c.kind);
        return;
      }
    restrict_routes(k, c.routes);
    // two attenuation members with different symmetries cannot be chained on the same viewgrams: generator avoids that

    // is_trivial
    bool triv = false;
    try
      {
        triv = c.norm->is_trivial();
      }
    catch (...)
      {}
    op("triv " + c.id, triv ? "1" : "0");

    // reported efficiency
    std::vector<float> eff(g.nbins(), 0.F);
    std::vector<char> eff_reported(g.nbins(), 0);
    {
      std::size_t i = 0;
      for (const Row& r : g.rows)
        {
          std::ostringstream o, a;
          o << "eff " << c.id << " " << r.seg << " " << r.view << " " << r.ax << " " << r.tof << " " << g.tmin << " " << g.nt;
          for (int t = g.tmin; t <= g.tmax; ++t, ++i)
            {
              Bin b(r.seg, r.view, r.ax, t, r.tof);
              try
                {
                  eff[i] = c.norm->get_bin_efficiency(b);
                  eff_reported[i] = 1;
                  a << (t > g.tmin ? " " : "") << fmt(eff[i]);
                }
              catch (...)
                {
                  a << (t > g.tmin ? " " : "") << "none";
                }
            }
          op(o.str(), a.str());
        }
    }

    c.F.clear();
    std::vector<float> first_U1, first_A1;
    for (std::size_t ri = 0; ri < c.routes.size(); ++ri)
      {
        const Route& r = c.routes[ri];
        PD work(g.exam, g.pdi);
        auto run = [&](const std::vector<float>& in, bool do_apply, std::vector<float>& res) {
          fill_from(g, work, in);
          const bool fine = run_route(*c.norm, r, g, work, do_apply);
          res = flatten(g, work);
          return fine;
        };
        std::vector<float> U1, U2, A1, AU1, UA1;
        bool fine = run(d1, false, U1) && run(d2, false, U2) && run(d1, true, A1);
        fine = fine && run(U1, true, AU1) && run(A1, false, UA1);
        ++g_checks;
        if (!fine)
          {
            oracle_fail("apply/undo threw for " + c.kind + " route " + r.name);
            continue;
          }
        // correspondence with the model: undo and apply of d1 for every route; undo of d2 for the first route
        send_result("undo", c, r, g, d1, U1);
        send_result("apply", c, r, g, d1, A1);
        if (ri == 0)
          send_result("undo", c, r, g, d2, U2);

        // ---------------- ORACLE (the property's statement on the implementation), all bins
        std::vector<float> F(g.nbins());
        int bad_lin = -1, bad_pos = -1, bad_eff = -1, bad_app = -1, bad_au = -1, bad_ua = -1, bad_triv = -1, bad_route = -1, bad_acf = -1,
            bad_fpd = -1, bad_chain = -1;
        bool triv_only_edge = true, pos_only_edge = true;
        const int half_fan = std::min(g.tmax, -g.tmin);
        for (std::size_t i = 0; i < g.nbins(); ++i)
          {
            const int tang = g.tmin + static_cast<int>(i % g.nt);
            const bool outside_fan = c.is_components && std::abs(tang) > half_fan;
            // (1) undo multiplies by ONE factor independent of the data
            const double f = d1[i] != 0.F ? static_cast<double>(U1[i]) / d1[i] : static_cast<double>(U2[i]) / d2[i];
            F[i] = static_cast<float>(f);
            if (!std::isfinite(f) || !close_rel(static_cast<double>(U1[i]) * d2[i], static_cast<double>(U2[i]) * d1[i], 1e-5)
                || (d1[i] == 0.F && U1[i] != 0.F) || (d2[i] == 0.F && U2[i] != 0.F))
              bad_lin = static_cast<int>(i);
            // (2) ... a positive one (non-negative where zero efficiencies were put in on purpose)
            if (f < 0 || (c.positive_inputs && !(f > 0)))
              {
                if (bad_pos < 0)
                  bad_pos = static_cast<int>(i);
                if (!outside_fan)
                  {
                    pos_only_edge = false;
                    bad_pos = static_cast<int>(i);
                  }
              }
            // (3) ... equal to the reported efficiency where one is reported
            if (eff_reported[i] && !close_rel(eff[i], f, 1e-5))
              bad_eff = static_cast<int>(i);
            const bool above_floor = f >= 1.e-20;
            if (above_floor)
              {
                // (4) apply divides by the same factor
                if (!close_rel(static_cast<double>(A1[i]) * f, d1[i], 1e-5))
                  bad_app = static_cast<int>(i);
                // (5) apply after undo, and undo after apply, restore the data
                if (!close_rel(AU1[i], d1[i], 1e-5))
                  bad_au = static_cast<int>(i);
                if (!close_rel(UA1[i], d1[i], 1e-5))
                  bad_ua = static_cast<int>(i);
              }
            // (7) a normalisation that reports itself trivial changes nothing
            if (triv && (!close_rel(U1[i], d1[i], 1e-3) || !close_rel(A1[i], d1[i], 1e-3)))
              {
                if (bad_triv < 0)
                  bad_triv = static_cast<int>(i);
                if (!outside_fan)
                  {
                    triv_only_edge = false;
                    bad_triv = static_cast<int>(i);
                  }
              }
            // (8) attenuation correction factors are the exponentials of the line integrals (independent rows)
            if (!c.acf.empty() && !close_rel(static_cast<double>(A1[i]), static_cast<double>(d1[i]) * c.acf[i], 2e-4))
              bad_acf = static_cast<int>(i);
            // (10) FromProjData: apply multiplies by the stored factor (timing position 0 for non-TOF factors)
            if (!c.stored_factor.empty() && !close_rel(static_cast<double>(A1[i]), static_cast<double>(d1[i]) * c.stored_factor[i], 1e-5))
              bad_fpd = static_cast<int>(i);
            // (6) a chain has the product of its members' efficiencies (members measured on their own, same grouping kind)
            if (c.members.size() == 2)
              {
                const Case &m1 = cases[c.members[0]], &m2 = cases[c.members[1]];
                if (!m1.F.empty() && !m2.F.empty() && !close_rel(f, static_cast<double>(m1.F[0][i]) * m2.F[0][i], 1e-5))
                  bad_chain = static_cast<int>(i);
              }
            // (9) every way of calling (any symmetry grouping, related viewgrams or whole data) gives the same result
            if (ri > 0
                && (!close_rel(U1[i], first_U1[i], 1e-5)
                    || !(close_rel(A1[i], first_A1[i], 1e-5) || (!std::isfinite(A1[i]) && !std::isfinite(first_A1[i])))))
              bad_route = static_cast<int>(i);
          }
        auto verdict = [&](int bad, const std::string& what) {
          ++g_checks;
          if (bad >= 0)
            oracle_fail(what + ": " + c.kind + " route " + r.name + " " + bin_name(g, bad) + " d=" + vh::hex(d1[bad]) + " undo=" + fmt(U1[bad])
                        + " apply=" + fmt(A1[bad]));
        };
        verdict(bad_lin, "undo does not multiply the bin by one data-independent finite factor");
        verdict(bad_eff, "get_bin_efficiency differs from the factor undo multiplies with");
        verdict(bad_app, "apply does not divide by the factor undo multiplies with");
        verdict(bad_au, "apply(undo(data)) != data where the efficiency is >= 1e-20");
        verdict(bad_ua, "undo(apply(data)) != data where the efficiency is >= 1e-20");
        verdict(bad_acf, "attenuation correction factor is not exp(line integral of mu/10 over the LOR in mm)");
        verdict(bad_fpd, "BinNormalisationFromProjData::apply does not multiply by the stored factor");
        verdict(bad_chain, "chain efficiency is not the product of its members' efficiencies");
        verdict(bad_route, "result depends on the symmetry grouping / viewgram-vs-whole-data call");
        const char* key = "components:even-number-of-tangential-positions:edge-bin-outside-fan-has-efficiency-0";
        const char* text
            = "BinNormalisationPETFromComponents set up for data with an even number of tangential positions (e.g. 16 detectors per ring, "
              "6 tangential positions -3..2): the bin at min_tangential_pos_num is outside the symmetric fan written by "
              "set_fan_data_add_gaps, so its efficiency is 0 although every component factor is positive; with all components equal to 1 "
              "is_trivial() is true, yet undo sets that bin to 0 and apply turns non-zero data into inf";
        if (bad_triv >= 0 && triv_only_edge && c.is_components && (g.nt % 2 == 0))
          {
            ++g_checks;
            known_candidate(key, text);
          }
        else
          verdict(bad_triv, "is_trivial() is true but apply/undo change the data");
        if (bad_pos >= 0 && pos_only_edge && c.is_components && (g.nt % 2 == 0))
          {
            ++g_checks;
            known_candidate(key, text);
          }
        else
          verdict(bad_pos, "efficiency factor is not positive although all factor data are positive");
        c.F.push_back(F);
        if (ri == 0)
          {
            first_U1 = U1;
            first_A1 = A1;
          }
      }
  }
};

// set_up of BinNormalisationFromProjData: decision for compatible / incompatible factor geometries
static void
fpd_setup_case(Runner& R, const shared_ptr<ProjDataInfo>& factors_pdi, bool expect_known, bool expected)
{
  shared_ptr<PD> f(new PD(R.g.exam, factors_pdi));
  f->fill(1.F);
  BinNormalisationFromProjData n(f);
  bool ok = false;
  try
    {
      ok = n.set_up(R.g.exam, R.g.pdi) == Succeeded::yes;
    }
  catch (...)
    {
      ok = false;
    }
  // the ProjDataInfo comparisons are data for the model (they are C01/C02's business)
  shared_ptr<const ProjDataInfo> proj = R.g.pdi;
  if (!factors_pdi->is_tof_data() && proj->is_tof_data())
    proj = proj->create_non_tof_clone();
  const ProjDataInfo& np = *factors_pdi;
  bool axeq = true;
  for (int s = proj->get_min_segment_num(); s <= proj->get_max_segment_num(); ++s)
    {
      if (s < np.get_min_segment_num() || s > np.get_max_segment_num())
        {
          axeq = false;
          break;
        }
      axeq = axeq && np.get_min_axial_pos_num(s) == proj->get_min_axial_pos_num(s)
             && np.get_max_axial_pos_num(s) == proj->get_max_axial_pos_num(s);
    }
  std::ostringstream o;
  o << "setup fpd " << (np == *proj ? 1 : 0) << " " << (np >= *proj ? 1 : 0) << " "
    << (np.get_min_tangential_pos_num() == proj->get_min_tangential_pos_num() ? 1 : 0) << " "
    << (np.get_max_tangential_pos_num() == proj->get_max_tangential_pos_num() ? 1 : 0) << " " << (axeq ? 1 : 0);
  op(o.str(), ok ? "ok" : "fail");
  ++g_checks;
  if (expect_known && ok != expected)
    oracle_fail(std::string("BinNormalisationFromProjData::set_up ") + (ok ? "accepted" : "rejected") + " a factor geometry that must be "
                + (expected ? "accepted" : "rejected"));
}

int
main(int argc, char** argv)
{
  if (argc < 5)
    return 2;
  vh::quiet();
  vh::Rng rng(std::strtoull(argv[1], nullptr, 10) * 1315423911ULL + 13);
  const bool thorough = std::string(argv[2]) == "thorough";
  g_ops = std::fopen(argv[3], "w");
  g_out = std::fopen(argv[4], "w");
  g_orc = std::fopen((std::string(argv[4]) + ".oracle").c_str(), "w");

  const int rounds = thorough ? 5 : 1;
  for (int round = 0; round < rounds; ++round)
    {
      // ------------------------------------------------------------------ A/B: non-TOF, span 1 (all classes); odd and even tangential size
      for (int even = 0; even < 2; ++even)
        {
          Runner R(rng, thorough);
          const int tpb = rng.coin() ? 4 : 2;                 // transaxial crystals per block
          const int N = tpb * 2 * rng.range(2, thorough ? 4 : 3) ; // 8..32, multiple of 2*tpb (blocks even)
          const int apb = rng.range(1, 2);
          const int Rr = apb * rng.range(1, 2);
          const int maxtang = N / 2 - 1;
          int nt = std::max(3, std::min(maxtang, 2 * rng.range(1, 3) + 1));
          if (even)
            nt = std::max(2, nt - 1);
          shared_ptr<Scanner> sc = block_scanner(N, Rr, tpb, apb, -1);
          shared_ptr<ProjDataInfo> pdi = vh::make_pdi(sc, 1, Rr - 1, N / 2, nt, false, 0);
          std::ostringstream d;
          d << "nonTOF N=" << N << " R=" << Rr << " span=1 views=" << N / 2 << " tang=" << nt << " blocks=" << tpb << "x" << apb;
          R.set_geometry(sc, pdi, d.str());
          const int t = R.add_trivial();
          const int tab = R.add_table(false);
          const int tab0 = R.add_table(true);
          const int cal = R.add_calib();
          const int fpd = R.add_from_proj_data(pdi, "same");
          const int f = rng.range(0, 7);
          const int at = R.add_atten(f, rng.coin() ? 0.8F : (rng.coin() ? 1.25F : 0.5F), rng.range(5, 8));
          const int at2 = even ? -1 : R.add_atten((f ^ 5) & 7, 1.F, rng.range(5, 8)); // a second symmetry setting, cubic-ish voxels
          const int c1 = R.add_components(1, 0);
          const int c7 = R.add_components(7, 0);
          const int c5 = R.add_components(rng.coin() ? 5 : 3, 0);
          const int cz = R.add_components(1, 3);
          const int ct = R.add_components(7, 1);
          const int cn = R.add_components(rng.range(1, 7), 2);
          const int ch1 = R.add_chain(fpd, at);          // the usual norm + attenuation chain
          const int ch2 = R.add_chain(tab, t);           // one effective member
          const int ch3 = R.add_chain(ch2, fpd);         // three members, left nested
          const int ch4 = R.add_chain(c7, ch1);          // three members, right nested
          const int ch5 = R.add_chain(cal, tab0);
          const int ch0 = R.add_empty_chain();
          (void)c1; (void)c5; (void)cz; (void)ct; (void)cn; (void)ch3; (void)ch4; (void)ch5; (void)ch0; (void)at2;
          for (std::size_t k = 0; k < R.cases.size(); ++k)
            R.run_case(static_cast<int>(k));
          // chain constructor: two calibrated members are refused
          {
            bool threw = false;
            try
              {
                ChainedBinNormalisation bad(R.cases[cal].norm, R.cases[cal].norm);
              }
            catch (...)
              {
                threw = true;
              }
            const float cf = R.cases[cal].norm->get_calibration_factor();
            op("chainctor " + vh::hex(cf) + " " + vh::hex(cf), threw ? "err" : "ok");
            bool threw2 = false;
            try
              {
                ChainedBinNormalisation fine(R.cases[cal].norm, R.cases[tab].norm);
              }
            catch (...)
              {
                threw2 = true;
              }
            op("chainctor " + vh::hex(cf) + " " + vh::hex(R.cases[tab].norm->get_calibration_factor()), threw2 ? "err" : "ok");
          }
        }
      // ------------------------------------------------------------------ C/E: TOF data (5 positions mash 1, or 9 mashed by 3)
      for (int variant = 0; variant < 2; ++variant)
        {
          Runner R(rng, thorough);
          const int N = 4 * rng.range(2, thorough ? 5 : 3);
          const int Rr = rng.range(1, 3);
          const int nt = std::max(2, std::min(N / 2 - 1, rng.range(2, 5)));
          const int max_tof = variant == 0 ? 5 : 9, mash = variant == 0 ? 1 : 3;
          shared_ptr<Scanner> sc = vh::make_scanner(N, Rr, max_tof);
          shared_ptr<ProjDataInfo> pdi = vh::make_pdi(sc, 1, Rr - 1, N / 2, nt, false, mash);
          std::ostringstream d;
          d << "TOF" << pdi->get_num_tof_poss() << " N=" << N << " R=" << Rr << " span=1 views=" << N / 2 << " tang=" << nt;
          R.set_geometry(sc, pdi, d.str());
          shared_ptr<ProjDataInfo> nontof(pdi->create_non_tof_clone());
          const int t = R.add_trivial();
          const int tab = R.add_table(false);
          const int tab0 = R.add_table(true);
          const int cal = R.add_calib();
          const int f0 = R.add_from_proj_data(nontof, "nonTOF-factors");
          const int f1 = R.add_from_proj_data(pdi, "TOF-factors");
          R.add_chain(f0, tab);
          R.add_chain(R.add_chain(f1, cal), f0);
          R.add_chain(t, R.add_chain(tab0, f1));
          for (std::size_t k = 0; k < R.cases.size(); ++k)
            R.run_case(static_cast<int>(k));
          // set_up decisions
          fpd_setup_case(R, nontof, true, true);
          fpd_setup_case(R, pdi, true, true);
          {
            shared_ptr<ProjDataInfo> other = vh::make_pdi(sc, 1, Rr - 1, N / 2, nt + 1 <= N / 2 - 1 ? nt + 1 : nt - 1, false, 0);
            fpd_setup_case(R, other, true, false); // different tangential size
            if (nt - 1 >= 1)
              fpd_setup_case(R, vh::make_pdi(sc, 1, Rr - 1, N / 2, nt - 1, false, 0), true, false); // smaller tangential size
          }
        }
      // ------------------------------------------------------------------ D: non-TOF, span 3, view mashing; F: factors with more segments
      {
        Runner R(rng, thorough);
        const int N = 8 * rng.range(2, thorough ? 4 : 3);
        const int Rr = rng.range(5, 6);
        const int nt = std::max(3, std::min(N / 2 - 1, rng.range(3, 6)));
        const int views = rng.coin() ? N / 2 : N / 4;
        shared_ptr<Scanner> sc = vh::make_scanner(N, Rr, -1);
        shared_ptr<ProjDataInfo> pdi = vh::make_pdi(sc, 3, 1, views, nt, false, 0);   // segment 0 only (max_delta 1, span 3)
        shared_ptr<ProjDataInfo> big = vh::make_pdi(sc, 3, 4, views, nt, false, 0);   // segments -1..1
        std::ostringstream d;
        d << "nonTOF N=" << N << " R=" << Rr << " span=3 views=" << views << " tang=" << nt << " segments=" << pdi->get_num_segments()
          << " factors-segments=" << big->get_num_segments();
        // data = the larger geometry in one sub-case, the smaller in the other
        R.set_geometry(sc, big, d.str() + " data=big");
        const int t = R.add_trivial();
        const int tab = R.add_table(false);
        const int fpd = R.add_from_proj_data(big, "same");
        const int at = R.add_atten(rng.range(0, 7), 0.8F, rng.range(5, 8));
        R.add_chain(fpd, at);
        R.add_chain(R.add_chain(tab, fpd), t);
        for (std::size_t k = 0; k < R.cases.size(); ++k)
          R.run_case(static_cast<int>(k));
        // the set-up state is checked on use (BinNormalisation::check)
        {
          auto try_use = [&](BinNormalisation& n, const shared_ptr<ProjDataInfo>& data_pdi) {
            PD dd(R.g.exam, data_pdi);
            dd.fill(1.F);
            shared_ptr<DataSymmetriesForViewSegmentNumbers> triv(new TrivialDataSymmetriesForBins(data_pdi));
            try
              {
                RelatedViewgrams<float> rv = dd.get_related_viewgrams(ViewSegmentNumbers(0, 0), triv, false, 0);
                n.undo(rv);
                n.apply(rv);
                return true;
              }
            catch (...)
              {
                return false;
              }
          };
          shared_ptr<PD> tb = R.random_positive_pd(big, 0.5F, 2.F);
          TableNorm fresh(tb), on_big(tb), on_small(tb);
          on_big.set_up(R.g.exam, big);
          on_small.set_up(R.g.exam, pdi);
          struct U
          {
            BinNormalisation* n;
            shared_ptr<ProjDataInfo> setup, data;
            bool expect_ok;
          } uses[] = { { &fresh, shared_ptr<ProjDataInfo>(), big, false },
                       { &on_big, big, big, true },
                       { &on_big, big, pdi, true },     // data with fewer segments than set up for
                       { &on_small, pdi, big, false },  // data with more segments than set up for
                       { &on_small, pdi, pdi, true } };
          for (auto& u : uses)
            {
              const bool okk = try_use(*u.n, u.data);
              const bool ge = u.setup ? (*u.setup >= *u.data) : true;
              op(std::string("use ") + (u.setup ? "1" : "0") + " " + (ge ? "1" : "0"), okk ? "ok" : "err");
              ++g_checks;
              if (okk != u.expect_ok)
                oracle_fail(std::string("use of a normalisation object ") + (u.setup ? "set up for another geometry" : "that was never set up")
                            + (okk ? " was accepted" : " was refused"));
            }
        }
        fpd_setup_case(R, pdi, true, false); // fewer segments than the data
        fpd_setup_case(R, big, true, true);

        Runner R2(rng, thorough);
        R2.set_geometry(sc, pdi, d.str() + " data=small");
        R2.add_from_proj_data(big, "more-segments");
        R2.add_table(true);
        R2.add_chain(0, 1);
        for (std::size_t k = 0; k < R2.cases.size(); ++k)
          R2.run_case(static_cast<int>(k));
        fpd_setup_case(R2, big, true, true); // more segments than the data: allowed
      }
    }

  std::fprintf(g_orc, "ORACLE-DONE checks=%ld fails=%ld\n", g_checks, g_fails);
  std::fclose(g_ops);
  std::fclose(g_out);
  std::fclose(g_orc);
  return 0;
}
