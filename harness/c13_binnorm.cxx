// C13 — implementation side.  Bin normalisation: apply and undo are inverse and match the bin efficiency.
//
// Drives the real STIR API on generated geometries:
//   TrivialBinNormalisation, BinNormalisationFromProjData (non-TOF factors with non-TOF/TOF data, TOF factors with TOF
//   data, factors with more segments than the data), BinNormalisationFromAttenuationImage (ray tracing matrix forward
//   projector with several symmetry settings; its default projector), BinNormalisationPETFromComponents (crystal
//   efficiencies, geometric and block factors; tables expanded by the library, and tables built by hand; scanners with
//   several blocks per bucket), ChainedBinNormalisation (nested, null members, partial application), the BinNormalisation
//   base-class defaults and BinNormalisationWithCalibration through two table-driven subclasses defined here;
//   set_up, then apply/undo on RelatedViewgrams for several symmetry groupings and on whole ProjData objects;
//   set_up refusals (TOF / mashed / compressed data) and the check of the set-up state on use, for every class;
//   HISTORIES ON ONE OBJECT (section I): an object is set up again after its factors were changed in place and / or for another
//   geometry (components, FromProjData, FromAttenuationImage, chains, calibrated table); after every set_up all oracles and
//   the correspondence run again and the answers are compared bitwise with a fresh object configured identically;
//   attenuation images with NON-SQUARE in-plane voxels (sections A/B and J): uniform boxes / cylinders with analytically
//   known chord lengths, image-object / filename constructors and the parsed route, with and without a projector given.
//   ONE OBJECT THROUGH CONSTRUCTORS, parse() AND set_up (section K): BinNormalisationFromProjData, BinNormalisationFromAttenuationImage and
//   ChainedBinNormalisation objects are parsed (text A) -> set up -> used -> parsed again (text B: other factor file / other image and
//   projector / other members) -> set up -> used, and constructed (file name, object) and then parsed; after every set_up all
//   oracles and the correspondence run and the answers are compared bitwise with a FRESH object parsed once with the same text;
//   TOF DATA MASHED TO ANY NUMBER OF TOF BINS, down to ONE (section C/E): non-TOF and TOF factors, set_up decisions.
// Usage: c13_binnorm <seed> <quick|thorough> <opsfile> <implfile>
// ops/impl: the line protocol answered by lean/Driver/C13.lean;  <implfile>.oracle: the property's own statement
// evaluated on the implementation (all bins).
#include "stir_fixtures.h"
#include "common.h"
#include "stir/recon_buildblock/BinNormalisation.h"
#include "stir/recon_buildblock/BinNormalisationWithCalibration.h"
#include "stir/recon_buildblock/TrivialBinNormalisation.h"
#include "stir/recon_buildblock/BinNormalisationFromProjData.h"
#include "stir/recon_buildblock/BinNormalisationFromAttenuationImage.h"
#include "stir/recon_buildblock/BinNormalisationPETFromComponents.h"
#include "stir/recon_buildblock/ChainedBinNormalisation.h"
#include "stir/recon_buildblock/TrivialDataSymmetriesForBins.h"
#include "stir/recon_buildblock/DataSymmetriesForBins_PET_CartesianGrid.h"
#include "stir/recon_buildblock/ProjMatrixByBinUsingRayTracing.h"
#include "stir/recon_buildblock/ForwardProjectorByBinUsingProjMatrixByBin.h"
#include "stir/recon_buildblock/ProjMatrixElemsForOneBin.h"
#include "stir/ML_norm.h"
#include "stir/ProjDataInMemory.h"
#include "stir/RelatedViewgrams.h"
#include "stir/ViewSegmentNumbers.h"
#include "stir/ExamInfo.h"
#include "stir/Radionuclide.h"
#include "stir/Succeeded.h"
#include "stir/Bin.h"
#include "stir/LORCoordinates.h"
#include "stir/IO/write_to_file.h"
#include <cmath>
#include <cstring>
#include <map>
#include <set>
#include <array>
#include <stdexcept>
#include <functional>

using namespace stir;
typedef ProjDataInMemory PD;

static FILE *g_ops, *g_out, *g_orc;
static long g_checks = 0, g_fails = 0;
static std::set<std::string> g_known_emitted;
static std::string g_cfg;

static void
op(const std::string& o, const std::string& answer)
{
  std::fprintf(g_ops, "%s\n", o.c_str());
  std::fprintf(g_out, "%s\n", answer.c_str());
}

static void
oracle_fail(const std::string& text)
{
  ++g_fails;
  if (g_fails <= 40)
    std::fprintf(g_orc, "ORACLE-FAIL %s [%s]\n", text.c_str(), g_cfg.c_str());
}

static void
known_candidate(const std::string& key, const std::string& text)
{
  if (g_known_emitted.insert(key).second)
    std::fprintf(g_orc, "KNOWN-CANDIDATE %s %s\n", key.c_str(), text.c_str());
}

// ---------------------------------------------------------------- table-driven subclasses (exercise the base-class loops)

// implements only get_bin_efficiency: apply/undo are BinNormalisation's defaults
class TableNorm : public BinNormalisation
{
public:
  explicit TableNorm(shared_ptr<PD> t)
      : table(t)
  {}
  std::string get_registered_name() const override { return "verif table"; }
  float get_bin_efficiency(const Bin& bin) const override
  {
    Bin c(bin);
    return table->get_bin_value(c);
  }
  shared_ptr<PD> table;
};

class CalibTableNorm : public BinNormalisationWithCalibration
{
public:
  explicit CalibTableNorm(shared_ptr<PD> t)
      : table(t)
  {}
  std::string get_registered_name() const override { return "verif calibrated table"; }
  float get_uncalibrated_bin_efficiency(const Bin& bin) const override
  {
    Bin c(bin);
    return table->get_bin_value(c);
  }
  shared_ptr<PD> table;
};

// ---------------------------------------------------------------- geometry helpers

static shared_ptr<Scanner>
block_scanner(int N, int R, int trans_per_block, int axial_per_block, int max_tof_bins, int axial_blocks_per_bucket = 1,
              int trans_blocks_per_bucket = 1)
{
  const float ring_radius = 100.F + N / 4.F;
  return shared_ptr<Scanner>(new Scanner(Scanner::User_defined_scanner, std::string("verif_scanner"), N, R,
                                         N / 2 - 1 > 0 ? N / 2 - 1 : 1, N / 2 - 1 > 0 ? N / 2 - 1 : 1, ring_radius, 5.F, 4.F, 2.F, 0.F,
                                         /*num_axial_blocks_per_bucket*/ axial_blocks_per_bucket,
                                         /*num_transaxial_blocks_per_bucket*/ trans_blocks_per_bucket, axial_per_block,
                                         trans_per_block, 1, 1, 1, 0.1F, 511.F, static_cast<short>(max_tof_bins),
                                         max_tof_bins > 0 ? 100.F : -1.F, max_tof_bins > 0 ? 400.F : -1.F, "Cylindrical"));
}

// ProjDataInMemory::get_bin_value is not const
static float
bin_value(const PD& d, Bin b)
{
  return const_cast<PD&>(d).get_bin_value(b);
}

struct Row
{
  int seg, view, ax, tof;
};

struct Geom
{
  shared_ptr<Scanner> scanner;
  shared_ptr<ProjDataInfo> pdi;
  shared_ptr<ExamInfo> exam;
  std::vector<Row> rows;
  int tmin, tmax, nt;
  std::size_t nbins() const { return rows.size() * nt; }
};

static std::vector<Row>
rows_of(const ProjDataInfo& p)
{
  std::vector<Row> r;
  for (int k = p.get_min_tof_pos_num(); k <= p.get_max_tof_pos_num(); ++k)
    for (int s = p.get_min_segment_num(); s <= p.get_max_segment_num(); ++s)
      for (int v = p.get_min_view_num(); v <= p.get_max_view_num(); ++v)
        for (int a = p.get_min_axial_pos_num(s); a <= p.get_max_axial_pos_num(s); ++a)
          r.push_back(Row{ s, v, a, k });
  return r;
}

static std::vector<float>
flatten(const Geom& g, const PD& d)
{
  std::vector<float> v;
  v.reserve(g.nbins());
  for (const Row& r : g.rows)
    for (int t = g.tmin; t <= g.tmax; ++t)
      {
        Bin b(r.seg, r.view, r.ax, t, r.tof);
        v.push_back(bin_value(d, b));
      }
  return v;
}

static void
fill_from(const Geom& g, PD& d, const std::vector<float>& v)
{
  std::size_t i = 0;
  for (const Row& r : g.rows)
    for (int t = g.tmin; t <= g.tmax; ++t)
      {
        Bin b(r.seg, r.view, r.ax, t, r.tof, v[i++]);
        d.set_bin_value(b);
      }
}

// fill any PD (possibly of another geometry) with values from a generator
static void
fill_gen(PD& d, const std::function<float()>& gen)
{
  const ProjDataInfo& p = *d.get_proj_data_info_sptr();
  for (const Row& r : rows_of(p))
    for (int t = p.get_min_tangential_pos_num(); t <= p.get_max_tangential_pos_num(); ++t)
      {
        Bin b(r.seg, r.view, r.ax, t, r.tof, gen());
        d.set_bin_value(b);
      }
}

// all values of any PD, in the order of fill_gen
static std::vector<float>
flatten_pd(PD& d)
{
  std::vector<float> v;
  const ProjDataInfo& p = *d.get_proj_data_info_sptr();
  for (const Row& r : rows_of(p))
    for (int t = p.get_min_tangential_pos_num(); t <= p.get_max_tangential_pos_num(); ++t)
      {
        Bin b(r.seg, r.view, r.ax, t, r.tof);
        v.push_back(d.get_bin_value(b));
      }
  return v;
}

static std::string
fmt(float x)
{
  if (!std::isfinite(x))
    return "nonfinite";
  return vh::hex(x);
}

// send a table (values of a PD of the geometry of `p`) to the model
static void
send_table(const std::string& name, const PD& d)
{
  const ProjDataInfo& p = *d.get_proj_data_info_sptr();
  for (const Row& r : rows_of(p))
    {
      std::ostringstream s;
      s << "tab " << name << " " << r.seg << " " << r.view << " " << r.ax << " " << r.tof << " " << p.get_min_tangential_pos_num();
      for (int t = p.get_min_tangential_pos_num(); t <= p.get_max_tangential_pos_num(); ++t)
        {
          Bin b(r.seg, r.view, r.ax, t, r.tof);
          s << " " << vh::hex(bin_value(d, b));
        }
      op(s.str(), "ok");
    }
}

// ---------------------------------------------------------------- comparisons of BinNormalisationFromProjData::set_up
// the five comparisons between the geometry of the factors and a data geometry (the ProjDataInfo comparisons themselves are
// C01/C02's business: data for the model)
static std::string
geom_cmp(const ProjDataInfo& np, const ProjDataInfo& proj)
{
  bool axeq = true;
  for (int s = proj.get_min_segment_num(); s <= proj.get_max_segment_num(); ++s)
    {
      if (s < np.get_min_segment_num() || s > np.get_max_segment_num())
        {
          axeq = false;
          break;
        }
      axeq = axeq && np.get_min_axial_pos_num(s) == proj.get_min_axial_pos_num(s)
             && np.get_max_axial_pos_num(s) == proj.get_max_axial_pos_num(s);
    }
  std::ostringstream o;
  o << (np == proj ? 1 : 0) << " " << (np >= proj ? 1 : 0) << " " << (np.get_min_tangential_pos_num() == proj.get_min_tangential_pos_num() ? 1 : 0)
    << " " << (np.get_max_tangential_pos_num() == proj.get_max_tangential_pos_num() ? 1 : 0) << " " << (axeq ? 1 : 0);
  return o.str();
}

// "<TOF mashing factor of the factors> <of the data> <comparisons with the data geometry as it is> <with its non-TOF clone>":
// WHICH of the two set_up looks at is decided by the model (fromProjDataSetUpTof), not here
static std::string
fpd_setup_flags(const ProjDataInfo& np, const ProjDataInfo& data)
{
  shared_ptr<ProjDataInfo> clone(data.create_non_tof_clone());
  std::ostringstream o;
  o << np.get_tof_mash_factor() << " " << data.get_tof_mash_factor() << " " << geom_cmp(np, data) << " " << geom_cmp(np, *clone);
  return o.str();
}

// ---------------------------------------------------------------- routes (how apply/undo is called)

struct Route
{
  std::string name;
  bool whole;
  shared_ptr<DataSymmetriesForViewSegmentNumbers> sym; // may be null for whole (=> library default)
};

// returns false if the library threw
static bool
run_route(const BinNormalisation& n, const Route& r, const Geom& g, PD& d, bool do_apply)
{
  try
    {
      if (r.whole)
        {
          if (do_apply)
            n.apply(d, r.sym);
          else
            n.undo(d, r.sym);
        }
      else
        {
          const ProjDataInfo& p = *g.pdi;
          for (int s = p.get_min_segment_num(); s <= p.get_max_segment_num(); ++s)
            for (int v = p.get_min_view_num(); v <= p.get_max_view_num(); ++v)
              {
                const ViewSegmentNumbers vs(v, s);
                if (!r.sym->is_basic(vs))
                  continue;
                for (int k = p.get_min_tof_pos_num(); k <= p.get_max_tof_pos_num(); ++k)
                  {
                    RelatedViewgrams<float> rv = d.get_related_viewgrams(vs, r.sym, false, k);
                    if (do_apply)
                      n.apply(rv);
                    else
                      n.undo(rv);
                    d.set_related_viewgrams(rv);
                  }
              }
        }
    }
  catch (...)
    {
      return false;
    }
  return true;
}

// the same for any pair of functions (related viewgrams / whole data); `sym` is used for the related-viewgrams loop only
static bool
run_route_fn(const std::function<void(RelatedViewgrams<float>&)>& on_rv, const std::function<void(ProjData&)>& on_whole, bool whole,
             const shared_ptr<DataSymmetriesForViewSegmentNumbers>& sym, const Geom& g, PD& d)
{
  try
    {
      if (whole)
        on_whole(d);
      else
        {
          const ProjDataInfo& p = *g.pdi;
          for (int s = p.get_min_segment_num(); s <= p.get_max_segment_num(); ++s)
            for (int v = p.get_min_view_num(); v <= p.get_max_view_num(); ++v)
              {
                const ViewSegmentNumbers vs(v, s);
                if (!sym->is_basic(vs))
                  continue;
                for (int k = p.get_min_tof_pos_num(); k <= p.get_max_tof_pos_num(); ++k)
                  {
                    RelatedViewgrams<float> rv = d.get_related_viewgrams(vs, sym, false, k);
                    on_rv(rv);
                    d.set_related_viewgrams(rv);
                  }
              }
        }
    }
  catch (...)
    {
      return false;
    }
  return true;
}

// ---------------------------------------------------------------- normalisation cases

struct Case
{
  std::string id, kind;
  shared_ptr<BinNormalisation> norm;
  std::vector<Route> routes;
  bool has_small_eff = false;          // efficiencies of 0 / below the 1e-20 floor occur (on purpose)
  bool positive_inputs = true;         // all factor data > 0  => efficiency must be > 0
  std::vector<int> members;            // for chains: indices of the two members
  std::vector<float> acf;              // for attenuation: independently computed exp(line integral), per bin
  std::vector<float> stored_factor;    // for FromProjData: the stored factor each bin must be multiplied with by apply
  bool is_components = false;
  bool is_chain = false;
  std::vector<float> hand_eff;         // for components built by hand: the expected efficiency per bin
  // a class of inputs for which a failure of the attenuation-factor oracle / the comparison with a fresh object is reported as a
  // KNOWN-CANDIDATE with this key (empty: ORACLE-FAIL)
  std::string known_key, known_text;
  // measured
  std::vector<std::vector<float>> F;   // per route: efficiency factor measured from undo
};

static bool
close_rel(double a, double b, double rel)
{
  if (!std::isfinite(a) || !std::isfinite(b))
    return false;
  return std::fabs(a - b) <= rel * std::max(std::fabs(a), std::fabs(b)) + 1e-37;
}

static std::string
bin_name(const Geom& g, std::size_t i)
{
  const Row& r = g.rows[i / g.nt];
  std::ostringstream s;
  s << "bin(seg=" << r.seg << ",view=" << r.view << ",ax=" << r.ax << ",tang=" << g.tmin + static_cast<int>(i % g.nt) << ",tof=" << r.tof
    << ")";
  return s.str();
}

// emit `apply`/`undo` correspondence lines: input data `in`, implementation result `res`
static void
send_result(const std::string& what, const Case& c, const Route& r, const Geom& g, const std::vector<float>& in,
            const std::vector<float>& res)
{
  std::size_t i = 0;
  for (const Row& row : g.rows)
    {
      std::ostringstream o, a;
      o << what << " " << c.id << " " << r.name << " " << row.seg << " " << row.view << " " << row.ax << " " << row.tof << " " << g.tmin;
      for (int t = 0; t < g.nt; ++t, ++i)
        {
          o << " " << vh::hex(in[i]);
          a << (t ? " " : "") << fmt(res[i]);
        }
      op(o.str(), a.str());
    }
}

struct Runner
{
  vh::Rng& rng;
  bool thorough;
  Geom g;
  std::vector<Case> cases;
  std::vector<float> d1, d2;

  Runner(vh::Rng& r, bool th)
      : rng(r),
        thorough(th)
  {}

  float rnd(float lo, float hi) { return static_cast<float>(lo + (hi - lo) * rng.unit()); }

  shared_ptr<PD> new_pd(const shared_ptr<ProjDataInfo>& pdi) { return shared_ptr<PD>(new PD(g.exam, pdi)); }

  shared_ptr<PD> random_positive_pd(const shared_ptr<ProjDataInfo>& pdi, float lo, float hi)
  {
    shared_ptr<PD> p = new_pd(pdi);
    fill_gen(*p, [&]() { return rnd(lo, hi); });
    return p;
  }

  void set_geometry(const shared_ptr<Scanner>& sc, const shared_ptr<ProjDataInfo>& pdi, const std::string& descr)
  {
    g.scanner = sc;
    g.pdi = pdi;
    g.exam.reset(new ExamInfo);
    g.exam->imaging_modality = ImagingModality::PT;
    g.rows = rows_of(*pdi);
    g.tmin = pdi->get_min_tangential_pos_num();
    g.tmax = pdi->get_max_tangential_pos_num();
    g.nt = g.tmax - g.tmin + 1;
    cases.clear();
    atten_sym.clear();
    g_cfg = descr;
    op("cfg " + descr, "ok");
    d1.resize(g.nbins());
    d2.resize(g.nbins());
    for (std::size_t i = 0; i < d1.size(); ++i)
      {
        d1[i] = rng.range(0, 19) == 0 ? 0.F : rnd(0.5F, 8.F);
        d2[i] = (d1[i] == 0.F || rng.range(0, 19) != 0) ? rnd(0.25F, 12.F) : 0.F;
      }
  }

  // ---- symmetry groupings for classes that accept any symmetries
  std::vector<Route> generic_routes()
  {
    std::vector<Route> r;
    shared_ptr<DataSymmetriesForViewSegmentNumbers> triv(new TrivialDataSymmetriesForBins(g.pdi));
    r.push_back(Route{ "rv:trivial", false, triv });
    shared_ptr<DiscretisedDensity<3, float>> image = vh::make_image(*g.pdi, 1.F, 5, -1);
    std::vector<int> flags;
    if (thorough)
      for (int f = 0; f < 8; ++f)
        flags.push_back(f);
    else
      {
        flags.push_back(7);
        flags.push_back(rng.range(0, 6));
      }
    for (int f : flags)
      {
        shared_ptr<DataSymmetriesForViewSegmentNumbers> s(
            new DataSymmetriesForBins_PET_CartesianGrid(g.pdi, image, f & 1, f & 2, f & 4, rng.coin(), rng.coin()));
        r.push_back(Route{ "rv:pet" + std::to_string(f), false, s });
      }
    r.push_back(Route{ "whole:default", true, shared_ptr<DataSymmetriesForViewSegmentNumbers>() });
    {
      const int f = thorough ? 7 : rng.range(1, 7);
      shared_ptr<DataSymmetriesForViewSegmentNumbers> s(new DataSymmetriesForBins_PET_CartesianGrid(g.pdi, image, f & 1, f & 2, f & 4, true, true));
      r.push_back(Route{ "whole:pet" + std::to_string(f), true, s });
    }
    return r;
  }

  int add(Case c)
  {
    c.id = "n" + std::to_string(cases.size());
    cases.push_back(c);
    return static_cast<int>(cases.size()) - 1;
  }

  // ---- constructors of the cases (each also sends the `norm` definition to the model)

  int add_trivial()
  {
    Case c;
    c.kind = "trivial";
    c.norm.reset(new TrivialBinNormalisation);
    c.routes = generic_routes();
    const int k = add(c);
    op("norm " + cases[k].id + " trivial", "ok");
    return k;
  }

  int add_table(bool with_small)
  {
    Case c;
    c.kind = with_small ? "table0" : "table";
    shared_ptr<PD> t = new_pd(g.pdi);
    fill_gen(*t, [&]() {
      if (with_small)
        {
          const int k = rng.range(0, 9);
          if (k == 0)
            return 0.F;
          if (k == 1)
            return 1.e-25F * rnd(1.F, 9.F); // below the 1e-20 floor
          if (k == 2)
            return 1.e-20F;
        }
      return rnd(0.2F, 5.F);
    });
    c.norm.reset(new TableNorm(t));
    c.routes = generic_routes();
    c.has_small_eff = with_small;
    c.positive_inputs = !with_small;
    const int k = add(c);
    send_table("t" + cases[k].id, *t);
    op("norm " + cases[k].id + " table t" + cases[k].id, "ok");
    return k;
  }

  int add_calib()
  {
    Case c;
    c.kind = "calib";
    shared_ptr<PD> t = random_positive_pd(g.pdi, 0.2F, 5.F);
    shared_ptr<CalibTableNorm> n(new CalibTableNorm(t));
    const float cal = rnd(0.3F, 40.F);
    const float br = rng.coin() ? 0.9686F : rnd(0.1F, 1.F);
    n->set_calibration_factor(cal);
    n->set_radionuclide(Radionuclide("verif", 511.F, br, 6584.04F, ImagingModality(ImagingModality::PT)));
    c.norm = n;
    c.routes = generic_routes();
    const int k = add(c);
    send_table("t" + cases[k].id, *t);
    op("norm " + cases[k].id + " calib t" + cases[k].id + " " + vh::hex(cal) + " " + vh::hex(br), "ok");
    return k;
  }

  // a calibrated table that already has a history: the object `n` is about to be set up again (by run_case); the model keeps
  // its state (CalibObj) under the name `hist_id` and is told here that set_up is called, with the table as it is now
  int add_calib_hist(const shared_ptr<CalibTableNorm>& n, const std::string& hist_id)
  {
    Case c;
    c.kind = "calib:history";
    c.norm = n;
    c.routes = generic_routes();
    const int k = add(c);
    send_table("t" + cases[k].id, *n->table);
    op("hist " + hist_id + " setup calib t" + cases[k].id, "ok");
    cases[k].id = hist_id;
    return k;
  }

  // factors_pdi: geometry of the stored factors; `f_reuse` / `norm_reuse`: an existing factor data set (values as they are
  // now) held by an existing object.  `hist_id`: the object has a history of constructor / parse / set_up calls that the model
  // follows under this name (FpdObj): the model already knows the factors (it was told at the constructor / the parse); it is told
  // here that set_up is called now, with the comparisons of the geometry of the factors with that of the data.
  int add_from_proj_data(const shared_ptr<ProjDataInfo>& factors_pdi, const std::string& label, shared_ptr<PD> f_reuse = shared_ptr<PD>(),
                         shared_ptr<BinNormalisation> norm_reuse = shared_ptr<BinNormalisation>(), const std::string& hist_id = "")
  {
    Case c;
    c.kind = "fpd:" + label;
    shared_ptr<PD> f = f_reuse ? f_reuse : random_positive_pd(factors_pdi, 0.25F, 4.F);
    if (norm_reuse)
      c.norm = norm_reuse;
    else
      c.norm.reset(new BinNormalisationFromProjData(f));
    c.routes = generic_routes();
    const bool norm_tof = factors_pdi->is_tof_data();
    c.stored_factor.reserve(g.nbins());
    for (const Row& r : g.rows)
      for (int t = g.tmin; t <= g.tmax; ++t)
        {
          Bin b(r.seg, r.view, r.ax, t, norm_tof ? r.tof : 0);
          c.stored_factor.push_back(bin_value(*f, b));
        }
    const int k = add(c);
    if (!hist_id.empty())
      {
        op("hist " + hist_id + " setup fpd " + fpd_setup_flags(*factors_pdi, *g.pdi), "ok");
        cases[k].id = hist_id;
        return k;
      }
    send_table("t" + cases[k].id, *f);
    op("norm " + cases[k].id + " fpd t" + cases[k].id + " " + (norm_tof ? "1" : "0"), "ok");
    // is_TOF_only_norm(): the factors have more than one TOF position
    {
      std::string ans = "err";
      try
        {
          ans = cases[k].norm->is_TOF_only_norm() ? "1" : "0";
        }
      catch (...)
        {}
      op("tofonly fpd " + std::to_string(factors_pdi->get_num_tof_poss()), ans);
    }
    return k;
  }

  // attenuation image + ray tracing matrix with symmetry flags `f`; or (default_projector) no projector given: the class
  // then uses ForwardProjectorByBinUsingRayTracing, whose symmetries are DataSymmetriesForBins_PET_CartesianGrid with
  // everything enabled.  In both cases the rows sent to the model and used by the oracle come from a separate
  // ProjMatrixByBinUsingRayTracing object (one ray per bin), and the line integrals are summed here.
  // `sx`, `sy`: the x and y voxel sizes of the image are multiplied by these (non-square in-plane voxels).
  struct AttenObj
  {
    shared_ptr<VoxelsOnCartesianGrid<float>> mu; // cm^-1, as given to the constructor
    shared_ptr<ForwardProjectorByBin> fwd;       // null: none given
    shared_ptr<BinNormalisation> norm;
    int f;
    bool swap_s, shift_z, default_projector;
    std::string label;
  };

  static shared_ptr<ProjMatrixByBinUsingRayTracing> make_matrix(int flags, bool swap_s, bool shift_z)
  {
    shared_ptr<ProjMatrixByBinUsingRayTracing> pm(new ProjMatrixByBinUsingRayTracing);
    pm->set_do_symmetry_90degrees_min_phi(flags & 1);
    pm->set_do_symmetry_180degrees_min_phi(flags & 2);
    pm->set_do_symmetry_swap_segment(flags & 4);
    pm->set_do_symmetry_swap_s(swap_s);
    pm->set_do_symmetry_shift_z(shift_z);
    return pm;
  }

  // a new normalisation object (and a new projector with the same settings) for the same image
  static void construct_atten(AttenObj& a)
  {
    shared_ptr<const DiscretisedDensity<3, float>> mu_c(a.mu);
    if (a.default_projector)
      {
        a.fwd.reset();
        a.norm.reset(new BinNormalisationFromAttenuationImage(mu_c));
      }
    else
      {
        a.fwd.reset(new ForwardProjectorByBinUsingProjMatrixByBin(make_matrix(a.f, a.swap_s, a.shift_z)));
        a.norm.reset(new BinNormalisationFromAttenuationImage(mu_c, a.fwd));
      }
  }

  AttenObj make_atten(int f, float zoom, int nxy, bool default_projector = false, float sx = 1.F, float sy = 1.F)
  {
    AttenObj a;
    a.f = f;
    a.default_projector = default_projector;
    a.mu = vh::make_image(*g.pdi, zoom, nxy, -1);
    if (sx != 1.F || sy != 1.F)
      {
        CartesianCoordinate3D<float> vs = a.mu->get_voxel_size();
        vs.x() *= sx;
        vs.y() *= sy;
        a.mu->set_voxel_size(vs);
        std::ostringstream l;
        l << ":voxel(x,y,z)=(" << vs.x() << "," << vs.y() << "," << vs.z() << ")";
        a.label = l.str();
      }
    shared_ptr<VoxelsOnCartesianGrid<float>> mu = a.mu;
    for (auto it = mu->begin_all(); it != mu->end_all(); ++it)
      *it = rng.range(0, 5) == 0 ? 0.F : rnd(0.02F, 0.45F); // cm^-1
    if (default_projector)
      {
        // The expectation comes from another projector implementation (the ray tracing MATRIX).  The two differ in which
        // partially covered voxels at the edge of the cylindrical field of view they include (and the matrix rows there also
        // depend on the symmetry settings: sum of the row of bin (0, view 60 degrees, 0, 0) is 6 computed directly, 8.08
        // through the 90-degree symmetry, 7x7 image).  That is the business of properties C03/C04; here the attenuation image is
        // simply empty near the edge, as real attenuation images are.
        const CartesianCoordinate3D<float> vs = mu->get_voxel_size();
        const double keep_x = ((nxy - 1) / 2. - 1.) * vs.x(), keep_y = ((nxy - 1) / 2. - 1.) * vs.y();
        const double keep = std::min(keep_x, keep_y);
        for (int z = mu->get_min_index(); z <= mu->get_max_index(); ++z)
          for (int y = (*mu)[z].get_min_index(); y <= (*mu)[z].get_max_index(); ++y)
            for (int x = (*mu)[z][y].get_min_index(); x <= (*mu)[z][y].get_max_index(); ++x)
              if (std::sqrt(static_cast<double>(x) * x * vs.x() * vs.x() + static_cast<double>(y) * y * vs.y() * vs.y()) > keep)
                (*mu)[z][y][x] = 0.F;
      }
    a.swap_s = rng.coin();
    a.shift_z = rng.coin();
    construct_atten(a);
    return a;
  }

  // the matrix rows of every bin for the image `mu` (ray tracing matrix with the given settings, a matrix object of our own, cache
  // off: that rows do not depend on the symmetry settings is property C03, not this one) paired with the voxel values, sent to the
  // model as the row table `name`; `acf` (optional): exp(line integral), summed here, not by a projector
  void send_rows(const std::string& name, const shared_ptr<VoxelsOnCartesianGrid<float>>& mu, int f, bool swap_s, bool shift_z,
                 std::vector<float>* acf)
  {
    shared_ptr<ProjMatrixByBinUsingRayTracing> pm0 = make_matrix(f, swap_s, shift_z);
    pm0->enable_cache(false);
    pm0->set_up(g.pdi, mu);
    // the matrix elements are lengths in units of the X voxel size
    const float vx = mu->get_voxel_size().x();
    if (acf)
      {
        acf->clear();
        acf->reserve(g.nbins());
      }
    ProjMatrixElemsForOneBin row;
    for (const Row& r : g.rows)
      for (int t = g.tmin; t <= g.tmax; ++t)
        {
          Bin b(r.seg, r.view, r.ax, t, r.tof);
          pm0->get_proj_matrix_elems_for_one_bin(row, b);
          std::ostringstream s;
          s << "row " << name << " " << r.seg << " " << r.view << " " << r.ax << " " << t;
          double integral = 0;
          for (auto e = row.begin(); e != row.end(); ++e)
            {
              // the projectors ignore elements outside the axial range of the image (ProjMatrixElemsForOneBin::forward_project)
              if (e->coord1() < mu->get_min_index() || e->coord1() > mu->get_max_index())
                continue;
              const float m = (*mu)[e->coord1()][e->coord2()][e->coord3()];
              s << " " << vh::hex(e->get_value()) << " " << vh::hex(m);
              // length in mm = element * x voxel size; mu in mm^-1 = mu / 10
              integral += static_cast<double>(e->get_value()) * vx * (static_cast<double>(m) / 10.);
            }
          op(s.str(), "ok");
          if (acf)
            acf->push_back(static_cast<float>(std::exp(integral)));
        }
  }

  // the case for an attenuation object (new, or one that was set up before) and the data geometry at hand
  int add_atten_case(const AttenObj& a)
  {
    Case c;
    c.kind = (a.default_projector ? std::string("attenDefaultProjector") : "atten" + std::to_string(a.f)) + a.label;
    c.norm = a.norm;
    shared_ptr<VoxelsOnCartesianGrid<float>> mu = a.mu;
    shared_ptr<ForwardProjectorByBin> fwd = a.fwd;
    // (the class must be set up before the projector's symmetries exist: routes are filled in by run_case)
    const float vx = mu->get_voxel_size().x();
    const int k = add(c);
    Case& cc = cases[k];
    send_rows("r" + cc.id, mu, a.f, a.swap_s, a.shift_z, &cc.acf);
    op("norm " + cc.id + " atten " + vh::hex(vx) + " r" + cc.id, "ok");
    if (a.default_projector)
      {
        shared_ptr<ProjDataInfo> pdi = g.pdi;
        atten_sym[k] = [pdi, mu]() {
          return shared_ptr<DataSymmetriesForViewSegmentNumbers>(new DataSymmetriesForBins_PET_CartesianGrid(pdi, mu));
        };
      }
    else
      atten_sym[k] = [fwd]() { return shared_ptr<DataSymmetriesForViewSegmentNumbers>(fwd->get_symmetries_used()->clone()); };
    return k;
  }

  int add_atten(int f, float zoom, int nxy, bool default_projector = false, float sx = 1.F, float sy = 1.F)
  {
    return add_atten_case(make_atten(f, zoom, nxy, default_projector, sx, sy));
  }
  // symmetries of the projector inside an attenuation object (available after set_up)
  std::map<int, std::function<shared_ptr<DataSymmetriesForViewSegmentNumbers>()>> atten_sym;

  // components: which = bit0 efficiencies, bit1 geo, bit2 block; mode 0 random, 1 all exactly 1, 2 within 5e-5 of 1, 3 efficiencies with zeros,
  // 4 ONE element of each array changed (the others stay as they are; only with `reuse`).
  // `reuse`: an object that was allocated (and possibly set up) before: only the arrays in `which & change` are written, in place;
  // `hist_id`: the name under which the model keeps the state of that object (CompObj): the model is told that set_up is called
  // now (run_case does it), with the arrays as they are now, looked up per bin for the geometry at hand.
  int add_components(int which, int mode, shared_ptr<BinNormalisationPETFromComponents> reuse = shared_ptr<BinNormalisationPETFromComponents>(),
                     int change = 7, const std::string& hist_id = "")
  {
    Case c;
    c.kind = "comp" + std::to_string(which) + "m" + std::to_string(mode) + (reuse ? ":history" : "");
    c.is_components = true;
    shared_ptr<BinNormalisationPETFromComponents> n = reuse;
    if (!n)
      {
        n.reset(new BinNormalisationPETFromComponents);
        n->allocate(g.pdi, which & 1, which & 2, which & 4);
      }
    const int fill = reuse ? (which & change) : which;
    auto val = [&]() {
      if (mode == 1)
        return 1.F;
      if (mode == 2)
        return 1.F + rnd(-5.e-5F, 5.e-5F);
      return rnd(0.5F, 2.F);
    };
    float emin = 1, emax = 1, gmin = 1, gmax = 1, bmin = 1, bmax = 1;
    auto track = [](float v, float& mn, float& mx, bool first) {
      if (first || v < mn)
        mn = v;
      if (first || v > mx)
        mx = v;
    };
    if (fill & 1)
      {
        DetectorEfficiencies& e = n->crystal_efficiencies();
        bool first = true;
        if (mode == 4)
          e[rng.range(e.get_min_index(), e.get_max_index())][rng.range(e[e.get_min_index()].get_min_index(), e[e.get_min_index()].get_max_index())]
              = rnd(1.2F, 1.8F);
        else
          for (int r = e.get_min_index(); r <= e.get_max_index(); ++r)
            for (int d = e[r].get_min_index(); d <= e[r].get_max_index(); ++d)
              {
                float v = val();
                if (mode == 3 && rng.range(0, 7) == 0)
                  v = 0.F;
                e[r][d] = v;
                track(v, emin, emax, first);
                first = false;
              }
      }
    if (fill & 2)
      {
        GeoData3D& geo = n->geometric_factors();
        // the array also has cells that no crystal pair ever reads; set every cell through the Array interface
        bool first = true;
        if (mode == 4)
          {
            // all cells of one (ring, crystal) of the first detector: some of them are read for every geometry
            Array<4, float>& arr = geo;
            const int ra = rng.range(arr.get_min_index(), arr.get_max_index());
            const int a = rng.range(arr[ra].get_min_index(), arr[ra].get_max_index());
            const float v = rnd(1.2F, 1.8F);
            for (auto it = arr[ra][a].begin_all(); it != arr[ra][a].end_all(); ++it)
              *it = v;
          }
        else
          for (auto it = geo.begin_all(); it != geo.end_all(); ++it)
            {
              *it = val();
              track(*it, gmin, gmax, first);
              first = false;
            }
      }
    if (fill & 4)
      {
        BlockData3D& bd = n->block_factors();
        bool first = true;
        const bool one = mode == 4;
        const int pick_ra = rng.range(bd.get_min_ra(), bd.get_max_ra()), pick_a = rng.range(bd.get_min_a(), bd.get_max_a());
        const float one_v = one ? rnd(1.2F, 1.8F) : 0.F;
        for (int ra = bd.get_min_ra(); ra <= bd.get_max_ra(); ++ra)
          for (int a = bd.get_min_a(); a <= bd.get_max_a(); ++a)
            for (int rb = std::max(ra, bd.get_min_rb(ra)); rb <= bd.get_max_rb(ra); ++rb)
              for (int b = bd.get_min_b(a); b <= bd.get_max_b(a); ++b)
                {
                  if (one)
                    {
                      if (ra == pick_ra && a == pick_a)
                        bd(ra, a, rb, b) = one_v;
                      continue;
                    }
                  const float v = val();
                  bd(ra, a, rb, b) = v;
                  track(v, bmin, bmax, first);
                  first = false;
                }
      }
    if (reuse)
      {
        // the ranges `is_trivial` looks at, of the arrays as they are now (written in this step or earlier)
        if (which & 1)
          {
            emin = n->crystal_efficiencies().find_min();
            emax = n->crystal_efficiencies().find_max();
          }
        if (which & 4)
          {
            bmin = n->block_factors().find_min();
            bmax = n->block_factors().find_max();
          }
      }
    c.norm = n;
    c.routes = generic_routes();
    c.has_small_eff = true; // bins outside the fan / zero efficiencies
    c.positive_inputs = mode != 3;
    const int k = add(c);
    const std::string id = cases[k].id;
    // per-bin component tables: expand each component with the library's own fan-data functions (ML_norm.h);
    // crystal efficiencies are looked up directly through the detector pair of the bin
    PD ones(g.exam, g.pdi);
    ones.fill(1.F);
    {
      FanProjData fan;
      make_fan_data_remove_gaps(fan, ones);
      PD in_fan(g.exam, g.pdi);
      set_fan_data_add_gaps(in_fan, fan);
      send_table("fan" + id, in_fan);
    }
    if (which & 1)
      {
        PD ea(g.exam, g.pdi), eb(g.exam, g.pdi);
        auto pc = dynamic_cast<const ProjDataInfoCylindricalNoArcCorr*>(g.pdi.get());
        const DetectorEfficiencies& e = n->crystal_efficiencies();
        for (const Row& r : g.rows)
          for (int t = g.tmin; t <= g.tmax; ++t)
            {
              Bin b(r.seg, r.view, r.ax, t, r.tof);
              int a = 0, ra = 0, bb = 0, rb = 0;
              pc->get_det_pair_for_bin(a, ra, bb, rb, b);
              Bin x(b), y(b);
              x.set_bin_value(e[ra][a]);
              y.set_bin_value(e[rb][bb]);
              ea.set_bin_value(x);
              eb.set_bin_value(y);
            }
        send_table("ea" + id, ea);
        send_table("eb" + id, eb);
      }
    if (which & 2)
      {
        FanProjData fan;
        make_fan_data_remove_gaps(fan, ones);
        apply_geo_norm(fan, n->geometric_factors(), true);
        PD t(g.exam, g.pdi);
        set_fan_data_add_gaps(t, fan);
        send_table("geo" + id, t);
        // find_min / find_max of the component arrays are what is_trivial looks at
        gmin = n->geometric_factors().find_min();
        gmax = n->geometric_factors().find_max();
      }
    if (which & 4)
      {
        FanProjData fan;
        make_fan_data_remove_gaps(fan, ones);
        apply_block_norm(fan, n->block_factors(), true);
        PD t(g.exam, g.pdi);
        set_fan_data_add_gaps(t, fan);
        send_table("blk" + id, t);
      }
    std::ostringstream s;
    s << "norm " << id << " comp fan" << id << " " << ((which & 1) ? "ea" + id : std::string("-")) << " "
      << ((which & 1) ? "eb" + id : std::string("-")) << " " << ((which & 2) ? "geo" + id : std::string("-")) << " "
      << ((which & 4) ? "blk" + id : std::string("-")) << " " << vh::hex(emin) << " " << vh::hex(emax) << " " << vh::hex(gmin) << " "
      << vh::hex(gmax) << " " << vh::hex(bmin) << " " << vh::hex(bmax);
    if (hist_id.empty())
      op(s.str(), "ok");
    else
      {
        // `norm <id> comp …` -> `hist <hist_id> setup comp …`; from here on the case answers under the name of the object
        op("hist " + hist_id + " setup" + s.str().substr(std::string("norm " + id).size()), "ok");
        cases[k].id = hist_id;
      }
    return k;
  }

  // components with the expected per-bin efficiency built BY HAND (no call of apply_geo_norm / apply_block_norm /
  // apply_efficiencies / make_fan_data on the expectation side):
  //   efficiency(bin) = e[ra][a] * e[rb][b]  *  geo(class of the crystal pair)  *  block(unordered pair of blocks)
  // for the crystal pair (ra,a),(rb,b) of the bin (ProjDataInfoCylindricalNoArcCorr::get_det_pair_for_bin, property C01),
  // inside the fan |tangential_pos| <= min(max_tang, -min_tang), and 0 outside.
  // The geometric factors are one value per symmetry class of crystal pairs: classes are computed here by union-find over
  // ALL ordered crystal pairs of the scanner under (i) exchange of the two crystals, (ii) rotation by one symmetry unit
  // transaxially, (iii) shift by one symmetry unit axially, (iv) transaxial mirror d -> N-1-d, (v) axial mirror r -> R-1-r,
  // where the unit is a bucket if the scanner has more than one bucket in that direction, otherwise a block
  // (BinNormalisationPETFromComponents::allocate, do_symmetry_per_block=false).  Every cell of the GeoData3D array gets the
  // value of the class of its index, so the result cannot depend on which cell of a class the library reads.
  // The block factors are one value per unordered pair of blocks.
  int add_components_hand(int which, const std::string& label)
  {
    Case c;
    c.kind = "comphand" + std::to_string(which) + label;
    c.is_components = true;
    const Scanner& sc = *g.scanner;
    const int N = sc.get_num_detectors_per_ring(), R = sc.get_num_rings();
    const int tpb = sc.get_num_transaxial_crystals_per_block(), apb = sc.get_num_axial_crystals_per_block();
    const int Ut = sc.get_num_transaxial_buckets() > 1 ? tpb * sc.get_num_transaxial_blocks_per_bucket() : tpb;
    const int Ua = sc.get_num_axial_buckets() > 1 ? apb * sc.get_num_axial_blocks_per_bucket() : apb;
    shared_ptr<BinNormalisationPETFromComponents> n(new BinNormalisationPETFromComponents);
    n->allocate(g.pdi, which & 1, which & 2, which & 4);
    // ---- classes of crystal pairs
    const int M = R * N;
    std::vector<int> parent(static_cast<std::size_t>(M) * M);
    for (std::size_t i = 0; i < parent.size(); ++i)
      parent[i] = static_cast<int>(i);
    std::function<int(int)> find = [&](int x) {
      while (parent[x] != x)
        x = parent[x] = parent[parent[x]];
      return x;
    };
    auto id = [&](int ra, int a, int rb, int b) { return (ra * N + a) * M + (rb * N + b); };
    auto unite = [&](int x, int y) {
      x = find(x);
      y = find(y);
      if (x != y)
        parent[std::max(x, y)] = std::min(x, y);
    };
    for (int ra = 0; ra < R; ++ra)
      for (int a = 0; a < N; ++a)
        for (int rb = 0; rb < R; ++rb)
          for (int b = 0; b < N; ++b)
            {
              const int x = id(ra, a, rb, b);
              unite(x, id(rb, b, ra, a));
              unite(x, id(ra, (a + Ut) % N, rb, (b + Ut) % N));
              if (ra + Ua < R && rb + Ua < R)
                unite(x, id(ra + Ua, a, rb + Ua, b));
              unite(x, id(ra, N - 1 - a, rb, N - 1 - b));
              unite(x, id(R - 1 - ra, a, R - 1 - rb, b));
            }
    std::vector<float> class_value(parent.size());
    for (float& v : class_value)
      v = rnd(0.5F, 2.F);
    auto geo_of = [&](int ra, int a, int rb, int b) { return class_value[find(id(ra, a % N, rb, b % N))]; };
    // ---- one block factor per unordered pair of blocks
    std::map<std::pair<int, int>, float> block_value;
    const int ntb = N / tpb;
    auto block_of = [&](int ra, int a, int rb, int b) -> float& {
      const int x = (ra / apb) * ntb + (a % N) / tpb, y = (rb / apb) * ntb + (b % N) / tpb;
      const std::pair<int, int> key(std::min(x, y), std::max(x, y));
      auto it = block_value.find(key);
      if (it == block_value.end())
        it = block_value.insert(std::make_pair(key, rnd(0.5F, 2.F))).first;
      return it->second;
    };
    float emin = 1, emax = 1, gmin = 1, gmax = 1, bmin = 1, bmax = 1;
    if (which & 1)
      {
        DetectorEfficiencies& e = n->crystal_efficiencies();
        for (int r = e.get_min_index(); r <= e.get_max_index(); ++r)
          for (int d = e[r].get_min_index(); d <= e[r].get_max_index(); ++d)
            e[r][d] = rnd(0.5F, 2.F);
        emin = e.find_min();
        emax = e.find_max();
      }
    if (which & 2)
      {
        GeoData3D& geo = n->geometric_factors();
        Array<4, float>& arr = geo;
        for (int ra = arr.get_min_index(); ra <= arr.get_max_index(); ++ra)
          for (int a = arr[ra].get_min_index(); a <= arr[ra].get_max_index(); ++a)
            for (int rb = arr[ra][a].get_min_index(); rb <= arr[ra][a].get_max_index(); ++rb)
              for (int b = arr[ra][a][rb].get_min_index(); b <= arr[ra][a][rb].get_max_index(); ++b)
                arr[ra][a][rb][b] = geo_of(ra, a, rb, b);
        gmin = geo.find_min();
        gmax = geo.find_max();
      }
    if (which & 4)
      {
        BlockData3D& bd = n->block_factors();
        // (block indices; the accessor maps both orders of a pair of blocks in the same ring to different cells: both are set)
        for (int ra = bd.get_min_ra(); ra <= bd.get_max_ra(); ++ra)
          for (int a = bd.get_min_a(); a <= bd.get_max_a(); ++a)
            for (int rb = std::max(ra, bd.get_min_rb(ra)); rb <= bd.get_max_rb(ra); ++rb)
              for (int b = bd.get_min_b(a); b <= bd.get_max_b(a); ++b)
                bd(ra, a, rb, b) = block_of(ra * apb, a * tpb, rb * apb, (b % ntb) * tpb);
        bmin = bd.find_min();
        bmax = bd.find_max();
      }
    c.norm = n;
    c.routes = generic_routes();
    c.has_small_eff = true; // bins outside the fan
    c.positive_inputs = true;
    const int k = add(c);
    const std::string cid = cases[k].id;
    // ---- hand-made per-bin tables and expected efficiency
    PD fan(g.exam, g.pdi), ea(g.exam, g.pdi), eb(g.exam, g.pdi), geo_t(g.exam, g.pdi), blk_t(g.exam, g.pdi);
    auto pc = dynamic_cast<const ProjDataInfoCylindricalNoArcCorr*>(g.pdi.get());
    const int half_fan = std::min(g.tmax, -g.tmin);
    Case& cc = cases[k];
    cc.hand_eff.reserve(g.nbins());
    for (const Row& r : g.rows)
      for (int t = g.tmin; t <= g.tmax; ++t)
        {
          Bin b(r.seg, r.view, r.ax, t, r.tof);
          int a = 0, ra = 0, bb = 0, rb = 0;
          pc->get_det_pair_for_bin(a, ra, bb, rb, b);
          const bool in_fan = std::abs(t) <= half_fan;
          double expected = in_fan ? 1. : 0.;
          auto put = [&](PD& d, float v) {
            Bin x(b);
            x.set_bin_value(v);
            d.set_bin_value(x);
          };
          put(fan, in_fan ? 1.F : 0.F);
          if (which & 1)
            {
              const DetectorEfficiencies& e = n->crystal_efficiencies();
              put(ea, e[ra][a]);
              put(eb, e[rb][bb]);
              expected *= static_cast<double>(e[ra][a]) * e[rb][bb];
            }
          if (which & 2)
            {
              const float v = geo_of(ra, a, rb, bb);
              put(geo_t, v);
              expected *= v;
            }
          if (which & 4)
            {
              const float v = block_of(ra, a, rb, bb);
              put(blk_t, v);
              expected *= v;
            }
          cc.hand_eff.push_back(static_cast<float>(expected));
        }
    send_table("fan" + cid, fan);
    if (which & 1)
      {
        send_table("ea" + cid, ea);
        send_table("eb" + cid, eb);
      }
    if (which & 2)
      send_table("geo" + cid, geo_t);
    if (which & 4)
      send_table("blk" + cid, blk_t);
    std::ostringstream s;
    s << "norm " << cid << " comp fan" << cid << " " << ((which & 1) ? "ea" + cid : std::string("-")) << " "
      << ((which & 1) ? "eb" + cid : std::string("-")) << " " << ((which & 2) ? "geo" + cid : std::string("-")) << " "
      << ((which & 4) ? "blk" + cid : std::string("-")) << " " << vh::hex(emin) << " " << vh::hex(emax) << " " << vh::hex(gmin) << " "
      << vh::hex(gmax) << " " << vh::hex(bmin) << " " << vh::hex(bmax);
    op(s.str(), "ok");
    return k;
  }

  // i or j may be -1: a null member
  int add_chain(int i, int j)
  {
    Case c;
    auto kind_of = [&](int m) { return m < 0 ? std::string("null") : cases[m].kind; };
    c.kind = "chain(" + kind_of(i) + "," + kind_of(j) + ")";
    ++g_checks;
    try
      {
        if ((i < 0 || cases[i].norm) && (j < 0 || cases[j].norm))
          c.norm.reset(new ChainedBinNormalisation(i < 0 ? shared_ptr<BinNormalisation>() : cases[i].norm,
                                                   j < 0 ? shared_ptr<BinNormalisation>() : cases[j].norm));
      }
    catch (...)
      {
        oracle_fail("ChainedBinNormalisation refused members of which at most one has a calibration factor: " + c.kind);
      }
    c.members = { i, j };
    c.is_chain = true;
    for (int m : c.members)
      if (m >= 0)
        {
          c.has_small_eff = c.has_small_eff || cases[m].has_small_eff;
          c.positive_inputs = c.positive_inputs && cases[m].positive_inputs;
          c.is_components = c.is_components || cases[m].is_components; // bins outside the fan have efficiency 0
        }
    c.routes = generic_routes(); // restricted in set_up_case if a member is an attenuation object
    const int k = add(c);
    op("norm " + cases[k].id + " chain " + (i < 0 ? std::string("null") : cases[i].id) + " "
           + (j < 0 ? std::string("null") : cases[j].id),
       "ok");
    return k;
  }

  int add_empty_chain()
  {
    Case c;
    c.kind = "chain(null,null)";
    c.norm.reset(new ChainedBinNormalisation);
    c.routes = generic_routes();
    const int k = add(c);
    op("norm " + cases[k].id + " chain null null", "ok");
    return k;
  }

  // attenuation objects only accept related viewgrams following the symmetries of their projector
  int find_atten(int k) const
  {
    if (k < 0)
      return -1;
    if (atten_sym.count(k))
      return k;
    for (int m : cases[k].members)
      {
        if (m < 0)
          continue;
        const int a = find_atten(m);
        if (a >= 0)
          return a;
      }
    return -1;
  }
  void restrict_routes(int k, std::vector<Route>& routes)
  {
    const int a = find_atten(k);
    if (a < 0)
      return;
    shared_ptr<DataSymmetriesForViewSegmentNumbers> s = atten_sym[a]();
    routes.clear();
    routes.push_back(Route{ "rv:projector", false, s });
    routes.push_back(Route{ "whole:projector", true, s });
  }


  // ---- ChainedBinNormalisation: partial application (apply_only_first/second, undo_only_first/second, is_first/second_trivial)
  // ops `apply1|apply2|undo1|undo2 <id> <route> ...` and `triv1|triv2 <id>`; oracle: the partial call does exactly what the
  // member does on its own (a null member: nothing), first-then-second equals the whole chain.
  void run_partial(int k, const std::vector<float>& chain_U1, const std::vector<float>& chain_A1)
  {
    Case& c = cases[k];
    const ChainedBinNormalisation* chain = dynamic_cast<const ChainedBinNormalisation*>(c.norm.get());
    if (!chain || c.members.size() != 2 || c.routes.empty())
      return;
    for (int which = 0; which < 2; ++which)
      {
        const int m = c.members[which];
        std::string ans;
        try
          {
            ans = (which == 0 ? chain->is_first_trivial() : chain->is_second_trivial()) ? "1" : "0";
          }
        catch (...)
          {
            ans = "err";
          }
        op("triv" + std::to_string(which + 1) + " " + c.id, ans);
        ++g_checks;
        std::string expected = "err";
        if (m >= 0)
          {
            bool t = false;
            try
              {
                t = cases[m].norm->is_trivial();
              }
            catch (...)
              {}
            expected = t ? "1" : "0";
          }
        if (ans != expected)
          oracle_fail(std::string("is_") + (which ? "second" : "first") + "_trivial() of " + c.kind + " gives " + ans
                      + " but the member on its own gives " + expected);
      }
    const Route& rv = c.routes[0];
    for (int whole = 0; whole < 2; ++whole)
      {
        std::vector<float> after_first_apply, after_first_undo;
        for (int which = 0; which < 2; ++which)
          {
            const int m = c.members[which];
            // a whole-data call cannot pass symmetries: an attenuation member only accepts those of its projector
            if (whole && find_atten(m) >= 0)
              continue;
            if (m >= 0 && cases[m].F.empty())
              continue;
            const std::string route = whole ? "whole:default" : rv.name;
            const std::string tag = std::to_string(which + 1);
            auto call = [&](bool do_apply, const std::vector<float>& in, std::vector<float>& res) {
              PD work(g.exam, g.pdi);
              fill_from(g, work, in);
              const bool fine = run_route_fn(
                  [&](RelatedViewgrams<float>& r) {
                    if (do_apply)
                      which == 0 ? chain->apply_only_first(r) : chain->apply_only_second(r);
                    else
                      which == 0 ? chain->undo_only_first(r) : chain->undo_only_second(r);
                  },
                  [&](ProjData& p) {
                    if (do_apply)
                      which == 0 ? chain->apply_only_first(p) : chain->apply_only_second(p);
                    else
                      which == 0 ? chain->undo_only_first(p) : chain->undo_only_second(p);
                  },
                  whole != 0, rv.sym, g, work);
              res = flatten(g, work);
              return fine;
            };
            std::vector<float> U1, A1;
            ++g_checks;
            if (!(call(false, d1, U1) && call(true, d1, A1)))
              {
                oracle_fail(std::string("apply/undo_only_") + (which ? "second" : "first") + " threw for " + c.kind + " route " + route);
                continue;
              }
            Route named{ route, whole != 0, rv.sym };
            send_result("undo" + tag, c, named, g, d1, U1);
            send_result("apply" + tag, c, named, g, d1, A1);
            int bad_u = -1, bad_a = -1, bad_null = -1, bad_cu = -1, bad_ca = -1;
            const std::vector<float>* mF = m >= 0 ? &cases[m].F[0] : nullptr;
            // composition first-then-second (related viewgrams only; needs both halves)
            std::vector<float> CU, CA;
            bool composed = false;
            if (which == 0)
              {
                after_first_apply = A1;
                after_first_undo = U1;
              }
            else if (!after_first_apply.empty())
              composed = call(false, after_first_undo, CU) && call(true, after_first_apply, CA);
            for (std::size_t i = 0; i < g.nbins(); ++i)
              {
                if (!mF)
                  {
                    if (U1[i] != d1[i] || A1[i] != d1[i])
                      bad_null = static_cast<int>(i);
                    continue;
                  }
                const double fm = (*mF)[i];
                if (!close_rel(U1[i], static_cast<double>(d1[i]) * fm, 1e-5))
                  bad_u = static_cast<int>(i);
                if (fm >= 1.e-20 && !close_rel(static_cast<double>(A1[i]) * fm, d1[i], 1e-5))
                  bad_a = static_cast<int>(i);
              }
            if (composed)
              for (std::size_t i = 0; i < g.nbins(); ++i)
                {
                  if (!close_rel(CU[i], chain_U1[i], 1e-5))
                    bad_cu = static_cast<int>(i);
                  if (!(close_rel(CA[i], chain_A1[i], 1e-5) || (!std::isfinite(CA[i]) && !std::isfinite(chain_A1[i]))))
                    bad_ca = static_cast<int>(i);
                }
            auto verdict = [&](int bad, const std::string& what) {
              ++g_checks;
              if (bad >= 0)
                oracle_fail(what + ": " + c.kind + " route " + route + " " + bin_name(g, bad) + " d=" + vh::hex(d1[bad])
                            + " undo_only=" + fmt(U1[bad]) + " apply_only=" + fmt(A1[bad]));
            };
            const std::string nm = which ? "second" : "first";
            verdict(bad_u, "undo_only_" + nm + " does not multiply by the efficiency of that member alone");
            verdict(bad_a, "apply_only_" + nm + " does not divide by the efficiency of that member alone");
            verdict(bad_null, "apply/undo_only_" + nm + " with a null member changes the data");
            if (composed)
              {
                verdict(bad_cu, "undo_only_first then undo_only_second differs from undo of the chain");
                verdict(bad_ca, "apply_only_first then apply_only_second differs from apply of the chain");
              }
          }
      }
  }

  // ---- run one case: set_up, all routes, correspondence lines and oracle
  void run_case(int k)
  {
    Case& c = cases[k];
    if (!c.norm)
      return;
    bool ok = false;
    try
      {
        ok = c.norm->set_up(g.exam, g.pdi) == Succeeded::yes;
      }
    catch (...)
      {
        ok = false;
      }
    ++g_checks;
    if (!ok)
      {
        oracle_fail("set_up failed for a compatible geometry: " + c.kind);
        return;
      }
    restrict_routes(k, c.routes);
    // two attenuation members with different symmetries cannot be chained on the same viewgrams: generator avoids that

    // is_trivial
    bool triv = false;
    try
      {
        triv = c.norm->is_trivial();
      }
    catch (...)
      {}
    op("triv " + c.id, triv ? "1" : "0");

    // reported efficiency
    std::vector<float> eff(g.nbins(), 0.F);
    std::vector<char> eff_reported(g.nbins(), 0);
    {
      std::size_t i = 0;
      for (const Row& r : g.rows)
        {
          std::ostringstream o, a;
          o << "eff " << c.id << " " << r.seg << " " << r.view << " " << r.ax << " " << r.tof << " " << g.tmin << " " << g.nt;
          for (int t = g.tmin; t <= g.tmax; ++t, ++i)
            {
              Bin b(r.seg, r.view, r.ax, t, r.tof);
              try
                {
                  eff[i] = c.norm->get_bin_efficiency(b);
                  eff_reported[i] = 1;
                  a << (t > g.tmin ? " " : "") << fmt(eff[i]);
                }
              catch (...)
                {
                  a << (t > g.tmin ? " " : "") << "none";
                }
            }
          op(o.str(), a.str());
        }
    }

    c.F.clear();
    std::vector<float> first_U1, first_A1;
    for (std::size_t ri = 0; ri < c.routes.size(); ++ri)
      {
        const Route& r = c.routes[ri];
        PD work(g.exam, g.pdi);
        auto run = [&](const std::vector<float>& in, bool do_apply, std::vector<float>& res) {
          fill_from(g, work, in);
          const bool fine = run_route(*c.norm, r, g, work, do_apply);
          res = flatten(g, work);
          return fine;
        };
        std::vector<float> U1, U2, A1, AU1, UA1;
        bool fine = run(d1, false, U1) && run(d2, false, U2) && run(d1, true, A1);
        fine = fine && run(U1, true, AU1) && run(A1, false, UA1);
        ++g_checks;
        if (!fine)
          {
            oracle_fail("apply/undo threw for " + c.kind + " route " + r.name);
            continue;
          }
        // correspondence with the model: undo and apply of d1 for every route; undo of d2 for the first route
        send_result("undo", c, r, g, d1, U1);
        send_result("apply", c, r, g, d1, A1);
        if (ri == 0)
          send_result("undo", c, r, g, d2, U2);

        // ---------------- ORACLE (the property's statement on the implementation), all bins
        std::vector<float> F(g.nbins());
        int bad_lin = -1, bad_pos = -1, bad_eff = -1, bad_app = -1, bad_au = -1, bad_ua = -1, bad_triv = -1, bad_route = -1, bad_acf = -1,
            bad_fpd = -1, bad_chain = -1, bad_hand = -1;
        bool triv_only_edge = true, pos_only_edge = true;
        const int half_fan = std::min(g.tmax, -g.tmin);
        for (std::size_t i = 0; i < g.nbins(); ++i)
          {
            const int tang = g.tmin + static_cast<int>(i % g.nt);
            const bool outside_fan = c.is_components && std::abs(tang) > half_fan;
            // (1) undo multiplies by ONE factor independent of the data
            const double f = d1[i] != 0.F ? static_cast<double>(U1[i]) / d1[i] : static_cast<double>(U2[i]) / d2[i];
            F[i] = static_cast<float>(f);
            if (!std::isfinite(f) || !close_rel(static_cast<double>(U1[i]) * d2[i], static_cast<double>(U2[i]) * d1[i], 1e-5)
                || (d1[i] == 0.F && U1[i] != 0.F) || (d2[i] == 0.F && U2[i] != 0.F))
              bad_lin = static_cast<int>(i);
            // (2) ... a positive one (non-negative where zero efficiencies were put in on purpose)
            if (f < 0 || (c.positive_inputs && !(f > 0)))
              {
                if (bad_pos < 0)
                  bad_pos = static_cast<int>(i);
                if (!outside_fan)
                  {
                    pos_only_edge = false;
                    bad_pos = static_cast<int>(i);
                  }
              }
            // (3) ... equal to the reported efficiency where one is reported
            if (eff_reported[i] && !close_rel(eff[i], f, 1e-5))
              bad_eff = static_cast<int>(i);
            const bool above_floor = f >= 1.e-20;
            if (above_floor)
              {
                // (4) apply divides by the same factor
                if (!close_rel(static_cast<double>(A1[i]) * f, d1[i], 1e-5))
                  bad_app = static_cast<int>(i);
                // (5) apply after undo, and undo after apply, restore the data
                if (!close_rel(AU1[i], d1[i], 1e-5))
                  bad_au = static_cast<int>(i);
                if (!close_rel(UA1[i], d1[i], 1e-5))
                  bad_ua = static_cast<int>(i);
              }
            // (7) a normalisation that reports itself trivial changes nothing
            if (triv && (!close_rel(U1[i], d1[i], 1e-3) || !close_rel(A1[i], d1[i], 1e-3)))
              {
                if (bad_triv < 0)
                  bad_triv = static_cast<int>(i);
                if (!outside_fan)
                  {
                    triv_only_edge = false;
                    bad_triv = static_cast<int>(i);
                  }
              }
            // (8) attenuation correction factors are the exponentials of the line integrals (independent rows)
            if (!c.acf.empty() && !close_rel(static_cast<double>(A1[i]), static_cast<double>(d1[i]) * c.acf[i], 2e-4))
              bad_acf = static_cast<int>(i);
            // (10) FromProjData: apply multiplies by the stored factor (timing position 0 for non-TOF factors)
            if (!c.stored_factor.empty() && !close_rel(static_cast<double>(A1[i]), static_cast<double>(d1[i]) * c.stored_factor[i], 1e-5))
              bad_fpd = static_cast<int>(i);
            // (11) components: the factor is (product of the two crystal efficiencies) x (geometric factor of the class of
            //      the crystal pair) x (block factor of the pair of blocks), all computed by hand (inside the fan)
            if (!c.hand_eff.empty() && !outside_fan && !close_rel(f, c.hand_eff[i], 1e-5))
              bad_hand = static_cast<int>(i);
            // (6) a chain has the product of its members' efficiencies (members measured on their own, same grouping kind;
            //     a null member counts as 1)
            if (c.members.size() == 2)
              {
                const int i1 = c.members[0], i2 = c.members[1];
                const bool have1 = i1 < 0 || !cases[i1].F.empty(), have2 = i2 < 0 || !cases[i2].F.empty();
                const double f1 = i1 < 0 ? 1. : (have1 ? cases[i1].F[0][i] : 0.), f2 = i2 < 0 ? 1. : (have2 ? cases[i2].F[0][i] : 0.);
                if (have1 && have2 && !close_rel(f, f1 * f2, 1e-5))
                  bad_chain = static_cast<int>(i);
              }
            // (9) every way of calling (any symmetry grouping, related viewgrams or whole data) gives the same result
            if (ri > 0
                && (!close_rel(U1[i], first_U1[i], 1e-5)
                    || !(close_rel(A1[i], first_A1[i], 1e-5) || (!std::isfinite(A1[i]) && !std::isfinite(first_A1[i])))))
              bad_route = static_cast<int>(i);
          }
        auto verdict = [&](int bad, const std::string& what) {
          ++g_checks;
          if (bad >= 0)
            oracle_fail(what + ": " + c.kind + " route " + r.name + " " + bin_name(g, bad) + " d=" + vh::hex(d1[bad]) + " undo=" + fmt(U1[bad])
                        + " apply=" + fmt(A1[bad]));
        };
        verdict(bad_lin, "undo does not multiply the bin by one data-independent finite factor");
        verdict(bad_eff, "get_bin_efficiency differs from the factor undo multiplies with");
        verdict(bad_app, "apply does not divide by the factor undo multiplies with");
        verdict(bad_au, "apply(undo(data)) != data where the efficiency is >= 1e-20");
        verdict(bad_ua, "undo(apply(data)) != data where the efficiency is >= 1e-20");
        if (bad_acf >= 0 && !c.known_key.empty())
          {
            ++g_checks;
            known_candidate(c.known_key, c.known_text);
          }
        else
          verdict(bad_acf, "attenuation correction factor is not exp(line integral of mu/10 over the LOR in mm)");
        verdict(bad_fpd, "BinNormalisationFromProjData::apply does not multiply by the stored factor");
        verdict(bad_chain, "chain efficiency is not the product of its members' efficiencies");
        if (!c.hand_eff.empty())
          verdict(bad_hand, "components efficiency is not crystal efficiencies x geometric factor of the pair's class x block factor");
        verdict(bad_route, "result depends on the symmetry grouping / viewgram-vs-whole-data call");
        const char* key = "components:even-number-of-tangential-positions:edge-bin-outside-fan-has-efficiency-0";
        const char* text
            = "BinNormalisationPETFromComponents set up for data with an even number of tangential positions (e.g. 16 detectors per ring, "
              "6 tangential positions -3..2): the bin at min_tangential_pos_num is outside the symmetric fan written by "
              "set_fan_data_add_gaps, so its efficiency is 0 although every component factor is positive; with all components equal to 1 "
              "is_trivial() is true, yet undo sets that bin to 0 and apply turns non-zero data into inf";
        if (bad_triv >= 0 && triv_only_edge && c.is_components && (g.nt % 2 == 0))
          {
            ++g_checks;
            known_candidate(key, text);
          }
        else
          verdict(bad_triv, "is_trivial() is true but apply/undo change the data");
        if (bad_pos >= 0 && pos_only_edge && c.is_components && (g.nt % 2 == 0))
          {
            ++g_checks;
            known_candidate(key, text);
          }
        else
          verdict(bad_pos, "efficiency factor is not positive although all factor data are positive");
        c.F.push_back(F);
        if (ri == 0)
          {
            first_U1 = U1;
            first_A1 = A1;
          }
      }
    if (c.is_chain && !first_U1.empty())
      run_partial(k, first_U1, first_A1);
  }

  // ---- histories on one object: after run_case(k) of an object that was set up before (for other factors and / or another
  // geometry), a FRESH object configured identically and set up once must give bitwise the same answers: is_trivial,
  // get_bin_efficiency of every bin (or an error for both), undo and apply of d1 for the first and the last route
  void compare_fresh(int k, const shared_ptr<BinNormalisation>& fresh, const std::string& what)
  {
    Case& c = cases[k];
    if (!c.norm || c.routes.empty())
      return;
    const std::string where = c.kind + " [" + what + "]";
    ++g_checks;
    bool ok = false;
    try
      {
        ok = fresh->set_up(g.exam, g.pdi) == Succeeded::yes;
      }
    catch (...)
      {}
    if (!ok)
      {
        oracle_fail("history: set_up of the fresh reference object failed: " + where);
        return;
      }
    auto same_bits = [](float a, float b) { return std::memcmp(&a, &b, sizeof(float)) == 0; };
    // a difference between the two objects (for a class of histories with a known finding: KNOWN-CANDIDATE)
    auto differs = [&](const std::string& text) {
      if (!c.known_key.empty())
        known_candidate(c.known_key, c.known_text);
      else
        oracle_fail(text);
    };
    auto triv_of = [](const BinNormalisation& n) {
      try
        {
          return n.is_trivial() ? 1 : 0;
        }
      catch (...)
        {
          return -1;
        }
    };
    ++g_checks;
    if (triv_of(*c.norm) != triv_of(*fresh))
      oracle_fail("history: is_trivial() of the object set up again is " + std::to_string(triv_of(*c.norm)) + ", of a fresh object configured identically "
                  + std::to_string(triv_of(*fresh)) + ": " + where);
    {
      int bad = -1;
      float v1 = 0, v2 = 0;
      std::size_t i = 0;
      for (const Row& r : g.rows)
        for (int t = g.tmin; t <= g.tmax; ++t, ++i)
          {
            Bin b(r.seg, r.view, r.ax, t, r.tof);
            float e1 = 0, e2 = 0;
            bool r1 = true, r2 = true;
            try
              {
                e1 = c.norm->get_bin_efficiency(b);
              }
            catch (...)
              {
                r1 = false;
              }
            try
              {
                e2 = fresh->get_bin_efficiency(b);
              }
            catch (...)
              {
                r2 = false;
              }
            if (r1 != r2 || (r1 && !same_bits(e1, e2)))
              {
                bad = static_cast<int>(i);
                v1 = e1;
                v2 = e2;
              }
          }
      ++g_checks;
      if (bad >= 0)
        differs("history: get_bin_efficiency of the object set up again (" + fmt(v1) + ") differs from that of a fresh object configured identically ("
                    + fmt(v2) + ") at " + bin_name(g, bad) + ": " + where);
    }
    for (int which = 0; which < 2; ++which)
      {
        const Route& r = which == 0 ? c.routes.front() : c.routes.back();
        if (which == 1 && c.routes.size() == 1)
          break;
        for (int do_apply = 0; do_apply < 2; ++do_apply)
          {
            PD w1(g.exam, g.pdi), w2(g.exam, g.pdi);
            fill_from(g, w1, d1);
            fill_from(g, w2, d1);
            ++g_checks;
            if (!(run_route(*c.norm, r, g, w1, do_apply != 0) && run_route(*fresh, r, g, w2, do_apply != 0)))
              {
                oracle_fail(std::string("history: ") + (do_apply ? "apply" : "undo") + " threw (route " + r.name + "): " + where);
                continue;
              }
            const std::vector<float> a = flatten(g, w1), b = flatten(g, w2);
            int bad = -1;
            for (std::size_t i = 0; i < a.size(); ++i)
              if (!same_bits(a[i], b[i]))
                bad = static_cast<int>(i);
            if (bad >= 0)
              differs(std::string("history: ") + (do_apply ? "apply" : "undo") + " of the object set up again gives " + fmt(a[bad])
                          + ", a fresh object configured identically " + fmt(b[bad]) + " for d=" + vh::hex(d1[bad]) + " at " + bin_name(g, bad) + " route "
                          + r.name + ": " + where);
          }
      }
  }
};

// ================================================================== I: histories on ONE object
// Every class for which the API allows a change between two set_up calls.  After EVERY set_up: run_case (all oracles, all
// correspondence lines: the model is given the factors as they are NOW) and compare_fresh.

static int g_hist_counter = 0;

static void
copy_components(BinNormalisationPETFromComponents& to, BinNormalisationPETFromComponents& from, int which)
{
  if (which & 1)
    to.crystal_efficiencies() = from.crystal_efficiencies();
  if (which & 2)
    {
      Array<4, float>& a = to.geometric_factors();
      Array<4, float>& b = from.geometric_factors();
      std::copy(b.begin_all(), b.end_all(), a.begin_all());
    }
  if (which & 4)
    to.block_factors() = from.block_factors();
}

static void
hist_components(vh::Rng& rng, bool thorough)
{
  Runner R(rng, thorough);
  const int tpb = rng.coin() ? 4 : 2;
  const int N = tpb * 2 * rng.range(2, 3);
  const int apb = rng.range(1, 2);
  const int Rr = apb * rng.range(1, 2);
  const int maxtang = N / 2 - 1;
  const int ntA = std::max(3, std::min(maxtang, 2 * rng.range(1, 3) + 1));
  const int ntB = ntA + 2 <= maxtang ? ntA + 2 : ntA - 1; // another (possibly even) number of tangential positions
  shared_ptr<Scanner> sc = block_scanner(N, Rr, tpb, apb, -1);
  shared_ptr<ProjDataInfo> A = vh::make_pdi(sc, 1, Rr - 1, N / 2, ntA, false, 0);
  shared_ptr<ProjDataInfo> B = vh::make_pdi(sc, 1, Rr > 1 ? rng.range(0, Rr - 1) : 0, N / 2, ntB, false, 0);
  std::ostringstream d;
  d << "nonTOF N=" << N << " R=" << Rr << " span=1 views=" << N / 2 << " blocks=" << tpb << "x" << apb << " history=components";
  const std::string hid = "H" + std::to_string(g_hist_counter++);
  shared_ptr<BinNormalisationPETFromComponents> obj(new BinNormalisationPETFromComponents);
  int which = 7;
  R.set_geometry(sc, A, d.str() + " step=new");
  op("hist " + hid + " new", "ok");
  {
    // set_up without allocation is refused by error(); the model: CompObj.setUp of an object that was not allocated
    bool threw = false;
    try
      {
        obj->set_up(R.g.exam, A);
      }
    catch (...)
      {
        threw = true;
      }
    op("hist " + hid + " setup comp - - - - - 0x1p+0 0x1p+0 0x1p+0 0x1p+0 0x1p+0 0x1p+0", threw ? "err" : "ok");
    ++g_checks;
    if (!threw)
      oracle_fail("BinNormalisationPETFromComponents::set_up accepted an object that was never allocated");
  }
  obj->allocate(A, true, true, true);
  op("hist " + hid + " allocate", "ok");
  auto step = [&](const shared_ptr<ProjDataInfo>& pdi, const char* gname, int mode, int change, const std::string& what) {
    std::ostringstream descr;
    descr << d.str() << " step=" << what << " geometry=" << gname << " tang=" << pdi->get_num_tangential_poss()
          << " segments=" << pdi->get_num_segments();
    R.set_geometry(sc, pdi, descr.str());
    const int k = R.add_components(which, mode, obj, change, hid);
    R.run_case(k);
    shared_ptr<BinNormalisationPETFromComponents> fresh(new BinNormalisationPETFromComponents);
    fresh->allocate(pdi, which & 1, which & 2, which & 4);
    copy_components(*fresh, *obj, which);
    R.compare_fresh(k, fresh, what);
  };
  step(A, "A", 0, 7, "1:random-factors");
  step(A, "A", 0, 1, "2:efficiencies-changed-in-place");
  step(A, "A", 0, 2, "3:geometric-factors-changed-in-place");
  step(A, "A", 0, 4, "4:block-factors-changed-in-place");
  step(A, "A", 1, 7, "5:all-factors-set-to-1");
  step(A, "A", 0, 7, "6:random-factors-again");
  step(B, "B", 0, 0, "7:other-geometry-same-factors");
  step(B, "B", 1, 7, "8:all-factors-set-to-1");
  step(B, "B", 4, rng.coin() ? 1 : (rng.coin() ? 2 : 4), "9:one-element-changed");
  step(A, "A", 2, 7, "10:first-geometry-again-factors-near-1");
  if (thorough || rng.coin())
    step(A, "A", 4, 7, "11:one-element-of-each-array-changed");
  // allocate again with another set of components (invalidates everything)
  which = rng.coin() ? 1 : (rng.coin() ? 3 : 5);
  obj->allocate(A, which & 1, which & 2, which & 4);
  op("hist " + hid + " allocate", "ok");
  step(A, "A", 0, 7, "12:allocated-again-with-other-components");
  step(B, "B", 1, 7, "13:all-factors-set-to-1");
  step(B, "B", 0, 7, "14:random-factors");
}

static void
hist_from_proj_data(vh::Rng& rng, bool thorough)
{
  Runner R(rng, thorough);
  const int N = 4 * rng.range(2, 3);
  const int Rr = rng.range(2, 3);
  const int nt = std::max(2, std::min(N / 2 - 1, rng.range(2, 5)));
  shared_ptr<Scanner> sc = vh::make_scanner(N, Rr, 5);
  shared_ptr<ProjDataInfo> big = vh::make_pdi(sc, 1, Rr - 1, N / 2, nt, false, 0);
  shared_ptr<ProjDataInfo> small = vh::make_pdi(sc, 1, rng.range(0, Rr - 2), N / 2, nt, false, 0);
  shared_ptr<ProjDataInfo> tof = vh::make_pdi(sc, 1, Rr - 1, N / 2, nt, false, 1);
  std::ostringstream d;
  d << "N=" << N << " R=" << Rr << " span=1 views=" << N / 2 << " tang=" << nt << " history=FromProjData(nonTOF-factors,"
    << big->get_num_segments() << "-segments)";
  R.set_geometry(sc, big, d.str() + " step=new");
  shared_ptr<PD> factors = R.random_positive_pd(big, 0.25F, 4.F);
  shared_ptr<BinNormalisation> obj(new BinNormalisationFromProjData(factors));
  auto step = [&](const shared_ptr<ProjDataInfo>& pdi, bool change, const std::string& what) {
    std::ostringstream descr;
    descr << d.str() << " step=" << what << " data-segments=" << pdi->get_num_segments() << " data-tof=" << pdi->get_num_tof_poss();
    R.set_geometry(sc, pdi, descr.str());
    if (change)
      fill_gen(*factors, [&]() { return R.rnd(0.25F, 4.F); }); // the object holds this very ProjData
    const int k = R.add_from_proj_data(big, "history", factors, obj);
    R.run_case(k);
    shared_ptr<PD> copy(new PD(R.g.exam, big));
    {
      const std::vector<float> v = flatten_pd(*factors);
      std::size_t i = 0;
      fill_gen(*copy, [&]() { return v[i++]; });
    }
    R.compare_fresh(k, shared_ptr<BinNormalisation>(new BinNormalisationFromProjData(copy)), what);
  };
  step(big, false, "1:nonTOF-data");
  step(tof, false, "2:TOF-data");
  step(small, false, "3:nonTOF-data-with-fewer-segments");
  step(big, true, "4:factors-changed-in-place");
  step(tof, true, "5:factors-changed-in-place-TOF-data");
  step(big, false, "6:nonTOF-data-again");
}

static void
hist_atten(vh::Rng& rng, bool thorough)
{
  Runner R(rng, thorough);
  const int tpb = 2;
  const int N = tpb * 2 * rng.range(2, 4);
  const int Rr = rng.range(2, 3);
  const int maxtang = N / 2 - 1;
  const int ntA = std::max(3, std::min(maxtang, rng.range(3, 6)));
  const int ntB = ntA + 1 <= maxtang ? ntA + 1 : ntA - 1;
  shared_ptr<Scanner> sc = block_scanner(N, Rr, tpb, 1, -1);
  shared_ptr<ProjDataInfo> A = vh::make_pdi(sc, 1, Rr - 1, N / 2, ntA, false, 0);
  shared_ptr<ProjDataInfo> B = vh::make_pdi(sc, 1, Rr - 1, N / 2, ntB, false, 0);
  shared_ptr<ProjDataInfo> C = vh::make_pdi(sc, 1, rng.range(0, Rr - 2), N / 2, ntA, false, 0);
  for (int default_projector = 0; default_projector < 2; ++default_projector)
    {
      std::ostringstream d;
      d << "nonTOF N=" << N << " R=" << Rr << " span=1 views=" << N / 2 << " history=FromAttenuationImage("
        << (default_projector ? "default projector" : "matrix projector") << ")";
      R.set_geometry(sc, A, d.str() + " step=new");
      const bool nonsquare = rng.coin();
      Runner::AttenObj obj = R.make_atten(rng.range(0, 7), rng.coin() ? 0.8F : 1.25F, rng.range(6, 8), default_projector != 0,
                                          nonsquare ? 1.5F : 1.F, nonsquare ? 1.F : (rng.coin() ? 1.1F : 1.F));
      auto step = [&](const shared_ptr<ProjDataInfo>& pdi, const std::string& what) {
        std::ostringstream descr;
        descr << d.str() << " step=" << what << " tang=" << pdi->get_num_tangential_poss() << " segments=" << pdi->get_num_segments();
        R.set_geometry(sc, pdi, descr.str());
        const int k = R.add_atten_case(obj);
        R.run_case(k);
        Runner::AttenObj fresh = obj;
        Runner::construct_atten(fresh);
        R.compare_fresh(k, fresh.norm, what);
      };
      step(A, "1:first-geometry");
      step(B, "2:other-number-of-tangential-positions");
      step(C, "3:fewer-segments");
      step(A, "4:first-geometry-again");
    }
}

static void
hist_chain(vh::Rng& rng, bool thorough)
{
  Runner R(rng, thorough);
  const int tpb = 2;
  const int N = tpb * 2 * rng.range(2, 3);
  const int Rr = rng.range(2, 3);
  const int maxtang = N / 2 - 1;
  const int ntA = std::max(3, std::min(maxtang, 2 * rng.range(1, 2) + 1));
  const int ntB = ntA + 2 <= maxtang ? ntA + 2 : ntA - 1;
  shared_ptr<Scanner> sc = block_scanner(N, Rr, tpb, 1, -1);
  shared_ptr<ProjDataInfo> A = vh::make_pdi(sc, 1, Rr - 1, N / 2, ntA, false, 0);
  shared_ptr<ProjDataInfo> B = vh::make_pdi(sc, 1, Rr - 1, N / 2, ntB, false, 0);
  std::ostringstream d;
  d << "nonTOF N=" << N << " R=" << Rr << " span=1 views=" << N / 2 << " history=Chained(Chained(components,attenuation),calibrated-table)";
  R.set_geometry(sc, A, d.str() + " step=new");
  const int which = rng.coin() ? 7 : 3;
  shared_ptr<BinNormalisationPETFromComponents> comp(new BinNormalisationPETFromComponents);
  comp->allocate(A, which & 1, which & 2, which & 4);
  Runner::AttenObj att = R.make_atten(rng.range(0, 7), 0.8F, rng.range(5, 7), false, rng.coin() ? 1.5F : 1.F, 1.F);
  Radionuclide rn("verif", 511.F, R.rnd(0.1F, 1.F), 6584.04F, ImagingModality(ImagingModality::PT));
  shared_ptr<CalibTableNorm> cal(new CalibTableNorm(R.random_positive_pd(A, 0.2F, 5.F)));
  cal->set_calibration_factor(R.rnd(0.3F, 40.F));
  cal->set_radionuclide(rn);
  shared_ptr<BinNormalisation> inner(new ChainedBinNormalisation(comp, att.norm));
  shared_ptr<BinNormalisation> chain(new ChainedBinNormalisation(inner, cal));
  // the chain objects stay; their members are changed in place between two set_up calls of the OUTER chain only.
  // The members the oracles compare with (chain factor = product of the members' factors, each half of the chain = that member
  // alone, is_first/second_trivial) are FRESH objects configured identically, each set up and measured on its own.
  auto step = [&](const shared_ptr<ProjDataInfo>& pdi, int comp_mode, bool change_cal, const std::string& what) {
    std::ostringstream descr;
    descr << d.str() << " step=" << what << " tang=" << pdi->get_num_tangential_poss();
    R.set_geometry(sc, pdi, descr.str());
    // in-place changes of the members of the re-used chain
    R.add_components(which, comp_mode, comp, comp_mode < 0 ? 0 : 7); // (writes the arrays; the case itself is not run)
    if (change_cal)
      {
        cal->set_calibration_factor(R.rnd(0.3F, 40.F));
        if (rng.coin())
          {
            rn = Radionuclide("verif", 511.F, R.rnd(0.1F, 1.F), 6584.04F, ImagingModality(ImagingModality::PT));
            cal->set_radionuclide(rn);
          }
      }
    if (cal->table->get_proj_data_info_sptr()->get_num_tangential_poss() != pdi->get_num_tangential_poss())
      cal->table = R.random_positive_pd(pdi, 0.2F, 5.F); // the table of the verif subclass follows the data geometry
    else if (change_cal)
      fill_gen(*cal->table, [&]() { return R.rnd(0.2F, 5.F); });
    // fresh members, two sets: one measured member by member (cases), one for the bitwise comparison of the whole chain
    struct Fresh
    {
      shared_ptr<BinNormalisationPETFromComponents> comp;
      Runner::AttenObj att;
      shared_ptr<CalibTableNorm> cal;
      shared_ptr<BinNormalisation> inner, chain;
    };
    auto make_fresh = [&]() {
      Fresh f;
      f.comp.reset(new BinNormalisationPETFromComponents);
      f.comp->allocate(pdi, which & 1, which & 2, which & 4);
      copy_components(*f.comp, *comp, which);
      f.att = att;
      Runner::construct_atten(f.att);
      shared_ptr<PD> ftab(new PD(R.g.exam, pdi));
      const std::vector<float> v = flatten_pd(*cal->table);
      std::size_t i = 0;
      fill_gen(*ftab, [&]() { return v[i++]; });
      f.cal.reset(new CalibTableNorm(ftab));
      f.cal->set_calibration_factor(cal->get_calibration_factor());
      f.cal->set_radionuclide(rn);
      f.inner.reset(new ChainedBinNormalisation(f.comp, f.att.norm));
      f.chain.reset(new ChainedBinNormalisation(f.inner, f.cal));
      return f;
    };
    Fresh m = make_fresh();
    const int kc = R.add_components(which, -1, m.comp, 0);
    const int ka = R.add_atten_case(m.att);
    int kl;
    {
      Case c;
      c.kind = "calib";
      c.norm = m.cal;
      c.routes = R.generic_routes();
      kl = R.add(c);
      send_table("t" + R.cases[kl].id, *m.cal->table);
      op("norm " + R.cases[kl].id + " calib t" + R.cases[kl].id + " " + vh::hex(m.cal->get_calibration_factor()) + " "
             + vh::hex(m.cal->get_branching_ratio()),
         "ok");
    }
    const int ki = R.add_chain(kc, ka);
    R.cases[ki].norm = m.inner; // (add_chain made a chain of the same two objects)
    int ko;
    {
      Case c;
      c.kind = "chain(chain(components,attenuation),calib):history";
      c.norm = chain;
      c.members = { ki, kl };
      c.is_chain = true;
      c.is_components = true;
      c.has_small_eff = true;
      c.positive_inputs = R.cases[kc].positive_inputs;
      c.routes = R.generic_routes();
      ko = R.add(c);
      op("norm " + R.cases[ko].id + " chain " + R.cases[ki].id + " " + R.cases[kl].id, "ok");
    }
    for (int k : { kc, ka, kl, ki })
      R.run_case(k);
    // ONLY the outer chain of the re-used objects is set up (by run_case): its set_up must reach every member
    R.run_case(ko);
    R.compare_fresh(ko, make_fresh().chain, what);
  };
  step(A, 0, false, "1:random-factors");
  step(A, 0, true, "2:components-and-calibration-changed-in-place");
  step(A, 1, false, "3:components-set-to-1");
  step(B, -1, false, "4:other-geometry-same-factors");
  step(B, 0, true, "5:components-and-calibration-changed-in-place");
  step(A, 0, false, "6:first-geometry-again");
}

static void
hist_calib(vh::Rng& rng, bool thorough)
{
  Runner R(rng, thorough);
  const int N = 4 * rng.range(2, 3);
  const int Rr = rng.range(1, 2);
  const int ntA = std::max(2, std::min(N / 2 - 1, rng.range(2, 5)));
  const int ntB = ntA + 1 <= N / 2 - 1 ? ntA + 1 : ntA - 1;
  shared_ptr<Scanner> sc = vh::make_scanner(N, Rr, 5);
  shared_ptr<ProjDataInfo> A = vh::make_pdi(sc, 1, Rr - 1, N / 2, ntA, false, 0);
  shared_ptr<ProjDataInfo> T = vh::make_pdi(sc, 1, Rr - 1, N / 2, ntA, false, 1);
  shared_ptr<ProjDataInfo> B = vh::make_pdi(sc, 1, Rr - 1, N / 2, std::max(1, ntB), false, 0);
  std::ostringstream d;
  d << "N=" << N << " R=" << Rr << " span=1 views=" << N / 2 << " history=BinNormalisationWithCalibration(table)";
  const std::string hid = "C" + std::to_string(g_hist_counter++);
  R.set_geometry(sc, A, d.str() + " step=new");
  shared_ptr<CalibTableNorm> obj(new CalibTableNorm(R.random_positive_pd(A, 0.2F, 5.F)));
  op("hist " + hid + " newcalib", "ok");
  auto usable = [&]() {
    // do undo / apply get past the set-up check?
    PD dd(R.g.exam, R.g.pdi);
    dd.fill(1.F);
    shared_ptr<DataSymmetriesForViewSegmentNumbers> triv(new TrivialDataSymmetriesForBins(R.g.pdi));
    bool fine = true;
    try
      {
        RelatedViewgrams<float> rv = dd.get_related_viewgrams(ViewSegmentNumbers(0, 0), triv, false, 0);
        obj->undo(rv);
        obj->apply(rv);
      }
    catch (...)
      {
        fine = false;
      }
    op("hist " + hid + " usable", fine ? "ok" : "err");
    return fine;
  };
  auto set_cal = [&](float c) {
    obj->set_calibration_factor(c);
    op("hist " + hid + " setcal " + vh::hex(c), "ok");
  };
  Radionuclide rn;
  auto set_br = [&](float br) {
    rn = br > 0 ? Radionuclide("verif", 511.F, br, 6584.04F, ImagingModality(ImagingModality::PT))
                : Radionuclide(); // unknown branching ratio (-1): counts as 1
    obj->set_radionuclide(rn);
    op("hist " + hid + " setbr " + vh::hex(br), "ok");
  };
  auto step = [&](const shared_ptr<ProjDataInfo>& pdi, bool new_table, const std::string& what) {
    std::ostringstream descr;
    descr << d.str() << " step=" << what << " tang=" << pdi->get_num_tangential_poss() << " tof=" << pdi->get_num_tof_poss();
    R.set_geometry(sc, pdi, descr.str());
    if (obj->table->get_proj_data_info_sptr()->get_num_tangential_poss() != pdi->get_num_tangential_poss()
        || obj->table->get_proj_data_info_sptr()->get_num_tof_poss() != pdi->get_num_tof_poss())
      obj->table = R.random_positive_pd(pdi, 0.2F, 5.F);
    else if (new_table)
      fill_gen(*obj->table, [&]() { return R.rnd(0.2F, 5.F); });
    const int k = R.add_calib_hist(obj, hid);
    R.run_case(k);
    shared_ptr<PD> ftab(new PD(R.g.exam, pdi));
    {
      const std::vector<float> v = flatten_pd(*obj->table);
      std::size_t i = 0;
      fill_gen(*ftab, [&]() { return v[i++]; });
    }
    shared_ptr<CalibTableNorm> fresh(new CalibTableNorm(ftab));
    fresh->set_calibration_factor(obj->get_calibration_factor());
    fresh->set_radionuclide(rn);
    R.compare_fresh(k, fresh, what);
  };
  ++g_checks;
  if (usable())
    oracle_fail("a calibrated normalisation that was never set up was accepted by undo/apply");
  set_cal(R.rnd(0.3F, 40.F));
  set_br(R.rnd(0.1F, 1.F));
  step(A, false, "1:first-set_up");
  set_br(R.rnd(0.1F, 1.F));
  step(A, false, "2:radionuclide-changed");
  set_cal(R.rnd(0.3F, 40.F));
  ++g_checks;
  if (usable())
    oracle_fail("set_calibration_factor must invalidate the set-up state, but undo/apply were accepted without a new set_up");
  step(A, false, "3:calibration-factor-changed");
  step(A, true, "4:table-changed-in-place");
  set_cal(R.rnd(0.3F, 40.F));
  set_br(0.9686F);
  step(T, true, "5:TOF-data-everything-changed");
  set_br(-1.F);
  step(B, false, "6:other-geometry-unknown-branching-ratio");
  set_br(R.rnd(0.1F, 1.F));
  set_cal(R.rnd(0.3F, 40.F));
  step(A, true, "7:first-geometry-again-everything-changed");
}

// set_up of BinNormalisationFromProjData: decision for compatible / incompatible factor geometries
static void
fpd_setup_case(Runner& R, const shared_ptr<ProjDataInfo>& factors_pdi, bool expect_known, bool expected)
{
  shared_ptr<PD> f(new PD(R.g.exam, factors_pdi));
  f->fill(1.F);
  BinNormalisationFromProjData n(f);
  bool ok = false;
  try
    {
      ok = n.set_up(R.g.exam, R.g.pdi) == Succeeded::yes;
    }
  catch (...)
    {
      ok = false;
    }
  // the ProjDataInfo comparisons are data for the model (they are C01/C02's business); which geometry set_up compares the
  // factors with (the data geometry or its non-TOF clone) is the model's decision
  op("setup fpdtof " + fpd_setup_flags(*factors_pdi, *R.g.pdi), ok ? "ok" : "fail");
  ++g_checks;
  if (expect_known && ok != expected)
    oracle_fail(std::string("BinNormalisationFromProjData::set_up ") + (ok ? "accepted" : "rejected") + " a factor geometry that must be "
                + (expected ? "accepted" : "rejected") + ": factors with TOF mashing factor " + std::to_string(factors_pdi->get_tof_mash_factor())
                + " (" + std::to_string(factors_pdi->get_num_tof_poss()) + " TOF positions), " + std::to_string(factors_pdi->get_num_segments())
                + " segments, " + std::to_string(factors_pdi->get_num_tangential_poss()) + " tangential positions");
}


// If a class that refuses a kind of data today (error() in set_up) ever accepts it, the property's statement must hold for
// it there: undo multiplies every bin by one factor (the same for every TOF position: the factors are not TOF), equal to
// the reported efficiency where one is reported, and apply inverts it.
static void
accepted_must_satisfy_property(Runner& R, const BinNormalisation& n, const shared_ptr<DataSymmetriesForViewSegmentNumbers>& sym,
                               const std::string& what)
{
  const Geom& g = R.g;
  Route route{ "rv", false, sym };
  PD work(g.exam, g.pdi);
  std::vector<float> U, AU;
  fill_from(g, work, R.d2);
  bool fine = run_route(n, route, g, work, false);
  U = flatten(g, work);
  fine = fine && run_route(n, route, g, work, true);
  AU = flatten(g, work);
  ++g_checks;
  if (!fine)
    {
      oracle_fail(what + ": set_up succeeded but apply/undo threw");
      return;
    }
  int bad = -1;
  std::map<std::vector<int>, double> factor_at_tof0;
  for (std::size_t i = 0; i < g.nbins(); ++i)
    {
      if (R.d2[i] == 0.F)
        continue;
      const Row& r = g.rows[i / g.nt];
      const int tang = g.tmin + static_cast<int>(i % g.nt);
      const double f = static_cast<double>(U[i]) / R.d2[i];
      if (f >= 1.e-20 && !close_rel(AU[i], R.d2[i], 1e-5))
        bad = static_cast<int>(i);
      try
        {
          Bin b(r.seg, r.view, r.ax, tang, r.tof);
          if (!close_rel(n.get_bin_efficiency(b), f, 1e-5))
            bad = static_cast<int>(i);
        }
      catch (...)
        {}
      const std::vector<int> key{ r.seg, r.view, r.ax, tang };
      auto it = factor_at_tof0.find(key);
      if (it == factor_at_tof0.end())
        factor_at_tof0[key] = f;
      else if (!close_rel(it->second, f, 1e-5))
        bad = static_cast<int>(i);
    }
  if (bad >= 0)
    oracle_fail(what + ": set_up succeeded but undo/apply/get_bin_efficiency do not agree on one factor per bin (the same for all TOF "
                + "positions) at " + bin_name(g, bad));
}

// set_up decisions that are refusals by error(): the attenuation class on TOF data
static void
atten_setup_case(Runner& R)
{
  shared_ptr<VoxelsOnCartesianGrid<float>> mu = vh::make_image(*R.g.pdi, 1.F, 5, -1);
  for (auto it = mu->begin_all(); it != mu->end_all(); ++it)
    *it = R.rnd(0.02F, 0.3F);
  shared_ptr<const DiscretisedDensity<3, float>> mu_c(mu);
  BinNormalisationFromAttenuationImage n(mu_c);
  bool ok = false;
  try
    {
      ok = n.set_up(R.g.exam, R.g.pdi) == Succeeded::yes;
    }
  catch (...)
    {
      ok = false;
    }
  // (number of TOF positions, TOF mashing factor: which of the two set_up looks at is the model's business)
  op("setup atten " + std::to_string(R.g.pdi->get_num_tof_poss()) + " " + std::to_string(R.g.pdi->get_tof_mash_factor()), ok ? "ok" : "err");
  if (ok && R.g.pdi->get_num_tof_poss() > 1)
    accepted_must_satisfy_property(
        R, n, shared_ptr<DataSymmetriesForViewSegmentNumbers>(new DataSymmetriesForBins_PET_CartesianGrid(R.g.pdi, mu)),
        "BinNormalisationFromAttenuationImage on TOF data");
  if (ok && R.g.pdi->is_tof_data() && R.g.pdi->get_num_tof_poss() == 1)
    {
      // TOF data with ONE TOF bin pass the test `get_num_tof_poss() > 1` of set_up.  Accepted data must satisfy the property: the
      // factors are the exponentials of the line integrals, i.e. those the same object gives for the same data without TOF.
      static const char* const key = "atten:tof-data-with-one-tof-bin:accepted-by-set_up-but-factors-are-not-exp-of-line-integrals";
      static const char* const text
          = "BinNormalisationFromAttenuationImage::set_up refuses TOF data by testing get_num_tof_poss() > 1, so TOF data mashed to ONE TOF "
            "bin (is_tof_data() true, e.g. 5 TOF bins mashed by 5) are accepted; apply/undo then forward project with the TOF kernel of "
            "that bin (matrix projector: log ACF 0.129 instead of 0.152 for a 7x7 image of 0.1 cm^-1, 16 detectors) or, with the default "
            "projector ForwardProjectorByBinUsingRayTracing, call error('error in symmetries') or read outside the image (SIGSEGV), "
            "instead of giving the factors of the non-TOF geometry";
      shared_ptr<ProjDataInfo> nontof(R.g.pdi->create_non_tof_clone());
      // (only with a matrix projector: with the class's default projector, ForwardProjectorByBinUsingRayTracing, the same call
      //  ends in error("error in symmetries") or in a read outside the image in proj_Siddon - SIGSEGV, 12 detectors, 3 rings -
      //  which cannot be run inside this process)
      for (int with_matrix = 1; with_matrix < 2; ++with_matrix)
        {
          ++g_checks;
          bool fine = true;
          std::vector<float> got, ref;
          try
            {
              const int f = R.rng.range(0, 7);
              shared_ptr<ForwardProjectorByBin> fwd1, fwd2;
              if (with_matrix)
                {
                  fwd1.reset(new ForwardProjectorByBinUsingProjMatrixByBin(Runner::make_matrix(f, true, true)));
                  fwd2.reset(new ForwardProjectorByBinUsingProjMatrixByBin(Runner::make_matrix(f, true, true)));
                }
              BinNormalisationFromAttenuationImage a(mu_c, fwd1), b(mu_c, fwd2);
              if (a.set_up(R.g.exam, R.g.pdi) != Succeeded::yes || b.set_up(R.g.exam, nontof) != Succeeded::yes)
                throw std::runtime_error("set_up");
              shared_ptr<DataSymmetriesForViewSegmentNumbers> s1, s2;
              if (with_matrix)
                {
                  s1.reset(fwd1->get_symmetries_used()->clone());
                  s2.reset(fwd2->get_symmetries_used()->clone());
                }
              else
                {
                  s1.reset(new DataSymmetriesForBins_PET_CartesianGrid(R.g.pdi, mu));
                  s2.reset(new DataSymmetriesForBins_PET_CartesianGrid(nontof, mu));
                }
              PD d1(R.g.exam, R.g.pdi), d2(R.g.exam, nontof);
              d1.fill(1.F);
              d2.fill(1.F);
              a.apply(d1, s1);
              b.apply(d2, s2);
              got = flatten_pd(d1);
              ref = flatten_pd(d2);
            }
          catch (...)
            {
              fine = false;
            }
          for (std::size_t i = 0; fine && i < got.size(); ++i)
            fine = close_rel(got[i], ref[i], 2e-4);
          if (!fine)
            known_candidate(key, text);
        }
    }
}

// ... and the components class on TOF data, data with view mashing, data with axial compression
static void
comp_setup_case(Runner& R)
{
  BinNormalisationPETFromComponents n;
  n.allocate(R.g.pdi, true, false, false);
  {
    DetectorEfficiencies& e = n.crystal_efficiencies();
    for (int r = e.get_min_index(); r <= e.get_max_index(); ++r)
      for (int d = e[r].get_min_index(); d <= e[r].get_max_index(); ++d)
        e[r][d] = R.rnd(0.5F, 2.F);
  }
  bool ok = false;
  try
    {
      ok = n.set_up(R.g.exam, R.g.pdi) == Succeeded::yes;
    }
  catch (...)
    {
      ok = false;
    }
  auto pc = dynamic_cast<const ProjDataInfoCylindrical*>(R.g.pdi.get());
  const bool tof = R.g.pdi->is_tof_data(), mash = pc->get_view_mashing_factor() > 1, span = pc->get_max_ring_difference(0) > 0;
  std::ostringstream o;
  o << "setup comp " << (tof ? 1 : 0) << " " << (mash ? 1 : 0) << " " << (span ? 1 : 0);
  op(o.str(), ok ? "ok" : "err");
  if (ok && (tof || mash || span))
    accepted_must_satisfy_property(R, n,
                                   shared_ptr<DataSymmetriesForViewSegmentNumbers>(new TrivialDataSymmetriesForBins(R.g.pdi)),
                                   "BinNormalisationPETFromComponents on TOF / view-mashed / axially compressed data");
}

// ---------------------------------------------------------------- the set-up state is checked on use, for every class
// `use2 rv <expr>` / `use2 whole <examEq> <expr>` with <expr> = N | T su ge | B su ge | C su ge <expr> <expr>
struct UseObj
{
  shared_ptr<BinNormalisation> norm;
  std::string expr; // filled by the caller for the data geometry at hand
};

static std::vector<float>
flatten_any(PD& d)
{
  std::vector<float> v;
  const ProjDataInfo& p = *d.get_proj_data_info_sptr();
  for (const Row& r : rows_of(p))
    for (int t = p.get_min_tangential_pos_num(); t <= p.get_max_tangential_pos_num(); ++t)
      {
        Bin b(r.seg, r.view, r.ax, t, r.tof);
        v.push_back(d.get_bin_value(b));
      }
  return v;
}

// returns 1 accepted, 0 refused, -1 undo and apply disagree about it; values of undo then of apply appended to `vals`
static int
try_use(const BinNormalisation& n, const shared_ptr<ProjDataInfo>& data_pdi, const shared_ptr<ExamInfo>& data_exam, bool whole,
        std::vector<float>& vals)
{
  int accepted[2] = { 0, 0 };
  vals.clear();
  for (int do_apply = 0; do_apply < 2; ++do_apply)
    {
      PD dd(data_exam, data_pdi);
      int cnt = 0;
      fill_gen(dd, [&]() { return 1.F + 0.25F * (cnt++ % 5); });
      try
        {
          if (whole)
            {
              if (do_apply)
                n.apply(dd);
              else
                n.undo(dd);
            }
          else
            {
              shared_ptr<DataSymmetriesForViewSegmentNumbers> triv(new TrivialDataSymmetriesForBins(data_pdi));
              for (int s = data_pdi->get_min_segment_num(); s <= data_pdi->get_max_segment_num(); ++s)
                for (int v = data_pdi->get_min_view_num(); v <= data_pdi->get_max_view_num(); ++v)
                  for (int k = data_pdi->get_min_tof_pos_num(); k <= data_pdi->get_max_tof_pos_num(); ++k)
                    {
                      RelatedViewgrams<float> rv = dd.get_related_viewgrams(ViewSegmentNumbers(v, s), triv, false, k);
                      if (do_apply)
                        n.apply(rv);
                      else
                        n.undo(rv);
                      dd.set_related_viewgrams(rv);
                    }
            }
          accepted[do_apply] = 1;
        }
      catch (...)
        {
          accepted[do_apply] = 0;
        }
      const std::vector<float> f = flatten_any(dd);
      vals.insert(vals.end(), f.begin(), f.end());
    }
  return accepted[0] == accepted[1] ? accepted[0] : -1;
}

// ================================================================== J: attenuation images with non-square in-plane voxels
// A map that is `mu` (cm^-1) inside a box of whole voxels (or a cylinder), in every plane, and 0 outside.  The expectation
// does not come from any projector: the two end points of the LOR of the bin (ProjDataInfo::get_LOR, property C01) are
// clipped against the box / the circle in mm, ACF = exp(mu/10 * length inside * (3D length / 2D length)).
// Voxel sizes (x,y) = (a,b) and (b,a), a/b = 1.5 or 1.1, z different from both; the image has one plane more on each side than
// the scanner has (the tube of response of the end rings is then inside the image).
// Routes: constructor from an image object, constructor from a file name, parsing; each with a (matrix) projector given and
// with none (the class then makes a ForwardProjectorByBinUsingRayTracing).

static std::string g_scratch; // prefix for files written by the harness

static double
chord_rect(double px, double py, double qx, double qy, double x0, double x1, double y0, double y1)
{
  const double dx = qx - px, dy = qy - py;
  double tmin = 0, tmax = 1;
  auto slab = [&](double p, double d, double lo, double hi) {
    if (d == 0)
      {
        if (p < lo || p > hi)
          {
            tmin = 1;
            tmax = 0;
          }
        return;
      }
    double a = (lo - p) / d, b = (hi - p) / d;
    if (a > b)
      std::swap(a, b);
    tmin = std::max(tmin, a);
    tmax = std::min(tmax, b);
  };
  slab(px, dx, x0, x1);
  slab(py, dy, y0, y1);
  return tmax > tmin ? (tmax - tmin) * std::sqrt(dx * dx + dy * dy) : 0.;
}

static void
atten_analytic(vh::Rng& rng, bool thorough, int round)
{
  Runner R(rng, thorough);
  const int N = 8 * rng.range(4, thorough ? 8 : 6); // 32..64
  const int Rr = rng.range(2, 3);
  const int nt = std::min(N / 2 - 1, rng.range(9, 16));
  shared_ptr<Scanner> sc = vh::make_scanner(N, Rr, -1);
  shared_ptr<ProjDataInfo> pdi = vh::make_pdi(sc, 1, Rr - 1, N / 2, nt, false, 0);
  const float ratio = (round % 2 == 0) ? 1.5F : 1.1F;
  const float zoom = rng.coin() ? 0.8F : (rng.coin() ? 1.25F : 0.64F);
  const int nxy = 2 * rng.range(12, 20) + 1;
  for (int orient = 0; orient < 2; ++orient)
    {
      const float sx = orient == 0 ? ratio : 1.F, sy = orient == 0 ? 1.F : ratio;
      shared_ptr<VoxelsOnCartesianGrid<float>> mu = vh::make_image(*pdi, zoom, nxy, 2 * Rr + 1);
      CartesianCoordinate3D<float> vs = mu->get_voxel_size();
      vs.x() *= sx;
      vs.y() *= sy;
      mu->set_voxel_size(vs);
      std::ostringstream d;
      d << "nonTOF N=" << N << " R=" << Rr << " span=1 views=" << N / 2 << " tang=" << nt << " analytic-attenuation voxel(x,y,z)=(" << vs.x() << ","
        << vs.y() << "," << vs.z() << ") image=" << nxy << "x" << nxy << "x" << 2 * Rr + 1;
      R.set_geometry(sc, pdi, d.str());
      const Geom& g = R.g;
      const int half = (nxy - 1) / 2;
      // field of view of the projectors: a circle of radius min(half*vx, half*vy) (ProjMatrixByBinUsingRayTracing.cxx:756)
      const double fov = std::min(half * vs.x(), half * vs.y()) - std::max(vs.x(), vs.y());
      // the LORs
      std::vector<std::array<float, 6>> lors(g.nbins());
      {
        std::size_t i = 0;
        for (const Row& r : g.rows)
          for (int t = g.tmin; t <= g.tmax; ++t, ++i)
            {
              Bin b(r.seg, r.view, r.ax, t, r.tof);
              LORInAxialAndNoArcCorrSinogramCoordinates<float> lor;
              pdi->get_LOR(lor, b);
              LORAs2Points<float> pts;
              lor.get_intersections_with_cylinder(pts, lor.radius());
              lors[i] = { pts.p1().x(), pts.p1().y(), pts.p1().z(), pts.p2().x(), pts.p2().y(), pts.p2().z() };
            }
      }
      for (int shape = 0; shape < 2; ++shape)
        {
          const float m = R.rnd(0.05F, 0.2F);
          // box: voxel index ranges (off centre), all corners inside the field of view
          int x0, x1, y0, y1;
          double cx = 0, cy = 0, rad = 0;
          if (shape == 0)
            {
              do
                {
                  x0 = rng.range(-half + 1, half - 2);
                  x1 = rng.range(x0 + 1, half - 1);
                  y0 = rng.range(-half + 1, half - 2);
                  y1 = rng.range(y0 + 1, half - 1);
              } while (std::max(std::hypot((x0 - .5) * vs.x(), (y0 - .5) * vs.y()), std::hypot((x1 + .5) * vs.x(), (y1 + .5) * vs.y())) >= fov
                       || std::max(std::hypot((x0 - .5) * vs.x(), (y1 + .5) * vs.y()), std::hypot((x1 + .5) * vs.x(), (y0 - .5) * vs.y())) >= fov
                       || (x1 - x0) * (y1 - y0) < 12);
            }
          else
            {
              rad = fov * R.rnd(0.55F, 0.75F);
              const double room = fov - rad;
              cx = room * R.rnd(-0.6F, 0.6F);
              cy = room * R.rnd(-0.6F, 0.6F);
              x0 = x1 = y0 = y1 = 0;
            }
          mu->fill(0.F);
          for (int z = mu->get_min_index(); z <= mu->get_max_index(); ++z)
            for (int y = (*mu)[z].get_min_index(); y <= (*mu)[z].get_max_index(); ++y)
              for (int x = (*mu)[z][y].get_min_index(); x <= (*mu)[z][y].get_max_index(); ++x)
                if (shape == 0 ? (x >= x0 && x <= x1 && y >= y0 && y <= y1) : (std::hypot(x * vs.x() - cx, y * vs.y() - cy) <= rad))
                  (*mu)[z][y][x] = m;
          const double bx0 = (x0 - .5) * vs.x(), bx1 = (x1 + .5) * vs.x(), by0 = (y0 - .5) * vs.y(), by1 = (y1 + .5) * vs.y();
          // expected log(ACF) per bin.  Box: mu x (length of the LOR inside the box).  Cylinder: the image is a set of whole voxels,
          // so the line integral is exactly the sum over its voxels of mu x (length of the LOR inside that voxel's rectangle),
          // each computed on its own by clipping (no ray tracing, no stepping from voxel to voxel); in addition the smooth
          // circle's chord 2 sqrt(R^2 - d^2) is compared loosely for LORs well inside (d <= 0.6 R).
          std::vector<double> expected(g.nbins()), smooth(g.nbins(), -1.);
          std::vector<std::pair<int, int>> inside;
          if (shape == 1)
            {
              const int z = mu->get_min_index();
              for (int y = (*mu)[z].get_min_index(); y <= (*mu)[z].get_max_index(); ++y)
                for (int x = (*mu)[z][y].get_min_index(); x <= (*mu)[z][y].get_max_index(); ++x)
                  if ((*mu)[z][y][x] != 0.F)
                    inside.push_back(std::make_pair(x, y));
            }
          for (std::size_t i = 0; i < g.nbins(); ++i)
            {
              const auto& l = lors[i];
              const double l2 = std::hypot(l[3] - l[0], l[4] - l[1]), l3 = std::sqrt(l2 * l2 + (l[5] - l[2]) * (l[5] - l[2]));
              double c2 = 0;
              if (shape == 0)
                c2 = chord_rect(l[0], l[1], l[3], l[4], bx0, bx1, by0, by1);
              else
                {
                  for (const auto& v : inside)
                    c2 += chord_rect(l[0], l[1], l[3], l[4], (v.first - .5) * vs.x(), (v.first + .5) * vs.x(), (v.second - .5) * vs.y(),
                                     (v.second + .5) * vs.y());
                  const double ux = (l[3] - l[0]) / l2, uy = (l[4] - l[1]) / l2;
                  const double dist = std::fabs((cx - l[0]) * uy - (cy - l[1]) * ux);
                  if (dist <= 0.6 * rad)
                    smooth[i] = m / 10. * 2 * std::sqrt(rad * rad - dist * dist) * l3 / l2;
                }
              expected[i] = m / 10. * c2 * l3 / l2;
            }
          const std::string file = g_scratch + "_atten" + std::to_string(round) + "_" + std::to_string(orient) + "_" + std::to_string(shape);
          bool written = false;
          // routes: 0/1 image object with/without projector; 2/3 file name with/without; 4/5 parsed with/without
          for (int route = 0; route < (shape == 0 ? 6 : 2); ++route)
            {
              const bool with_fwd = route % 2 == 0;
              const int f = rng.range(0, 7);
              shared_ptr<ForwardProjectorByBin> fwd;
              if (with_fwd)
                fwd.reset(new ForwardProjectorByBinUsingProjMatrixByBin(Runner::make_matrix(f, rng.coin(), rng.coin())));
              shared_ptr<BinNormalisation> n;
              std::string rname;
              ++g_checks;
              try
                {
                  if (route >= 2 && !written)
                    {
                      write_to_file(file, *mu);
                      written = true;
                    }
                  if (route < 2)
                    {
                      shared_ptr<const DiscretisedDensity<3, float>> mu_c(mu);
                      n.reset(with_fwd ? new BinNormalisationFromAttenuationImage(mu_c, fwd) : new BinNormalisationFromAttenuationImage(mu_c));
                      rname = "constructor(image object";
                    }
                  else if (route < 4)
                    {
                      n.reset(with_fwd ? new BinNormalisationFromAttenuationImage(file + ".hv", fwd)
                                       : new BinNormalisationFromAttenuationImage(file + ".hv"));
                      rname = "constructor(file name";
                    }
                  else
                    {
                      std::ostringstream par;
                      par << "Bin Normalisation From Attenuation Image:=\n"
                          << "attenuation_image_filename := " << file << ".hv\n";
                      if (with_fwd)
                        par << "forward projector type := Matrix\n"
                            << " Forward Projector Using Matrix Parameters :=\n"
                            << "  Matrix type := Ray Tracing\n"
                            << "   Ray Tracing Matrix Parameters :=\n"
                            << "    do_symmetry_90degrees_min_phi := " << ((f & 1) ? 1 : 0) << "\n"
                            << "    do_symmetry_180degrees_min_phi := " << ((f & 2) ? 1 : 0) << "\n"
                            << "    do_symmetry_swap_segment := " << ((f & 4) ? 1 : 0) << "\n"
                            << "   End Ray Tracing Matrix Parameters :=\n"
                            << " End Forward Projector Using Matrix Parameters :=\n";
                      par << "End Bin Normalisation From Attenuation Image :=\n";
                      shared_ptr<BinNormalisationFromAttenuationImage> pn(new BinNormalisationFromAttenuationImage);
                      std::istringstream is(par.str());
                      if (!pn->parse(is))
                        throw std::runtime_error("parse");
                      n = pn;
                      rname = "parsed(text parameters";
                    }
                  rname += with_fwd ? ", matrix projector)" : ", no projector given)";
                  if (n->set_up(g.exam, g.pdi) != Succeeded::yes)
                    throw std::runtime_error("set_up");
                }
              catch (...)
                {
                  oracle_fail("attenuation normalisation could not be constructed / set up: " + rname + (shape ? " cylinder" : " box"));
                  continue;
                }
              // symmetries: those of the projector in use (for the class's own default projector: the PET symmetries of the image)
              shared_ptr<DataSymmetriesForViewSegmentNumbers> sym;
              if (route == 0)
                sym.reset(fwd->get_symmetries_used()->clone());
              else if (!with_fwd)
                sym.reset(new DataSymmetriesForBins_PET_CartesianGrid(g.pdi, mu));
              else
                {
                  // a projector given through the file-name constructor / made by the parser: same settings as `fwd` (route 2) or the
                  // parsed flags; build the same symmetries from a matrix object of our own
                  shared_ptr<ProjMatrixByBinUsingRayTracing> pm = Runner::make_matrix(f, true, true);
                  if (route == 2)
                    sym.reset(fwd->get_symmetries_used()->clone());
                  else
                    {
                      pm->set_up(g.pdi, mu);
                      sym.reset(pm->get_symmetries_ptr()->clone());
                    }
                }
              PD acf(g.exam, g.pdi), back(g.exam, g.pdi);
              acf.fill(1.F);
              Route whole{ "whole:projector", true, sym };
              ++g_checks;
              if (!run_route(*n, whole, g, acf, true))
                {
                  oracle_fail("apply threw: attenuation " + rname);
                  continue;
                }
              const std::vector<float> A = flatten(g, acf);
              fill_from(g, back, A);
              const bool undone = run_route(*n, whole, g, back, false);
              const std::vector<float> U = flatten(g, back);
              int bad = -1, bad_undo = -1, bad_smooth = -1;
              double worst = 0;
              // float arithmetic of the ray tracing only (observed <= 2e-5)
              const double tol_rel = 2e-4, tol_abs = 2e-5;
              for (std::size_t i = 0; i < g.nbins(); ++i)
                {
                  if (!undone || !close_rel(U[i], 1., 1e-5))
                    bad_undo = static_cast<int>(i);
                  const double got = std::log(static_cast<double>(A[i]));
                  const double dev = std::fabs(got - expected[i]);
                  if (!(dev <= tol_abs + tol_rel * expected[i]) && (bad < 0 || dev > worst))
                    {
                      bad = static_cast<int>(i);
                      worst = dev;
                    }
                  // the smooth cylinder: within 20 % (discretisation of a circle of 5-14 voxels radius)
                  if (smooth[i] >= 0 && !(std::fabs(got - smooth[i]) <= 0.2 * smooth[i]))
                    bad_smooth = static_cast<int>(i);
                }
              ++g_checks;
              if (bad >= 0)
                {
                  std::ostringstream t;
                  t << "attenuation correction factor is not exp(line integral of mu in cm^-1 along the LOR): uniform " << (shape ? "cylinder" : "box")
                    << " mu=" << m << " cm^-1, " << rname << ", " << bin_name(g, bad) << ": log(ACF)=" << std::log(static_cast<double>(A[bad]))
                    << " but mu x length inside = " << expected[bad];
                  oracle_fail(t.str());
                }
              if (shape == 1)
                {
                  ++g_checks;
                  if (bad_smooth >= 0)
                    {
                      std::ostringstream t;
                      t << "attenuation correction factor of a uniform cylinder is not within 20 % of exp(mu x 2 sqrt(R^2 - d^2)): mu=" << m << " cm^-1, "
                        << rname << ", " << bin_name(g, bad_smooth) << ": log(ACF)=" << std::log(static_cast<double>(A[bad_smooth]))
                        << " expected " << smooth[bad_smooth];
                      oracle_fail(t.str());
                    }
                }
              ++g_checks;
              if (bad_undo >= 0)
                oracle_fail("undo(apply(1)) != 1 for the attenuation normalisation: " + rname + " " + bin_name(g, bad_undo));
              // correspondence with the model (acfBox, no rows): a sample of the bins of the box cases
              if (shape == 0)
                {
                  const int stride = thorough ? 3 : 7;
                  const std::size_t start = static_cast<std::size_t>(rng.range(0, stride - 1));
                  for (std::size_t i = start; i < g.nbins(); i += stride)
                    {
                      const auto& l = lors[i];
                      std::ostringstream o;
                      o << "acf " << vh::hex(m) << " " << vh::hex(bx0) << " " << vh::hex(bx1) << " " << vh::hex(by0) << " " << vh::hex(by1);
                      for (float v : l)
                        o << " " << vh::hex(v);
                      op(o.str(), fmt(A[i]));
                    }
                }
            }
          if (written)
            {
              std::remove((file + ".hv").c_str());
              std::remove((file + ".v").c_str());
              std::remove((file + ".ahv").c_str());
            }
        }
    }
}

// ================================================================== K: one object through constructors, parse() and set_up
// ParsingObject::parse does not call set_defaults: whatever the object held before stays unless a key of the text or
// post_processing replaces it.  For every normalisation class with parsing keys that needs no scanner files:
//   (constructor | parse text A) -> set_up -> use -> parse text B -> set_up -> use ...
// Every key that text A gives is also given by text B (with another value), so that the two texts describe complete
// configurations.  After EVERY set_up: run_case (all oracles - the expectation comes from the data the harness wrote into the
// files, not from the object - and all correspondence lines: the model follows the object as the state machine FpdObj / AttenObj /
// ChainObj) and compare_fresh with an object parsed ONCE with the same text.

static int g_file_counter = 0;
static std::vector<std::string> g_files_to_remove;

struct FactorFile
{
  shared_ptr<PD> mem;            // what the harness wrote
  shared_ptr<ProjDataInfo> pdi;  // its geometry
  std::string name;              // header file name (empty: in memory only)
};

static FactorFile
make_factor_file(Runner& R, const shared_ptr<ProjDataInfo>& pdi, bool on_disk)
{
  FactorFile f;
  f.mem = R.random_positive_pd(pdi, 0.25F, 4.F);
  f.pdi = pdi;
  if (on_disk)
    {
      const std::string base = g_scratch + "_factors" + std::to_string(g_file_counter++);
      f.mem->write_to_file(base);
      f.name = base + ".hs";
      g_files_to_remove.push_back(base + ".hs");
      g_files_to_remove.push_back(base + ".s");
    }
  return f;
}

static std::string
fpd_text(const FactorFile& f)
{
  return "Bin Normalisation From ProjData:=\n normalisation_projdata_filename := " + f.name + "\nEnd Bin Normalisation From ProjData:=\n";
}

template <class T>
static bool
parse_text(T& obj, const std::string& text)
{
  std::istringstream is(text);
  try
    {
      return obj.parse(is);
    }
  catch (...)
    {
      return false;
    }
}

// do undo / apply on related viewgrams of the geometry at hand get past the checks?
static bool
usable_now(Runner& R, const BinNormalisation& n)
{
  PD dd(R.g.exam, R.g.pdi);
  dd.fill(1.F);
  shared_ptr<DataSymmetriesForViewSegmentNumbers> triv(new TrivialDataSymmetriesForBins(R.g.pdi));
  try
    {
      RelatedViewgrams<float> rv = dd.get_related_viewgrams(ViewSegmentNumbers(0, 0), triv, false, 0);
      n.undo(rv);
      n.apply(rv);
    }
  catch (...)
    {
      return false;
    }
  return true;
}

static void
hist_parse_fpd(vh::Rng& rng, bool thorough)
{
  Runner R(rng, thorough);
  const int N = 4 * rng.range(2, 3);
  const int Rr = rng.range(2, 3);
  const int nt = std::max(2, std::min(N / 2 - 1, rng.range(2, 5)));
  const int max_tof = rng.coin() ? 5 : 9;
  const int mash = rng.coin() ? max_tof : (max_tof == 9 && rng.coin() ? 3 : 1);
  shared_ptr<Scanner> sc = vh::make_scanner(N, Rr, max_tof);
  shared_ptr<ProjDataInfo> nontof = vh::make_pdi(sc, 1, Rr - 1, N / 2, nt, false, 0);
  shared_ptr<ProjDataInfo> fewer = vh::make_pdi(sc, 1, rng.range(0, Rr - 2), N / 2, nt, false, 0);
  shared_ptr<ProjDataInfo> tofd = vh::make_pdi(sc, 1, Rr - 1, N / 2, nt, false, mash);
  std::ostringstream d;
  d << "N=" << N << " R=" << Rr << " span=1 views=" << N / 2 << " tang=" << nt << " TOF-geometry=" << tofd->get_num_tof_poss()
    << "-positions(mashing " << mash << " of " << max_tof << ") history=FromProjData(constructors,parse,set_up)";
  R.set_geometry(sc, nontof, d.str() + " step=files");
  const FactorFile A = make_factor_file(R, nontof, true), B = make_factor_file(R, nontof, true), C = make_factor_file(R, tofd, true),
                   M = make_factor_file(R, nontof, false);
  struct Obj
  {
    shared_ptr<BinNormalisationFromProjData> n;
    std::string hid;
    const FactorFile* holds; // what the object must hold now
  };
  int tab_counter = 0;
  auto tell_table = [&](const FactorFile& f) {
    const std::string t = "pf" + std::to_string(tab_counter++);
    send_table(t, *f.mem);
    return t + (f.pdi->is_tof_data() ? " 1" : " 0");
  };
  auto new_obj = [&](int how, const FactorFile* f) {
    Obj o;
    o.hid = "P" + std::to_string(g_hist_counter++);
    o.holds = f;
    if (how == 0)
      {
        o.n.reset(new BinNormalisationFromProjData);
        op("hist " + o.hid + " newfpd", "ok");
      }
    else
      {
        if (how == 1)
          o.n.reset(new BinNormalisationFromProjData(f->name));
        else
          o.n.reset(new BinNormalisationFromProjData(shared_ptr<ProjData>(f->mem)));
        op("hist " + o.hid + " ctorfpd " + tell_table(*f), "ok");
      }
    return o;
  };
  auto do_parse = [&](Obj& o, const FactorFile& f) {
    const bool fine = parse_text(*o.n, fpd_text(f));
    op("hist " + o.hid + " parse fpd " + tell_table(f), fine ? "ok" : "err");
    ++g_checks;
    if (!fine)
      oracle_fail("BinNormalisationFromProjData::parse failed for a readable factor file");
    o.holds = &f;
  };
  auto ask_usable = [&](Obj& o) { op("hist " + o.hid + " usable", usable_now(R, *o.n) ? "ok" : "err"); };
  auto step = [&](Obj& o, const shared_ptr<ProjDataInfo>& data, const FactorFile* parse_file, const std::string& what) {
    std::ostringstream descr;
    descr << d.str() << " object=" << o.hid << " step=" << what << " data-segments=" << data->get_num_segments()
          << " data-tof=" << data->get_num_tof_poss();
    R.set_geometry(sc, data, descr.str());
    if (parse_file)
      do_parse(o, *parse_file);
    const FactorFile& f = *o.holds;
    const int k = R.add_from_proj_data(f.pdi, "parse-history", f.mem, o.n, o.hid);
    R.run_case(k);
    shared_ptr<BinNormalisation> fresh;
    if (f.name.empty())
      fresh.reset(new BinNormalisationFromProjData(shared_ptr<ProjData>(f.mem)));
    else
      {
        shared_ptr<BinNormalisationFromProjData> p(new BinNormalisationFromProjData);
        ++g_checks;
        if (!parse_text(*p, fpd_text(f)))
          {
            oracle_fail("BinNormalisationFromProjData::parse failed for a readable factor file (fresh object)");
            return;
          }
        fresh = p;
      }
    R.compare_fresh(k, fresh, what);
  };
  {
    Obj o = new_obj(0, nullptr);
    step(o, nontof, &A, "1:parse-file-A");
    step(o, nontof, &B, "2:parse-file-B(other-factors)");
    step(o, tofd, &C, "3:parse-file-C(TOF-factors)-TOF-data");
    step(o, tofd, &A, "4:parse-file-A-again(nonTOF-factors)-TOF-data");
    step(o, fewer, nullptr, "5:set_up-again-for-fewer-segments");
    // parse without a set_up in between: the object stays set up (parse does not reset the state) and holds the new factors
    R.set_geometry(sc, fewer, d.str() + " object=" + o.hid + " step=6:parse-B-then-parse-A-without-set_up");
    do_parse(o, B);
    ask_usable(o);
    do_parse(o, A);
    ask_usable(o);
    step(o, nontof, &B, "7:parse-file-B-set_up");
  }
  {
    Obj o = new_obj(1, &A);
    step(o, nontof, nullptr, "1:constructed-from-file-name-A");
    step(o, nontof, &B, "2:parse-file-B");
    if (thorough || rng.coin())
      step(o, tofd, &C, "3:parse-file-C(TOF-factors)-TOF-data");
  }
  {
    Obj o = new_obj(2, &M);
    step(o, tofd, nullptr, "1:constructed-from-ProjData-object-TOF-data");
    step(o, nontof, &B, "2:parse-file-B");
    step(o, nontof, &A, "3:parse-file-A");
  }
}

struct ImageFile
{
  shared_ptr<VoxelsOnCartesianGrid<float>> mu;
  std::string file; // header file name (empty: in memory only)
  std::string name; // the model's name for this image
};

// projector settings as a parsed text describes them (flags < 0: no projector key, i.e. the class's default projector)
static std::string
atten_text(const ImageFile& im, int flags, const std::string& indent = "")
{
  std::ostringstream par;
  par << indent << "Bin Normalisation From Attenuation Image:=\n" << indent << " attenuation_image_filename := " << im.file << "\n";
  if (flags >= 0)
    par << indent << " forward projector type := Matrix\n"
        << indent << "  Forward Projector Using Matrix Parameters :=\n"
        << indent << "   Matrix type := Ray Tracing\n"
        << indent << "    Ray Tracing Matrix Parameters :=\n"
        << indent << "     do_symmetry_90degrees_min_phi := " << ((flags & 1) ? 1 : 0) << "\n"
        << indent << "     do_symmetry_180degrees_min_phi := " << ((flags & 2) ? 1 : 0) << "\n"
        << indent << "     do_symmetry_swap_segment := " << ((flags & 4) ? 1 : 0) << "\n"
        << indent << "    End Ray Tracing Matrix Parameters :=\n"
        << indent << "  End Forward Projector Using Matrix Parameters :=\n";
  par << indent << "End Bin Normalisation From Attenuation Image :=\n";
  return par.str();
}

static ImageFile
make_image_file(Runner& R, const ProjDataInfo& pdi, float zoom, int nxy, bool on_disk, bool empty_edge)
{
  static int counter = 0;
  ImageFile im;
  im.name = "img" + std::to_string(counter++);
  im.mu = vh::make_image(pdi, zoom, nxy, -1);
  for (auto it = im.mu->begin_all(); it != im.mu->end_all(); ++it)
    *it = R.rng.range(0, 5) == 0 ? 0.F : R.rnd(0.02F, 0.45F);
  if (empty_edge)
    {
      // (the expectation for the class's default projector comes from the ray tracing MATRIX: see make_atten)
      const CartesianCoordinate3D<float> vs = im.mu->get_voxel_size();
      const double keep = ((nxy - 1) / 2. - 1.) * std::min(vs.x(), vs.y());
      VoxelsOnCartesianGrid<float>& mu = *im.mu;
      for (int z = mu.get_min_index(); z <= mu.get_max_index(); ++z)
        for (int y = mu[z].get_min_index(); y <= mu[z].get_max_index(); ++y)
          for (int x = mu[z][y].get_min_index(); x <= mu[z][y].get_max_index(); ++x)
            if (std::sqrt(static_cast<double>(x) * x * vs.x() * vs.x() + static_cast<double>(y) * y * vs.y() * vs.y()) > keep)
              mu[z][y][x] = 0.F;
    }
  if (on_disk)
    {
      const std::string base = g_scratch + "_image" + std::to_string(g_file_counter++);
      write_to_file(base, *im.mu);
      im.file = base + ".hv";
      g_files_to_remove.push_back(base + ".hv");
      g_files_to_remove.push_back(base + ".v");
      g_files_to_remove.push_back(base + ".ahv");
    }
  return im;
}

// (repaired, fix C13-1: an object parsed again reads the image again and rescales it once; strict)
static const char* const KEY_ATTEN_REPARSE = "";
static const char* const TEXT_ATTEN_REPARSE = "";

static void
hist_parse_atten(vh::Rng& rng, bool thorough)
{
  Runner R(rng, thorough);
  const int tpb = 2;
  const int N = tpb * 2 * rng.range(2, 4);
  const int Rr = rng.range(2, 3);
  const int maxtang = N / 2 - 1;
  const int nt = std::max(3, std::min(maxtang, rng.range(3, 6)));
  shared_ptr<Scanner> sc = block_scanner(N, Rr, tpb, 1, -1);
  shared_ptr<ProjDataInfo> pdi = vh::make_pdi(sc, 1, Rr - 1, N / 2, nt, false, 0);
  shared_ptr<ProjDataInfo> fewer = vh::make_pdi(sc, 1, rng.range(0, Rr - 2), N / 2, nt, false, 0);
  std::ostringstream d;
  d << "nonTOF N=" << N << " R=" << Rr << " span=1 views=" << N / 2 << " tang=" << nt
    << " history=FromAttenuationImage(constructors,parse,set_up)";
  R.set_geometry(sc, pdi, d.str() + " step=files");
  // two images on disk with different sizes, voxel sizes and values, one in memory
  const int nA = rng.range(6, 8);
  const ImageFile A = make_image_file(R, *pdi, rng.coin() ? 0.8F : 1.25F, nA, true, true),
                  B = make_image_file(R, *pdi, rng.coin() ? 1.F : 0.64F, nA + (rng.coin() ? 1 : -1), true, true),
                  M = make_image_file(R, *pdi, 1.F, rng.range(6, 8), false, true);
  struct Obj
  {
    shared_ptr<BinNormalisationFromAttenuationImage> n;
    std::string hid;
    const ImageFile* holds;              // the image the object must hold now
    std::vector<const ImageFile*> seen;  // every image the object has been offered
    int flags;                           // projector settings in force (-1: the class's default projector)
    bool swap_s, shift_z;
    shared_ptr<ForwardProjectorByBin> fwd; // given to a constructor
    int post_processings;
  };
  auto new_obj = [&](int how, const ImageFile* im, bool with_projector) {
    Obj o;
    o.hid = "Q" + std::to_string(g_hist_counter++);
    o.holds = im;
    o.flags = -1;
    o.swap_s = o.shift_z = true;
    o.post_processings = 0;
    if (im)
      o.seen.push_back(im);
    if (how == 0)
      {
        o.n.reset(new BinNormalisationFromAttenuationImage);
        op("hist " + o.hid + " newatten", "ok");
        return o;
      }
    if (with_projector)
      {
        o.flags = rng.range(0, 7);
        o.swap_s = rng.coin();
        o.shift_z = rng.coin();
        o.fwd.reset(new ForwardProjectorByBinUsingProjMatrixByBin(Runner::make_matrix(o.flags, o.swap_s, o.shift_z)));
      }
    if (how == 1)
      o.n.reset(new BinNormalisationFromAttenuationImage(im->file, o.fwd));
    else
      o.n.reset(new BinNormalisationFromAttenuationImage(shared_ptr<const DiscretisedDensity<3, float>>(im->mu), o.fwd));
    o.post_processings = 1;
    op("hist " + o.hid + " ctoratten " + (how == 1 ? "file " : "image ") + im->name, "ok");
    return o;
  };
  auto do_parse = [&](Obj& o, const ImageFile& im, int flags) {
    const bool fine = parse_text(*o.n, atten_text(im, flags));
    op("hist " + o.hid + " parse atten " + im.name, fine ? "ok" : "err");
    ++g_checks;
    if (!fine)
      oracle_fail("BinNormalisationFromAttenuationImage::parse failed for a readable image file");
    o.holds = &im;
    o.seen.push_back(&im);
    ++o.post_processings;
    if (flags >= 0)
      {
        // a projector made by the parser: the settings of the text, everything else at its default
        o.flags = flags;
        o.swap_s = o.shift_z = true;
        o.fwd.reset();
      }
  };
  auto step = [&](Obj& o, const shared_ptr<ProjDataInfo>& data, const ImageFile* parse_image, int parse_flags, const std::string& what) {
    std::ostringstream descr;
    descr << d.str() << " object=" << o.hid << " step=" << what << " segments=" << data->get_num_segments();
    R.set_geometry(sc, data, descr.str());
    if (parse_image)
      do_parse(o, *parse_image, parse_flags);
    const ImageFile& im = *o.holds;
    Case c;
    c.kind = std::string("atten:parse-history:") + (o.flags < 0 ? "defaultProjector" : "matrix" + std::to_string(o.flags));
    c.norm = o.n;
    if (o.post_processings > 1)
      {
        c.known_key = KEY_ATTEN_REPARSE;
        c.known_text = TEXT_ATTEN_REPARSE;
      }
    const int k = R.add(c);
    // rows of every image the object has been offered, for the projector settings in force (default projector: the rows of the
    // ray tracing matrix with all symmetries, see make_atten); the expectation `acf` from the image the object must hold
    const int rf = o.flags < 0 ? 7 : o.flags;
    std::ostringstream setup;
    setup << "hist " << o.hid << " setup atten " << data->get_num_tof_poss() << " " << data->get_tof_mash_factor();
    std::set<std::string> sent;
    for (const ImageFile* s : o.seen)
      {
        if (!sent.insert(s->name).second)
          continue;
        const std::string rows = "r" + R.cases[k].id + s->name;
        R.send_rows(rows, s->mu, rf, o.swap_s, o.shift_z, s == &im ? &R.cases[k].acf : nullptr);
        setup << " " << s->name << " " << vh::hex(s->mu->get_voxel_size().x()) << " " << rows;
      }
    op(setup.str(), "ok");
    R.cases[k].id = o.hid;
    {
      shared_ptr<ProjDataInfo> p = data;
      shared_ptr<VoxelsOnCartesianGrid<float>> mu = im.mu;
      if (o.flags < 0)
        R.atten_sym[k] = [p, mu]() {
          return shared_ptr<DataSymmetriesForViewSegmentNumbers>(new DataSymmetriesForBins_PET_CartesianGrid(p, mu));
        };
      else if (o.fwd)
        {
          shared_ptr<ForwardProjectorByBin> fwd = o.fwd;
          R.atten_sym[k] = [fwd]() { return shared_ptr<DataSymmetriesForViewSegmentNumbers>(fwd->get_symmetries_used()->clone()); };
        }
      else
        {
          const int f = o.flags;
          R.atten_sym[k] = [p, mu, f]() {
            shared_ptr<ProjMatrixByBinUsingRayTracing> pm = Runner::make_matrix(f, true, true);
            pm->set_up(p, mu);
            return shared_ptr<DataSymmetriesForViewSegmentNumbers>(pm->get_symmetries_ptr()->clone());
          };
        }
    }
    R.run_case(k);
    // a fresh object given the image and the projector settings once
    shared_ptr<BinNormalisation> fresh;
    if (im.file.empty() || o.fwd)
      {
        shared_ptr<ForwardProjectorByBin> fwd;
        if (o.flags >= 0)
          fwd.reset(new ForwardProjectorByBinUsingProjMatrixByBin(Runner::make_matrix(o.flags, o.swap_s, o.shift_z)));
        if (im.file.empty())
          fresh.reset(new BinNormalisationFromAttenuationImage(shared_ptr<const DiscretisedDensity<3, float>>(im.mu), fwd));
        else
          fresh.reset(new BinNormalisationFromAttenuationImage(im.file, fwd));
      }
    else
      {
        shared_ptr<BinNormalisationFromAttenuationImage> p(new BinNormalisationFromAttenuationImage);
        ++g_checks;
        if (!parse_text(*p, atten_text(im, o.flags)))
          {
            oracle_fail("BinNormalisationFromAttenuationImage::parse failed for a readable image file (fresh object)");
            return;
          }
        fresh = p;
      }
    R.compare_fresh(k, fresh, what);
  };
  {
    // parsed, then parsed again with another image and another projector
    Obj o = new_obj(0, nullptr, false);
    const int f1 = rng.range(0, 7);
    step(o, pdi, &A, f1, "1:parse-image-A-matrix-projector");
    step(o, fewer, nullptr, -1, "2:set_up-again-for-fewer-segments");
    step(o, pdi, &B, (f1 ^ rng.range(1, 7)) & 7, "3:parse-image-B-other-matrix-projector");
    if (thorough || rng.coin())
      step(o, pdi, &A, rng.range(0, 7), "4:parse-image-A-again");
  }
  {
    // parsed without a projector key (the class's default projector), then again with another image
    Obj o = new_obj(0, nullptr, false);
    step(o, pdi, &B, -1, "1:parse-image-B-default-projector");
    step(o, pdi, &A, -1, "2:parse-image-A-default-projector");
  }
  {
    // constructed from an image object, then parsed
    Obj o = new_obj(2, &M, rng.coin());
    step(o, pdi, nullptr, -1, "1:constructed-from-image-object");
    step(o, pdi, &A, rng.range(0, 7), "2:parse-image-A-matrix-projector");
  }
  if (thorough || rng.coin())
    {
      // constructed from a file name, then parsed
      Obj o = new_obj(1, &A, rng.coin());
      step(o, pdi, nullptr, -1, "1:constructed-from-file-name-A");
      step(o, pdi, &B, rng.range(0, 7), "2:parse-image-B-matrix-projector");
    }
}

static void
hist_parse_chain(vh::Rng& rng, bool thorough)
{
  Runner R(rng, thorough);
  const int tpb = 2;
  const int N = tpb * 2 * rng.range(2, 3);
  const int Rr = rng.range(2, 3);
  const int maxtang = N / 2 - 1;
  const int nt = std::max(3, std::min(maxtang, rng.range(3, 5)));
  shared_ptr<Scanner> sc = block_scanner(N, Rr, tpb, 1, -1);
  shared_ptr<ProjDataInfo> pdi = vh::make_pdi(sc, 1, Rr - 1, N / 2, nt, false, 0);
  std::ostringstream d;
  d << "nonTOF N=" << N << " R=" << Rr << " span=1 views=" << N / 2 << " tang=" << nt << " history=Chained(constructors,parse,set_up)";
  R.set_geometry(sc, pdi, d.str() + " step=files");
  const FactorFile FA = make_factor_file(R, pdi, true), FB = make_factor_file(R, pdi, true), FM = make_factor_file(R, pdi, false);
  const ImageFile IA = make_image_file(R, *pdi, 0.8F, rng.range(5, 7), true, true),
                  IB = make_image_file(R, *pdi, 1.25F, rng.range(5, 7), true, true);
  // a member as a text describes it: kind 0 None (a null pointer: the registry's default entry), 1 From ProjData, 2 From Attenuation Image;
  // kind -1: nothing said (a null pointer given to the constructor)
  struct Member
  {
    int kind;
    const FactorFile* factors;
    const ImageFile* image;
    int flags; // projector of an attenuation member (-1 default)
  };
  auto member_text = [&](const Member& m, const char* key) {
    std::ostringstream t;
    t << " " << key << " := ";
    if (m.kind == 0)
      t << "None\n";
    else if (m.kind == 1)
      t << "From ProjData\n" << fpd_text(*m.factors);
    else
      t << "From Attenuation Image\n" << atten_text(*m.image, m.flags, "  ");
    return t.str();
  };
  auto chain_text = [&](const Member& a, const Member& b) {
    return "Chained Bin Normalisation Parameters:=\n" + member_text(a, "Bin Normalisation to apply first")
           + member_text(b, "Bin Normalisation to apply second") + "END Chained Bin Normalisation Parameters:=\n";
  };
  struct Obj
  {
    shared_ptr<ChainedBinNormalisation> n;
    std::string hid;
    Member first, second;
    bool parsed; // made by the default constructor and parsed (a fresh reference is parsed once), or made from member objects
  };
  // a fresh member object on its own (from the data the harness holds in memory) and its case; kind -1: a null pointer
  auto member_object = [&](const Member& m, Runner::AttenObj* keep) -> shared_ptr<BinNormalisation> {
    if (m.kind <= 0)
      return shared_ptr<BinNormalisation>();
    if (m.kind == 1)
      return shared_ptr<BinNormalisation>(new BinNormalisationFromProjData(shared_ptr<ProjData>(m.factors->mem)));
    Runner::AttenObj a;
    a.mu = m.image->mu;
    a.default_projector = m.flags < 0;
    a.f = m.flags < 0 ? 7 : m.flags;
    a.swap_s = a.shift_z = true;
    Runner::construct_atten(a);
    if (keep)
      *keep = a;
    return a.norm;
  };
  auto member_case = [&](const Member& m) {
    if (m.kind <= 0)
      return -1;
    if (m.kind == 1)
      return R.add_from_proj_data(m.factors->pdi, "member", m.factors->mem);
    Runner::AttenObj a;
    member_object(m, &a);
    return R.add_atten_case(a);
  };
  // `pa`,`pb`: the members are replaced now - by parsing a text that describes them (`by_parsing`), or they were given to the
  // constructor that has just made the object (the model: a new object whose members are replaced, post_processing)
  auto step = [&](Obj& o, const Member* pa, const Member* pb, bool by_parsing, const std::string& what) {
    std::ostringstream descr;
    descr << d.str() << " object=" << o.hid << " step=" << what;
    R.set_geometry(sc, pdi, descr.str());
    if (pa)
      {
        o.first = *pa;
        o.second = *pb;
      }
    const int ki = member_case(o.first), kj = member_case(o.second);
    // "-": the text has no such key / the constructor was given a null pointer; "null": the key has the value None
    auto name_of = [&](int k, const Member& m) { return k < 0 ? std::string(m.kind == 0 ? "null" : "-") : R.cases[k].id; };
    if (pa)
      {
        const bool fine = by_parsing ? parse_text(*o.n, chain_text(o.first, o.second)) : true;
        auto cal = [&](bool first) {
          try
            {
              return vh::hex((first ? o.n->get_first_norm() : o.n->get_second_norm())->get_calibration_factor());
            }
          catch (...)
            {
              return std::string("-0x1p+0"); // a null member has none
            }
        };
        op("hist " + o.hid + " parse chain " + name_of(ki, o.first) + " " + name_of(kj, o.second) + " " + cal(true) + " " + cal(false), fine ? "ok" : "err");
        ++g_checks;
        if (!fine)
          {
            oracle_fail("ChainedBinNormalisation::parse failed for a text with two readable members");
            return;
          }
        // the new members were never set up
        if (o.first.kind > 0 || o.second.kind > 0)
          op("hist " + o.hid + " usable", usable_now(R, *o.n) ? "ok" : "err");
      }
    Case c;
    auto kind_of = [&](int k) { return k < 0 ? std::string("null") : R.cases[k].kind; };
    c.kind = "chain(" + kind_of(ki) + "," + kind_of(kj) + "):parse-history";
    c.norm = o.n;
    c.members = { ki, kj };
    c.is_chain = true;
    c.routes = R.generic_routes();
    const int ko = R.add(c);
    op("hist " + o.hid + " setup chain", "ok");
    R.cases[ko].id = o.hid;
    for (int k : { ki, kj })
      if (k >= 0)
        R.run_case(k);
    R.run_case(ko);
    shared_ptr<ChainedBinNormalisation> fresh;
    ++g_checks;
    if (o.parsed)
      {
        fresh.reset(new ChainedBinNormalisation);
        if (!parse_text(*fresh, chain_text(o.first, o.second)))
          {
            oracle_fail("ChainedBinNormalisation::parse failed for a text with two readable members (fresh object)");
            return;
          }
      }
    else
      fresh.reset(new ChainedBinNormalisation(member_object(o.first, nullptr), member_object(o.second, nullptr)));
    R.compare_fresh(ko, fresh, what);
  };
  const Member null_member{ -1, nullptr, nullptr, -1 }, none{ 0, nullptr, nullptr, -1 }, fa{ 1, &FA, nullptr, -1 },
      fb{ 1, &FB, nullptr, -1 }, fm{ 1, &FM, nullptr, -1 }, ia{ 2, nullptr, &IA, rng.range(0, 7) }, ib{ 2, nullptr, &IB, -1 },
      ia2{ 2, nullptr, &IA, rng.range(0, 7) };
  {
    Obj o;
    o.hid = "K" + std::to_string(g_hist_counter++);
    o.n.reset(new ChainedBinNormalisation);
    o.parsed = true;
    op("hist " + o.hid + " newchain", "ok");
    step(o, &fa, &ia, true, "1:parse(FromProjData-A,Attenuation-A)");
    step(o, &ib, &fb, true, "2:parse(Attenuation-B,FromProjData-B)");
    step(o, nullptr, nullptr, true, "3:set_up-again");
    step(o, &none, &fa, true, "4:parse(None,FromProjData-A)");
    step(o, &ia, &none, true, "4b:parse(Attenuation-A,None)");
    step(o, &fb, &ia2, true, "5:parse(FromProjData-B,Attenuation-A)");
  }
  {
    // constructed from member objects (the second one null), then parsed
    Obj o;
    o.hid = "K" + std::to_string(g_hist_counter++);
    o.n.reset(new ChainedBinNormalisation(member_object(fm, nullptr), shared_ptr<BinNormalisation>()));
    o.parsed = false;
    op("hist " + o.hid + " newchain", "ok");
    step(o, &fm, &null_member, false, "1:constructed(FromProjData-object,null)");
    o.parsed = true;
    step(o, rng.coin() ? &ia : &ib, &fa, true, "2:parse(Attenuation,FromProjData-A)");
  }
}

int
main(int argc, char** argv)
{
  if (argc < 5)
    return 2;
  vh::quiet();
  vh::Rng rng(std::strtoull(argv[1], nullptr, 10) * 1315423911ULL + 13);
  const bool thorough = std::string(argv[2]) == "thorough";
  g_ops = std::fopen(argv[3], "w");
  g_out = std::fopen(argv[4], "w");
  g_orc = std::fopen((std::string(argv[4]) + ".oracle").c_str(), "w");
  g_scratch = argv[3];
  {
    // (the Interfile writer replaces whatever follows the last '.' of the file name)
    const std::size_t slash = g_scratch.find_last_of('/');
    for (std::size_t i = slash == std::string::npos ? 0 : slash + 1; i < g_scratch.size(); ++i)
      if (g_scratch[i] == '.')
        g_scratch[i] = '_';
  }

  const int rounds = thorough ? 12 : 2;
  for (int round = 0; round < rounds; ++round)
    {
      // ------------------------------------------------------------------ A/B: non-TOF, span 1 (all classes); odd and even tangential size
      for (int even = 0; even < 2; ++even)
        {
          Runner R(rng, thorough);
          const int tpb = rng.coin() ? 4 : 2;                 // transaxial crystals per block
          const int N = tpb * 2 * rng.range(2, thorough ? 4 : 3) ; // 8..32, multiple of 2*tpb (blocks even)
          const int apb = rng.range(1, 2);
          const int Rr = apb * rng.range(1, 2);
          const int maxtang = N / 2 - 1;
          int nt = std::max(3, std::min(maxtang, 2 * rng.range(1, 3) + 1));
          if (even)
            nt = std::max(2, nt - 1);
          shared_ptr<Scanner> sc = block_scanner(N, Rr, tpb, apb, -1);
          shared_ptr<ProjDataInfo> pdi = vh::make_pdi(sc, 1, Rr - 1, N / 2, nt, false, 0);
          std::ostringstream d;
          d << "nonTOF N=" << N << " R=" << Rr << " span=1 views=" << N / 2 << " tang=" << nt << " blocks=" << tpb << "x" << apb;
          R.set_geometry(sc, pdi, d.str());
          const int t = R.add_trivial();
          const int tab = R.add_table(false);
          const int tab0 = R.add_table(true);
          const int cal = R.add_calib();
          const int fpd = R.add_from_proj_data(pdi, "same");
          const int f = rng.range(0, 7);
          const int at = R.add_atten(f, rng.coin() ? 0.8F : (rng.coin() ? 1.25F : 0.5F), rng.range(5, 8));
          const int at2 = even ? -1 : R.add_atten((f ^ 5) & 7, 1.F, rng.range(5, 8)); // a second symmetry setting, cubic-ish voxels
          const int c1 = R.add_components(1, 0);
          const int c7 = R.add_components(7, 0);
          const int c5 = R.add_components(rng.coin() ? 5 : 3, 0);
          const int cz = R.add_components(1, 3);
          const int ct = R.add_components(7, 1);
          const int cn = R.add_components(rng.range(1, 7), 2);
          const int ch1 = R.add_chain(fpd, at);          // the usual norm + attenuation chain
          const int ch2 = R.add_chain(tab, t);           // one effective member
          const int ch3 = R.add_chain(ch2, fpd);         // three members, left nested
          const int ch4 = R.add_chain(c7, ch1);          // three members, right nested
          const int ch5 = R.add_chain(cal, tab0);
          const int ch0 = R.add_empty_chain();
          // a chain with one null member (either side), alone and nested
          const int chn1 = R.add_chain(tab, -1);
          const int chn2 = R.add_chain(-1, fpd);
          R.add_chain(chn1, chn2);
          R.add_chain(even ? -1 : at, even ? cal : -1);
          // the attenuation class with its default projector (no projector given)
          const int atd = R.add_atten(rng.range(0, 7), rng.coin() ? 0.8F : 1.25F, rng.range(6, 9), true);
          R.add_chain(fpd, atd);
          // non-square in-plane voxels, (a,b) and (b,a), ratio 1.5 / 1.1, z size different from both; given projector / default
          {
            const float ratio = (round + even) % 2 == 0 ? 1.5F : 1.1F;
            const int ns1 = R.add_atten(rng.range(0, 7), rng.coin() ? 0.8F : 1.25F, rng.range(5, 8), false, ratio, 1.F);
            R.add_atten(rng.range(0, 7), rng.coin() ? 0.8F : 1.25F, rng.range(5, 8), false, 1.F, ratio);
            const int ns3 = R.add_atten(rng.range(0, 7), rng.coin() ? 0.8F : 1.25F, rng.range(6, 9), true, even ? ratio : 1.F, even ? 1.F : ratio);
            R.add_chain(even ? ns3 : ns1, tab);
          }
          // components against the expectation built by hand
          const int h7 = R.add_components_hand(7, "");
          R.add_components_hand(rng.range(1, 6), "");
          R.add_chain(h7, tab);
          (void)c1; (void)c5; (void)cz; (void)ct; (void)cn; (void)ch3; (void)ch4; (void)ch5; (void)ch0; (void)at2;
          for (std::size_t k = 0; k < R.cases.size(); ++k)
            R.run_case(static_cast<int>(k));
          // chain constructor: two calibrated members are refused
          {
            bool threw = false;
            try
              {
                ChainedBinNormalisation bad(R.cases[cal].norm, R.cases[cal].norm);
              }
            catch (...)
              {
                threw = true;
              }
            const float cf = R.cases[cal].norm->get_calibration_factor();
            op("chainctor " + vh::hex(cf) + " " + vh::hex(cf), threw ? "err" : "ok");
            bool threw2 = false;
            try
              {
                ChainedBinNormalisation fine(R.cases[cal].norm, R.cases[tab].norm);
              }
            catch (...)
              {
                threw2 = true;
              }
            op("chainctor " + vh::hex(cf) + " " + vh::hex(R.cases[tab].norm->get_calibration_factor()), threw2 ? "err" : "ok");
          }
        }
      // ------------------------------------------------------------------ C/E: TOF data, mashing factor 1 / a proper divisor of the
      // maximum number of TOF bins of the scanner / the maximum itself (ONE TOF bin: TOF data all the same, is_tof_data() is true)
      {
        struct TofVariant
        {
          int max_tof, mash;
        };
        std::vector<TofVariant> variants = { { 5, 1 }, { 9, 3 } };
        {
          static const int maxes[] = { 5, 9, 15 };
          const int m = maxes[rng.range(0, 2)];
          variants.push_back(TofVariant{ m, m }); // a single TOF bin
          if (thorough)
            {
              const int m2 = maxes[rng.range(0, 2)];
              variants.push_back(TofVariant{ m2, m2 });
              variants.push_back(TofVariant{ 15, rng.coin() ? 3 : 5 });
              variants.push_back(TofVariant{ rng.coin() ? 9 : 15, 1 });
            }
        }
        for (const TofVariant& tv : variants)
          {
            Runner R(rng, thorough);
            const int N = 4 * rng.range(2, thorough ? 5 : 3);
            const int Rr = rng.range(1, 3);
            const int nt = std::max(2, std::min(N / 2 - 1, rng.range(2, 5)));
            const int max_tof = tv.max_tof, mash = tv.mash;
            shared_ptr<Scanner> sc = vh::make_scanner(N, Rr, max_tof);
            shared_ptr<ProjDataInfo> pdi = vh::make_pdi(sc, 1, Rr - 1, N / 2, nt, false, mash);
            std::ostringstream d;
            d << "TOF" << pdi->get_num_tof_poss() << " (max " << max_tof << " TOF bins, mashing factor " << mash << ") N=" << N << " R=" << Rr
              << " span=1 views=" << N / 2 << " tang=" << nt;
            R.set_geometry(sc, pdi, d.str());
            shared_ptr<ProjDataInfo> nontof(pdi->create_non_tof_clone());
            const int t = R.add_trivial();
            const int tab = R.add_table(false);
            const int tab0 = R.add_table(true);
            const int cal = R.add_calib();
            const int f0 = R.add_from_proj_data(nontof, "nonTOF-factors");
            const int f1 = R.add_from_proj_data(pdi, "TOF-factors");
            R.add_chain(f0, tab);
            R.add_chain(R.add_chain(f1, cal), f0);
            R.add_chain(t, R.add_chain(tab0, f1));
            for (std::size_t k = 0; k < R.cases.size(); ++k)
              R.run_case(static_cast<int>(k));
            // set_up decisions
            atten_setup_case(R); // TOF data with more than one TOF position: refused
            comp_setup_case(R);  // TOF data: refused
            fpd_setup_case(R, nontof, true, true);
            fpd_setup_case(R, pdi, true, true);
            {
              shared_ptr<ProjDataInfo> other = vh::make_pdi(sc, 1, Rr - 1, N / 2, nt + 1 <= N / 2 - 1 ? nt + 1 : nt - 1, false, 0);
              fpd_setup_case(R, other, true, false); // different tangential size
              if (nt - 1 >= 1)
                fpd_setup_case(R, vh::make_pdi(sc, 1, Rr - 1, N / 2, nt - 1, false, 0), true, false); // smaller tangential size
              // TOF factors with another TOF mashing factor than the data (also: one TOF bin against several), TOF factors for
              // non-TOF data: the TOF positions of factors and data do not correspond
              for (int other_mash = 1; other_mash <= max_tof; ++other_mash)
                if (other_mash != mash && max_tof % other_mash == 0 && (max_tof / other_mash) % 2 == 1)
                  fpd_setup_case(R, vh::make_pdi(sc, 1, Rr - 1, N / 2, nt, false, other_mash), true, false);
              Runner Rn(rng, thorough);
              Rn.set_geometry(sc, nontof, d.str() + " data=nonTOF-clone");
              fpd_setup_case(Rn, pdi, true, false);
              fpd_setup_case(Rn, nontof, true, true);
              atten_setup_case(Rn);
            }
            // non-TOF factors with more segments than the TOF data
            if (Rr >= 2)
              {
                Runner Rs(rng, thorough);
                shared_ptr<ProjDataInfo> fewer = vh::make_pdi(sc, 1, rng.range(0, Rr - 2), N / 2, nt, false, mash);
                Rs.set_geometry(sc, fewer, d.str() + " data-segments=" + std::to_string(fewer->get_num_segments()));
                const int g0 = Rs.add_from_proj_data(nontof, "nonTOF-factors-more-segments");
                Rs.add_chain(g0, Rs.add_from_proj_data(pdi, "TOF-factors-more-segments"));
                for (std::size_t k = 0; k < Rs.cases.size(); ++k)
                  Rs.run_case(static_cast<int>(k));
                fpd_setup_case(Rs, nontof, true, true);
                fpd_setup_case(Rs, pdi, true, true);
              }
          }
      }
      // ------------------------------------------------------------------ D: non-TOF, span 3, view mashing; F: factors with more segments
      {
        Runner R(rng, thorough);
        const int N = 8 * rng.range(2, thorough ? 4 : 3);
        const int Rr = rng.range(5, 6);
        const int nt = std::max(3, std::min(N / 2 - 1, rng.range(3, 6)));
        const int views = rng.coin() ? N / 2 : N / 4;
        shared_ptr<Scanner> sc = vh::make_scanner(N, Rr, -1);
        shared_ptr<ProjDataInfo> pdi = vh::make_pdi(sc, 3, 1, views, nt, false, 0);   // segment 0 only (max_delta 1, span 3)
        shared_ptr<ProjDataInfo> big = vh::make_pdi(sc, 3, 4, views, nt, false, 0);   // segments -1..1
        std::ostringstream d;
        d << "nonTOF N=" << N << " R=" << Rr << " span=3 views=" << views << " tang=" << nt << " segments=" << pdi->get_num_segments()
          << " factors-segments=" << big->get_num_segments();
        // data = the larger geometry in one sub-case, the smaller in the other
        R.set_geometry(sc, big, d.str() + " data=big");
        const int t = R.add_trivial();
        const int tab = R.add_table(false);
        const int fpd = R.add_from_proj_data(big, "same");
        const int at = R.add_atten(rng.range(0, 7), 0.8F, rng.range(5, 8));
        R.add_chain(fpd, at);
        R.add_chain(R.add_chain(tab, fpd), t);
        for (std::size_t k = 0; k < R.cases.size(); ++k)
          R.run_case(static_cast<int>(k));
        // the set-up state is checked on use (BinNormalisation::check)
        {
          auto try_use = [&](BinNormalisation& n, const shared_ptr<ProjDataInfo>& data_pdi) {
            PD dd(R.g.exam, data_pdi);
            dd.fill(1.F);
            shared_ptr<DataSymmetriesForViewSegmentNumbers> triv(new TrivialDataSymmetriesForBins(data_pdi));
            try
              {
                RelatedViewgrams<float> rv = dd.get_related_viewgrams(ViewSegmentNumbers(0, 0), triv, false, 0);
                n.undo(rv);
                n.apply(rv);
                return true;
              }
            catch (...)
              {
                return false;
              }
          };
          shared_ptr<PD> tb = R.random_positive_pd(big, 0.5F, 2.F);
          TableNorm fresh(tb), on_big(tb), on_small(tb);
          on_big.set_up(R.g.exam, big);
          on_small.set_up(R.g.exam, pdi);
          struct U
          {
            BinNormalisation* n;
            shared_ptr<ProjDataInfo> setup, data;
            bool expect_ok;
          } uses[] = { { &fresh, shared_ptr<ProjDataInfo>(), big, false },
                       { &on_big, big, big, true },
                       { &on_big, big, pdi, true },     // data with fewer segments than set up for
                       { &on_small, pdi, big, false },  // data with more segments than set up for
                       { &on_small, pdi, pdi, true } };
          for (auto& u : uses)
            {
              const bool okk = try_use(*u.n, u.data);
              const bool ge = u.setup ? (*u.setup >= *u.data) : true;
              op(std::string("use ") + (u.setup ? "1" : "0") + " " + (ge ? "1" : "0"), okk ? "ok" : "err");
              ++g_checks;
              if (okk != u.expect_ok)
                oracle_fail(std::string("use of a normalisation object ") + (u.setup ? "set up for another geometry" : "that was never set up")
                            + (okk ? " was accepted" : " was refused"));
            }
        }
        fpd_setup_case(R, pdi, true, false); // fewer segments than the data
        fpd_setup_case(R, big, true, true);

        Runner R2(rng, thorough);
        R2.set_geometry(sc, pdi, d.str() + " data=small");
        R2.add_from_proj_data(big, "more-segments");
        R2.add_table(true);
        R2.add_chain(0, 1);
        for (std::size_t k = 0; k < R2.cases.size(); ++k)
          R2.run_case(static_cast<int>(k));
        fpd_setup_case(R2, big, true, true); // more segments than the data: allowed
        comp_setup_case(R2);                 // axial compression (and possibly view mashing): refused
      }

      // ------------------------------------------------------------------ H: scanners with several blocks per bucket
      // (the symmetry unit of the geometric factors is then a bucket); components against the expectation built by hand
      for (int variant = 0; variant < (thorough ? 3 : 2); ++variant)
        {
          Runner R(rng, thorough);
          int tpb, tbpb, ntbuckets, N;
          do
            {
              tpb = rng.coin() ? 2 : 4;
              tbpb = variant == 0 ? 2 : rng.range(1, 3);
              ntbuckets = variant == 0 ? rng.range(2, 4) : rng.range(1, 4);
              N = tpb * tbpb * ntbuckets;
            // (an even number of blocks, at least 4: with 2 blocks the fan of a crystal contains crystals of its own block, for
            //  which BlockData3D has no cell: known finding of property C20, block-norm:fan-holds-two-crystals-of-one-block)
          } while (N < 8 || N > 32 || (N / tpb) % 2 != 0 || N / tpb < 4);
          static const int axial[][3] = { { 1, 2, 2 }, { 1, 1, 2 }, { 2, 1, 1 }, { 1, 2, 1 }, { 2, 2, 1 }, { 2, 1, 2 }, { 1, 1, 3 } };
          const int* ax = axial[variant == 0 ? rng.range(0, 1) : rng.range(0, 6)];
          const int apb = ax[0], abpb = ax[1], Rr = ax[0] * ax[1] * ax[2];
          int nt = std::max(3, std::min(N / 2 - 1, 2 * rng.range(1, 3) + 1));
          if (variant == 1 && rng.coin())
            nt = std::max(2, nt - 1);
          shared_ptr<Scanner> sc = block_scanner(N, Rr, tpb, apb, -1, abpb, tbpb);
          shared_ptr<ProjDataInfo> pdi = vh::make_pdi(sc, 1, Rr - 1, N / 2, nt, false, 0);
          std::ostringstream d;
          d << "nonTOF N=" << N << " R=" << Rr << " span=1 views=" << N / 2 << " tang=" << nt << " blocks=" << tpb << "x" << apb
            << " blocks-per-bucket=" << tbpb << "x" << abpb << " buckets=" << sc->get_num_transaxial_buckets() << "x"
            << sc->get_num_axial_buckets();
          R.set_geometry(sc, pdi, d.str());
          const int tab = R.add_table(false);
          const int h7 = R.add_components_hand(7, "bucket");
          R.add_components_hand(2, "bucket");
          R.add_components_hand(rng.coin() ? 4 : 5, "bucket");
          const int c7 = R.add_components(7, 0);
          R.add_chain(h7, tab);
          R.add_chain(-1, c7);
          for (std::size_t k = 0; k < R.cases.size(); ++k)
            R.run_case(static_cast<int>(k));
          comp_setup_case(R);
        }
      // ------------------------------------------------------------------ G: the set-up state is checked on use, every class
      {
        Runner R(rng, thorough);
        const int tpb = 2;
        const int N = tpb * 2 * rng.range(2, 3);
        const int Rr = rng.range(2, 3);
        const int nt = 3;
        shared_ptr<Scanner> sc = block_scanner(N, Rr, tpb, 1, 5);
        shared_ptr<ProjDataInfo> big = vh::make_pdi(sc, 1, Rr - 1, N / 2, nt, false, 0);
        shared_ptr<ProjDataInfo> small = vh::make_pdi(sc, 1, 0, N / 2, nt, false, 0);
        shared_ptr<ProjDataInfo> tofbig = vh::make_pdi(sc, 1, Rr - 1, N / 2, nt, false, 1);
        std::ostringstream d;
        d << "use-checks N=" << N << " R=" << Rr << " span=1 views=" << N / 2 << " tang=" << nt << " big=" << big->get_num_segments()
          << " segments, small=1 segment, tof=" << tofbig->get_num_tof_poss() << " positions";
        R.set_geometry(sc, big, d.str());
        shared_ptr<ExamInfo> exam = R.g.exam;
        // both with exactly one time frame (TimeFrameDefinitions::operator== only looks at the frames of its left operand and
        // throws std::out_of_range if the right one has fewer: comparing lists of different length is not what is tested here)
        {
          TimeFrameDefinitions tf;
          tf.set_num_time_frames(1);
          tf.set_time_frame(1, 0., 10.);
          exam->set_time_frame_definitions(tf);
        }
        shared_ptr<ExamInfo> other_exam(new ExamInfo(*exam));
        {
          TimeFrameDefinitions tf;
          tf.set_num_time_frames(1);
          tf.set_time_frame(1, 0., 20.);
          other_exam->set_time_frame_definitions(tf);
        }
        shared_ptr<PD> factors = R.random_positive_pd(big, 0.5F, 2.F);
        shared_ptr<PD> table = R.random_positive_pd(big, 0.5F, 2.F);
        shared_ptr<VoxelsOnCartesianGrid<float>> mu = vh::make_image(*big, 1.F, 5, -1);
        for (auto it = mu->begin_all(); it != mu->end_all(); ++it)
          *it = R.rnd(0.02F, 0.3F);
        std::vector<float> effs(static_cast<std::size_t>(N) * Rr);
        for (float& e : effs)
          e = R.rnd(0.5F, 2.F);
        typedef std::function<shared_ptr<BinNormalisation>()> Factory;
        Factory make_fpd = [&]() { return shared_ptr<BinNormalisation>(new BinNormalisationFromProjData(factors)); };
        Factory make_table = [&]() { return shared_ptr<BinNormalisation>(new TableNorm(table)); };
        Factory make_atten = [&]() {
          shared_ptr<ProjMatrixByBinUsingRayTracing> pm(new ProjMatrixByBinUsingRayTracing);
          pm->set_do_symmetry_90degrees_min_phi(false);
          pm->set_do_symmetry_180degrees_min_phi(false);
          pm->set_do_symmetry_swap_segment(false);
          pm->set_do_symmetry_swap_s(false);
          pm->set_do_symmetry_shift_z(false);
          shared_ptr<ForwardProjectorByBin> fwd(new ForwardProjectorByBinUsingProjMatrixByBin(pm));
          shared_ptr<const DiscretisedDensity<3, float>> mu_c(mu);
          return shared_ptr<BinNormalisation>(new BinNormalisationFromAttenuationImage(mu_c, fwd));
        };
        Factory make_comp = [&]() {
          shared_ptr<BinNormalisationPETFromComponents> n(new BinNormalisationPETFromComponents);
          n->allocate(big, true, false, false);
          DetectorEfficiencies& e = n->crystal_efficiencies();
          std::size_t i = 0;
          for (int r = e.get_min_index(); r <= e.get_max_index(); ++r)
            for (int dd = e[r].get_min_index(); dd <= e[r].get_max_index(); ++dd)
              e[r][dd] = effs[i++];
          return shared_ptr<BinNormalisation>(n);
        };
        Factory make_triv = [&]() { return shared_ptr<BinNormalisation>(new TrivialBinNormalisation); };
        auto ge = [](const shared_ptr<ProjDataInfo>& S, const shared_ptr<ProjDataInfo>& D) { return !S || (*S >= *D); };
        auto leaf = [&](const char* tag, const shared_ptr<ProjDataInfo>& S, const shared_ptr<ProjDataInfo>& D) {
          return std::string(tag) + (S ? " 1 " : " 0 ") + (ge(S, D) ? "1" : "0");
        };
        // one use: both routes; expectation 1 accept, 0 refuse, -1 none (correspondence only); `ref`: values to compare with
        auto use = [&](const BinNormalisation& n, const std::string& expr, const shared_ptr<ProjDataInfo>& D,
                       const shared_ptr<ExamInfo>& data_exam, int expect_rv, int expect_whole, const std::string& what,
                       std::vector<float>* keep, const std::vector<float>* ref) {
          for (int whole = 0; whole < 2; ++whole)
            {
              std::vector<float> vals;
              const int r = try_use(n, D, data_exam, whole != 0, vals);
              if (whole)
                op("use2 whole " + std::string(*exam == *data_exam ? "1 " : "0 ") + expr, r == 1 ? "ok" : (r == 0 ? "err" : "mixed"));
              else
                op("use2 rv " + expr, r == 1 ? "ok" : (r == 0 ? "err" : "mixed"));
              const int expect = whole ? expect_whole : expect_rv;
              ++g_checks;
              if (r < 0)
                oracle_fail("undo and apply disagree about accepting the data: " + what);
              else if (expect >= 0 && r != expect)
                oracle_fail(what + (whole ? " (whole data) " : " (related viewgrams) ") + (r ? "was accepted" : "was refused"));
              if (r == 1 && ref)
                {
                  ++g_checks;
                  bool same = vals.size() == ref->size();
                  for (std::size_t i = 0; same && i < vals.size(); ++i)
                    same = close_rel(vals[i], (*ref)[i], 1e-5);
                  if (!same)
                    oracle_fail(what + (whole ? " (whole data)" : " (related viewgrams)")
                                + ": result differs from that of an object set up for exactly the geometry of the data");
                }
              if (r == 1 && keep && !whole)
                *keep = vals;
            }
        };
        struct K
        {
          const char* name;
          Factory make;
          const char* tag;
        } kinds[] = { { "BinNormalisationFromProjData", make_fpd, "B" },
                      { "BinNormalisation (base class, table)", make_table, "B" },
                      { "BinNormalisationFromAttenuationImage", make_atten, "B" },
                      { "BinNormalisationPETFromComponents", make_comp, "B" },
                      { "TrivialBinNormalisation", make_triv, "T" } };
        for (auto& kd : kinds)
          {
            const bool triv = std::string(kd.tag) == "T";
            const std::string nm(kd.name);
            shared_ptr<BinNormalisation> fresh = kd.make(), on_big = kd.make(), on_small = kd.make();
            ++g_checks;
            bool su = false;
            try
              {
                su = on_big->set_up(exam, big) == Succeeded::yes && on_small->set_up(exam, small) == Succeeded::yes;
              }
            catch (...)
              {}
            if (!su)
              {
                oracle_fail("set_up failed for a compatible geometry: " + nm);
                continue;
              }
            shared_ptr<ProjDataInfo> none;
            std::vector<float> ref_small;
            use(*fresh, leaf(kd.tag, none, big), big, exam, triv ? 1 : 0, 0, nm + " that was never set up", nullptr, nullptr);
            use(*on_small, leaf(kd.tag, small, small), small, exam, 1, 1, nm + " set up for the geometry of the data", &ref_small, nullptr);
            use(*on_big, leaf(kd.tag, big, big), big, exam, 1, 1, nm + " set up for the geometry of the data", nullptr, nullptr);
            use(*on_big, leaf(kd.tag, big, small), small, exam, 1, 1, nm + " set up with more segments than the data", nullptr,
                ref_small.empty() ? nullptr : &ref_small);
            use(*on_small, leaf(kd.tag, small, big), big, exam, triv ? 1 : 0, 0, nm + " set up with fewer segments than the data", nullptr,
                nullptr);
            use(*on_big, leaf(kd.tag, big, tofbig), tofbig, exam, -1, -1, nm + " set up for non-TOF data, used on TOF data", nullptr, nullptr);
            use(*on_big, leaf(kd.tag, big, big), big, other_exam, 1, 0, nm + " used on data with another time frame (ExamInfo differs)",
                nullptr, nullptr);
          }
        // chains: related viewgrams are checked by the members only, whole data by the chain itself first
        {
          shared_ptr<ProjDataInfo> none;
          auto set = [&](const shared_ptr<BinNormalisation>& n, const shared_ptr<ProjDataInfo>& S) {
            try
              {
                n->set_up(exam, S);
              }
            catch (...)
              {}
            return n;
          };
          std::vector<float> ref_small;
          {
            shared_ptr<BinNormalisation> ch(new ChainedBinNormalisation(make_table(), make_fpd()));
            set(ch, small);
            use(*ch, "C 1 1 " + leaf("B", small, small) + " " + leaf("B", small, small), small, exam, 1, 1,
                "chain set up for the geometry of the data", &ref_small, nullptr);
            use(*ch, "C 1 0 " + leaf("B", small, big) + " " + leaf("B", small, big), big, exam, 0, 0,
                "chain set up with fewer segments than the data", nullptr, nullptr);
          }
          {
            shared_ptr<BinNormalisation> ch(new ChainedBinNormalisation(make_table(), make_fpd()));
            set(ch, big);
            use(*ch, "C 1 1 " + leaf("B", big, small) + " " + leaf("B", big, small), small, exam, 1, 1,
                "chain set up with more segments than the data", nullptr, ref_small.empty() ? nullptr : &ref_small);
          }
          {
            shared_ptr<BinNormalisation> ch(new ChainedBinNormalisation(set(make_table(), big), set(make_fpd(), big)));
            use(*ch, "C 0 1 " + leaf("B", big, big) + " " + leaf("B", big, big), big, exam, 1, 0,
                "chain never set up whose members were set up one by one", nullptr, nullptr);
          }
          {
            shared_ptr<BinNormalisation> ch(new ChainedBinNormalisation(set(make_table(), big), make_fpd()));
            use(*ch, "C 0 1 " + leaf("B", big, big) + " " + leaf("B", none, big), big, exam, 0, 0,
                "chain never set up with a member that was never set up", nullptr, nullptr);
          }
          {
            ChainedBinNormalisation ch;
            use(ch, "C 0 1 N N", big, exam, 1, 0, "empty chain never set up", nullptr, nullptr);
          }
          {
            shared_ptr<BinNormalisation> inner(new ChainedBinNormalisation(set(make_comp(), big), shared_ptr<BinNormalisation>()));
            shared_ptr<BinNormalisation> ch(new ChainedBinNormalisation(inner, set(make_triv(), small)));
            use(*ch, "C 0 1 C 0 1 " + leaf("B", big, big) + " N " + leaf("T", small, big), big, exam, 1, 0,
                "nested chain never set up whose non-null members were set up one by one", nullptr, nullptr);
          }
        }
        atten_setup_case(R);
        comp_setup_case(R);
      }
      // ------------------------------------------------------------------ I: histories on one object
      hist_components(rng, thorough);
      hist_calib(rng, thorough);
      hist_from_proj_data(rng, thorough);
      hist_atten(rng, thorough);
      hist_chain(rng, thorough);
      // ------------------------------------------------------------------ J: non-square voxels, analytic chord lengths
      atten_analytic(rng, thorough, round);
      // ------------------------------------------------------------------ K: one object through constructors, parse and set_up
      hist_parse_fpd(rng, thorough);
      hist_parse_atten(rng, thorough);
      hist_parse_chain(rng, thorough);
    }
  for (const std::string& f : g_files_to_remove)
    std::remove(f.c_str());

  std::fprintf(g_orc, "ORACLE-DONE checks=%ld fails=%ld\n", g_checks, g_fails);
  std::fclose(g_ops);
  std::fclose(g_out);
  std::fclose(g_orc);
  return 0;
}
