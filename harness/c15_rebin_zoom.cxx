// C15 — implementation side: rebinning (SSRB) and resampling (overlap_interpolate, zoom_image, centre of gravity,
// inverse_SSRB, extend_segment) on the real STIR API.
// Usage: c15_rebin_zoom <seed> <quick|thorough> <opsfile> <implfile>
//
// Line protocol (one answer line per operation line; floats as C99 hex, tagged "f:"):
//   cfg N R T views minTang maxTang tofMash minTof maxTof minSeg seg...   (seg = minRD,maxRD,numAx)   -> ok
//   ssrbinfo kSeg kView trim maxSeg kTof        -> segs <minSeg> : a,b,c ... | views V | tang lo hi | tof mash lo hi     or err
//   ssrbphi off samp Vin kView                  -> f:off f:samp
//   ev d1 r1 d2 r2 t w                          -> s v a tp t   or none          (adds w counts)
//   ssrbdata norm                               -> n | s v a tp t val ; ...      or err
//                                                  (also answered a second time from the file written by SSRB(output_filename, ...))
//   invssrb minTof maxTof rs3 rs4 | seg3 | minSeg4 seg4... | view/tang ranges of both | every bin of the direct sinograms
//                                               -> every bin of the 4D data, or no (incompatible ranges) or err; see run_inverse_ssrb
//   ext segnum views kn kd | ...                see run_extend (azimuthal sampling kn/kd * pi/views: 180, 360 degrees and others)
//   ov1 / ovit / zoom / cog                     see the zoom section (zoom 3d|2d|out|pl: one call with 3-D parameters, transaxial call,
//                                                  two-step call on a given output grid, transaxial two-step call on one plane)
// Round 3: DEGENERATE requests are generated on purpose: run_zoom_degenerate (per axis zoom exactly 1 with offset 0 / != 0, offsets along one
// axis only, same / other size, every variant incl. re-used outputs), run_overlap_1d / run_zoom_viewgram with degen >= 0,
// run_ssrb_identity_like (identity-like SSRB settings one at a time), gen_degenerate_cfg (single segment / single axial position).
//   zvg out|inpl|rel | ...                      zoom_viewgram (both overloads) / zoom_viewgrams on arc-corrected viewgrams; see run_zoom_viewgram
// Round 4: REAL predefined scanners (run_real_scanner: true numbers of rings and ring spacings, span 1 / GE mixed span / an odd span / clipped
// ring differences, few views and tangential positions) and generated scanners with NON-DYADIC ring spacings, 2..64 rings, every span
// (run_ssrb_nondyadic; gen_in_cfg now draws the ring spacing too) through run_ssrb_on_geometry; new operations
//   ssrbm rs                                    -> per output segment f:m_first f:m_last f:axial_sampling (mm; after every ssrbinfo)
//   voxsize rs binsize fov seg0 | zz zy zx | sz sy sx -> zmin ymin xmin nz ny nx f:vz f:vy f:vx   (run_voxel_sizes: grid sizes derived from zooms)
// and oracles: a legal SSRB(ProjDataInfo...) request is served; every input axial position has an output axial position with the same m.
// Calls that are undefined behaviour on some revisions of the library (2-D-parameter zoom_image of an image whose first plane is not 0,
// inverse_SSRB on incompatible data) are made in a forked child process, so that a crash is a verdict and not the end of the run.
#include "stir_fixtures.h"
#include "common.h"
#include "stir/Bin.h"
#include "stir/DetectionPositionPair.h"
#include "stir/ProjDataInfoCylindricalNoArcCorr.h"
#include "stir/ProjDataInfoCylindricalArcCorr.h"
#include "stir/ProjDataInMemory.h"
#include "stir/ProjData.h"
#include "stir/Viewgram.h"
#include "stir/RelatedViewgrams.h"
#include "stir/ViewSegmentNumbers.h"
#include "stir/TrivialDataSymmetriesForViewSegmentNumbers.h"
#include "stir/recon_buildblock/DataSymmetriesForBins_PET_CartesianGrid.h"
#include "stir/ExamInfo.h"
#include "stir/SSRB.h"
#include "stir/inverse_SSRB.h"
#include "stir/extend_projdata.h"
#include "stir/Sinogram.h"
#include "stir/SegmentBySinogram.h"
#include "stir/Succeeded.h"
#include "stir/zoom.h"
#include "stir/ZoomOptions.h"
#include "stir/centre_of_gravity.h"
#include "stir/numerics/overlap_interpolate.h"
#include "stir/VoxelsOnCartesianGrid.h"
#include "stir/PixelsOnCartesianGrid.h"
#include "stir/IndexRange3D.h"
#include "stir/Array.h"
#include <algorithm>
#include <cmath>
#include <map>
#include <set>
#include <array>
#include <tuple>
#include <functional>
#include <cstring>
#include <ctime>
#include <unistd.h>
#include <fcntl.h>
#include <sys/wait.h>
#include <sys/stat.h>

using namespace stir;

static FILE *ops, *out, *orc;
static long oracle_checks = 0, oracle_fails = 0, known_hits = 0, n_ops = 0, n_out = 0;

static std::map<std::string, std::vector<std::string>> fails_by_kind;
static std::vector<std::string> kinds_in_order;

static void
oracle_fail(const std::string& text)
{
  ++oracle_fails;
  // collected by kind of failure (kind = the first two words) and written at the end, see write_oracle_fails
  const std::size_t sp1 = text.find(' ');
  const std::size_t sp2 = sp1 == std::string::npos ? sp1 : text.find(' ', sp1 + 1);
  const std::string kind = text.substr(0, sp2);
  if (!fails_by_kind.count(kind))
    kinds_in_order.push_back(kind);
  std::vector<std::string>& v = fails_by_kind[kind];
  if (v.size() < 6)
    v.push_back(text);
}

// the first failure of every kind, then the second of every kind, ...: no kind hides another in the first lines (at most 60 lines)
static void
write_oracle_fails()
{
  int printed = 0;
  for (std::size_t round = 0; round < 6; ++round)
    for (const std::string& kind : kinds_in_order)
      if (round < fails_by_kind[kind].size() && printed < 60)
        {
          ++printed;
          std::fprintf(orc, "ORACLE-FAIL %s\n", fails_by_kind[kind][round].c_str());
        }
}

static std::string
F(double x)
{
  return "f:" + vh::hex(x);
}

typedef std::array<int, 5> BinKey; // seg view ax tang tof

static std::string scratch_dir; // for the files written by SSRB(output_filename, ...); removed at the end
static long n_children = 0, n_files = 0;

// runs f in a forked child process and collects the string it returns.  0: returned normally, 1: threw, 2: crashed / killed / timed out
static int
run_in_child(const std::function<std::string()>& f, std::string& result)
{
  ++n_children;
  std::fflush(ops), std::fflush(out), std::fflush(orc);
  result.clear();
  int fd[2];
  if (pipe(fd) != 0)
    return 2;
  const pid_t pid = fork();
  if (pid < 0)
    {
      close(fd[0]), close(fd[1]);
      return 2;
    }
  if (pid == 0)
    {
      close(fd[0]);
      alarm(60);
      { // the messages of a crashing child are not part of the verdict
        const int nul = open("/dev/null", O_WRONLY);
        if (nul >= 0)
          dup2(nul, 2);
      }
      std::string r;
      int code = 0;
      try
        {
          r = f();
        }
      catch (...)
        {
          code = 1;
        }
      std::size_t off = 0;
      while (off < r.size())
        {
          const ssize_t n = write(fd[1], r.data() + off, r.size() - off);
          if (n <= 0)
            break;
          off += static_cast<std::size_t>(n);
        }
      close(fd[1]);
      _exit(code);
    }
  close(fd[1]);
  char buf[1 << 16];
  ssize_t n;
  while ((n = read(fd[0], buf, sizeof buf)) > 0)
    result.append(buf, static_cast<std::size_t>(n));
  close(fd[0]);
  int st = 0;
  waitpid(pid, &st, 0);
  if (WIFEXITED(st) && WEXITSTATUS(st) == 0)
    return 0;
  if (WIFEXITED(st) && WEXITSTATUS(st) == 1)
    return 1;
  return 2;
}

// ---------------------------------------------------------------------------------------------- SSRB

static std::string
geom_str(const ProjDataInfoCylindrical& p)
{
  std::ostringstream s;
  s << "segs " << p.get_min_segment_num() << " :";
  for (int sg = p.get_min_segment_num(); sg <= p.get_max_segment_num(); ++sg)
    s << " " << p.get_min_ring_difference(sg) << "," << p.get_max_ring_difference(sg) << "," << p.get_num_axial_poss(sg);
  s << " | views " << p.get_num_views() << " | tang " << p.get_min_tangential_pos_num() << " " << p.get_max_tangential_pos_num()
    << " | tof " << p.get_tof_mash_factor() << " " << p.get_min_tof_pos_num() << " " << p.get_max_tof_pos_num();
  return s.str();
}

static void
print_cfg(const ProjDataInfoCylindrical& p)
{
  const Scanner& sc = *p.get_scanner_ptr();
  std::ostringstream s;
  s << "cfg " << sc.get_num_detectors_per_ring() << " " << sc.get_num_rings() << " " << (sc.is_tof_ready() ? sc.get_max_num_timing_poss() : 0)
    << " " << p.get_num_views() << " " << p.get_min_tangential_pos_num() << " " << p.get_max_tangential_pos_num() << " "
    << p.get_tof_mash_factor() << " " << p.get_min_tof_pos_num() << " " << p.get_max_tof_pos_num() << " " << p.get_min_segment_num();
  for (int sg = p.get_min_segment_num(); sg <= p.get_max_segment_num(); ++sg)
    s << " " << p.get_min_ring_difference(sg) << "," << p.get_max_ring_difference(sg) << "," << p.get_num_axial_poss(sg);
  ++n_ops, std::fprintf(ops, "%s\n", s.str().c_str());
  ++n_out, std::fprintf(out, "ok\n");
}

static bool
bin_in_range(const ProjDataInfo& p, const Bin& b)
{
  return b.segment_num() >= p.get_min_segment_num() && b.segment_num() <= p.get_max_segment_num()
         && b.axial_pos_num() >= p.get_min_axial_pos_num(b.segment_num()) && b.axial_pos_num() <= p.get_max_axial_pos_num(b.segment_num())
         && b.view_num() >= p.get_min_view_num() && b.view_num() <= p.get_max_view_num()
         && b.tangential_pos_num() >= p.get_min_tangential_pos_num() && b.tangential_pos_num() <= p.get_max_tangential_pos_num()
         && b.timing_pos_num() >= p.get_min_tof_pos_num() && b.timing_pos_num() <= p.get_max_tof_pos_num();
}

// class of input geometries of the C01 known finding (ringpairs:outermost-segment-clipped-to-single-ring-difference-of-odd-parity):
// a segment holding ONE ring difference d whose axial positions are "shifted with respect to the physical rings"
// ((d - ax_pos_num_offset) odd: exactly the condition of the library's own warning in initialise_ring_diff_arrays)
static bool
is_shifted_single_rd_segment(const ProjDataInfoCylindrical& p, int s)
{
  if (s < p.get_min_segment_num() || s > p.get_max_segment_num())
    return false;
  if (p.get_min_ring_difference(s) != p.get_max_ring_difference(s))
    return false;
  const int R = p.get_scanner_ptr()->get_num_rings();
  const int off = (R - 1) - (p.get_num_axial_poss(s) - 1);
  return (p.get_min_ring_difference(s) - off) % 2 != 0;
}

// all non-zero bins of `d` (geometry `info`), sorted
static std::vector<std::pair<BinKey, float>>
nonzero_bins(const ProjData& d, const ProjDataInfo& info)
{
  std::vector<std::pair<BinKey, float>> nz;
  for (int sg = info.get_min_segment_num(); sg <= info.get_max_segment_num(); ++sg)
    for (int a = info.get_min_axial_pos_num(sg); a <= info.get_max_axial_pos_num(sg); ++a)
      for (int t = info.get_min_tof_pos_num(); t <= info.get_max_tof_pos_num(); ++t)
        {
          const Sinogram<float> sino = d.get_sinogram(a, sg, false, t);
          for (int v = sino.get_min_view_num(); v <= sino.get_max_view_num(); ++v)
            for (int tp = sino.get_min_tangential_pos_num(); tp <= sino.get_max_tangential_pos_num(); ++tp)
              if (sino[v][tp] != 0)
                nz.push_back(std::make_pair(BinKey{ sg, v, a, tp, t }, sino[v][tp]));
        }
  std::sort(nz.begin(), nz.end());
  return nz;
}

static std::string
bins_answer(const std::vector<std::pair<BinKey, float>>& nz, bool norm)
{
  std::ostringstream s;
  s << nz.size() << " |";
  for (auto& e : nz)
    {
      s << " " << e.first[0] << " " << e.first[1] << " " << e.first[2] << " " << e.first[3] << " " << e.first[4] << " ";
      if (norm)
        s << F(e.second);
      else
        s << static_cast<long>(e.second);
      s << " ;";
    }
  return s.str();
}

struct SsrbParams
{
  int kSeg, kView, trim, maxSeg, kTof;
};

// fills `in_data` from seeded detector-pair events (through the real get_bin_for_det_pos_pair), runs the real SSRB on it,
// prints the correspondence lines and evaluates the property oracle
static void
run_ssrb_data(const shared_ptr<const ProjDataInfoCylindricalNoArcCorr>& in,
              const shared_ptr<const ProjDataInfoCylindricalNoArcCorr>& outinfo,
              const SsrbParams& prm,
              vh::Rng& rng,
              int nevents,
              bool also_norm,
              bool file_variant)
{
  const Scanner& sc = *in->get_scanner_ptr();
  const int N = sc.get_num_detectors_per_ring(), R = sc.get_num_rings();
  const int T = sc.is_tof_ready() ? sc.get_max_num_timing_poss() : 0;
  shared_ptr<ExamInfo> ei(new ExamInfo);
  ProjDataInMemory din(ei, in), dout(ei, outinfo), dout_norm(ei, outinfo);
  // detector pairs are histogrammed with COPIES of the two geometries: get_bin_for_det_pos_pair builds (lazily) detector tables of
  // N/2 x N entries inside the geometry object, and every get_empty_sinogram of the library clones the geometry with these tables
  // (a real scanner has N = 400..800: a second per few thousand sinograms)
  const shared_ptr<ProjDataInfo> in_h_base(in->clone()), out_h_base(outinfo->clone());
  const ProjDataInfoCylindricalNoArcCorr* const in_h = dynamic_cast<const ProjDataInfoCylindricalNoArcCorr*>(in_h_base.get());
  const ProjDataInfoCylindricalNoArcCorr* const out_h = dynamic_cast<const ProjDataInfoCylindricalNoArcCorr*>(out_h_base.get());
  std::map<std::array<int, 3>, Sinogram<float>> sinos; // (seg, ax, tof) -> sinogram being filled
  struct Ev
  {
    DetectionPositionPair<> dp;
    Bin inbin;
    int w;
    bool affected; // histogrammed into / destined for a "shifted" single-ring-difference segment (class of the known finding)
  };
  std::vector<Ev> evs;
  std::map<std::array<int, 3>, Sinogram<float>> sinos_u; // the same data without the affected events
  long total_in = 0;
  const bool big_geometry = N > 40 || R > 12;
  const int tang_reach = std::max(std::abs(in->get_min_tangential_pos_num()), std::abs(in->get_max_tangential_pos_num())) + 1;
  const int rd_reach = std::min(R - 1, in->get_max_ring_difference(in->get_max_segment_num()) + 1);
  for (int e = 0; e < nevents; ++e)
    {
      DetectionPositionPair<> dp;
      int d1 = rng.range(0, N - 1), d2 = rng.range(0, N - 1);
      if (d1 == d2)
        d2 = (d2 + 1 + rng.range(0, N - 2)) % N;
      int r1 = rng.range(0, R - 1), r2 = rng.range(0, R - 1);
      if (big_geometry)
        {
          // (round 4) real scanners with a reduced number of tangential positions / a clipped ring difference: aim at the ranges of the
          // geometry (a little beyond, so that rejected pairs stay part of the stream)
          if (rng.range(0, 7) != 0)
            d2 = ((d1 + N / 2 + rng.range(-tang_reach, tang_reach)) % N + N) % N;
          if (d1 == d2)
            d2 = (d1 + N / 2) % N;
          if (rng.range(0, 7) != 0)
            r2 = std::min(R - 1, std::max(0, r1 + rng.range(-rd_reach, rd_reach)));
          if (rng.range(0, 3) == 0) // the ends of the axial range: the first / last axial positions of the segments
            {
              const int d = r2 - r1;
              r1 = rng.coin() ? std::max(0, -d) : R - 1 - std::max(0, d);
              r2 = r1 + d;
            }
        }
      const int t = in->get_tof_mash_factor() == 0 ? 0 : rng.range(-(T / 2) - (rng.range(0, 9) == 0 ? 1 : 0), T / 2);
      const int w = rng.range(1, 3);
      dp.pos1().tangential_coord() = d1;
      dp.pos1().axial_coord() = r1;
      dp.pos2().tangential_coord() = d2;
      dp.pos2().axial_coord() = r2;
      dp.timing_pos() = t;
      Bin b;
      const bool ok = in_h->get_bin_for_det_pos_pair(b, dp) == Succeeded::yes && bin_in_range(*in, b);
      ++n_ops, std::fprintf(ops, "ev %d %d %d %d %d %d\n", d1, r1, d2, r2, t, w);
      if (!ok)
        {
          ++n_out, std::fprintf(out, "none\n");
          continue;
        }
      ++n_out, std::fprintf(out, "%d %d %d %d %d\n", b.segment_num(), b.view_num(), b.axial_pos_num(), b.tangential_pos_num(), b.timing_pos_num());
      std::array<int, 3> key = { b.segment_num(), b.axial_pos_num(), b.timing_pos_num() };
      auto it = sinos.find(key);
      if (it == sinos.end())
        it = sinos.insert(std::make_pair(key, din.get_empty_sinogram(b.axial_pos_num(), b.segment_num(), false, b.timing_pos_num()))).first;
      it->second[b.view_num()][b.tangential_pos_num()] += w;
      total_in += w;
      bool affected = is_shifted_single_rd_segment(*in, b.segment_num());
      {
        Bin bo;
        if (out_h->get_bin_for_det_pos_pair(bo, dp) == Succeeded::yes && is_shifted_single_rd_segment(*outinfo, bo.segment_num()))
          affected = true;
      }
      if (!affected)
        {
          auto iu = sinos_u.find(key);
          if (iu == sinos_u.end())
            iu = sinos_u.insert(std::make_pair(key, din.get_empty_sinogram(b.axial_pos_num(), b.segment_num(), false, b.timing_pos_num()))).first;
          iu->second[b.view_num()][b.tangential_pos_num()] += w;
        }
      evs.push_back({ dp, b, w, affected });
    }
  for (auto& kv : sinos)
    din.set_sinogram(kv.second);

  // (round 4) class of the finding `ssrb:m-tolerance-below-float-precision-on-scanners-longer-than-1m`: SSRB(out, in) tests "same axial
  // position" as fabs(out_m - in_m) < 1E-4 mm on the float get_m() = axial_pos * sampling - offset; where these products reach 1024 mm a
  // float ulp is 1.2E-4 mm and input sinograms find no output sinogram: their counts are silently dropped (repair: docs/fixes/C15-4.diff).
  // For geometries of that class the call is first made on the side: if it LOSES counts and does nothing else wrong (every bin it
  // fills holds what direct histogramming with the output geometry gives), the case is reported under the stable key and not compared
  // with the model (which is exact in m); otherwise -- in particular with the repair -- it goes through the comparison and the oracles below.
  {
    auto reach = [](const ProjDataInfoCylindricalNoArcCorr& q) {
      float r = 0;
      for (int sg = q.get_min_segment_num(); sg <= q.get_max_segment_num(); ++sg)
        r = std::max(r, q.get_num_axial_poss(sg) * q.get_axial_sampling(sg));
      return r;
    };
    if (std::max(reach(*in), reach(*outinfo)) >= 1024.F)
      {
        // (on the data without the events of the other known class, the shifted single-ring-difference segments: SSRB is additive)
        ProjDataInMemory probe(ei, outinfo), din_u(ei, in);
        for (auto& kv : sinos_u)
          din_u.set_sinogram(kv.second);
        bool threw = false;
        try
          {
            SSRB(probe, din_u, false);
          }
        catch (...)
          {
            threw = true;
          }
        if (!threw)
          {
            std::map<BinKey, long> expect;
            for (auto& e : evs)
              {
                Bin b;
                if (e.affected || out_h->get_bin_for_det_pos_pair(b, e.dp) != Succeeded::yes || !bin_in_range(*outinfo, b))
                  continue;
                expect[BinKey{ b.segment_num(), b.view_num(), b.axial_pos_num(), b.tangential_pos_num(), b.timing_pos_num() }] += e.w;
              }
            long lost = 0, kept = 0;
            bool only_losses = true;
            std::map<BinKey, long> got;
            for (auto& e : nonzero_bins(probe, *outinfo))
              got[e.first] = static_cast<long>(e.second);
            for (auto& kv : got)
              {
                auto it = expect.find(kv.first);
                if (it == expect.end() || it->second != kv.second)
                  only_losses = false;
                else
                  kept += kv.second;
              }
            for (auto& kv : expect)
              if (!got.count(kv.first))
                lost += kv.second;
            if (lost > 0 && only_losses)
              {
                ++oracle_checks, ++oracle_fails;
                static bool reported = false;
                if (!reported)
                  std::fprintf(orc,
                               "KNOWN-CANDIDATE ssrb:m-tolerance-below-float-precision-on-scanners-longer-than-1m SSRB(out, in) drops input "
                               "sinograms on scanners whose axial positions reach 1024 mm (axial_pos * axial_sampling): the test "
                               "fabs(out_m - in_m) < 1E-4 is below the precision of the float get_m() there; first case: scanner %s, %d rings, "
                               "ring spacing %g mm, in{%s} out{%s} kSeg=%d: %ld of %ld counts lost, every bin that is filled is right "
                               "(repair: docs/fixes/C15-4.diff)\n",
                               sc.get_name().c_str(), R, sc.get_ring_spacing(), geom_str(*in).substr(0, 200).c_str(), geom_str(*outinfo).substr(0, 200).c_str(),
                               prm.kSeg, lost, lost + kept);
                reported = true;
                return;
              }
          }
      }
  }

  std::vector<std::pair<BinKey, float>> nz_mem[2];
  bool have_mem[2] = { false, false };
  for (int norm = 0; norm <= (also_norm ? 1 : 0); ++norm)
    {
      ProjDataInMemory& d = norm ? dout_norm : dout;
      ++n_ops, std::fprintf(ops, "ssrbdata %d\n", norm);
      bool threw = false;
      try
        {
          SSRB(d, din, norm != 0);
        }
      catch (...)
        {
          threw = true;
        }
      if (threw)
        {
          ++n_out, std::fprintf(out, "err\n");
          if (!norm)
            return;
          continue; // (not reached in practice: the errors of SSRB(out, in) do not depend on do_norm)
        }
      const std::vector<std::pair<BinKey, float>> nz = nonzero_bins(d, *outinfo);
      ++n_out, std::fprintf(out, "%s\n", bins_answer(nz, norm != 0).c_str());
      nz_mem[norm] = nz;
      have_mem[norm] = true;

      // ORACLE: identity-like settings must be the identity: nothing combined (segments, views, TOF bins), nothing trimmed ->
      // every processed sinogram comes back bin by bin (also with do_norm: the normalisation factor is 1)
      if (prm.kSeg == 1 && prm.kView == 1 && prm.trim == 0 && prm.kTof == 1 && outinfo->get_num_views() == in->get_num_views()
          && outinfo->get_min_tangential_pos_num() == in->get_min_tangential_pos_num()
          && outinfo->get_max_tangential_pos_num() == in->get_max_tangential_pos_num())
        {
          std::vector<std::pair<BinKey, float>> expect_id;
          for (auto& e : nonzero_bins(din, *in))
            if (std::abs(e.first[0]) <= outinfo->get_max_segment_num())
              expect_id.push_back(e);
          ++oracle_checks;
          if (expect_id != nz)
            oracle_fail("SSRB with identity settings (1 segment, 1 view, 1 TOF bin to combine, nothing trimmed; do_norm=" + std::to_string(norm)
                        + ") does not give back the input data: " + std::to_string(expect_id.size()) + " non-zero bins in, " + std::to_string(nz.size())
                        + " out; in{" + geom_str(*in) + "} out{" + geom_str(*outinfo) + "} maxSeg=" + std::to_string(prm.maxSeg));
        }

      if (norm)
        continue;
      // ---------------- ORACLE (property statement on the implementation)
      // (1) histogramming at the coarse sampling == histogramming finely and then rebinning
      std::map<BinKey, long> expect;
      long expect_total = 0;
      for (auto& e : evs)
        {
          Bin b;
          if (out_h->get_bin_for_det_pos_pair(b, e.dp) != Succeeded::yes || !bin_in_range(*outinfo, b))
            continue;
          expect[BinKey{ b.segment_num(), b.view_num(), b.axial_pos_num(), b.tangential_pos_num(), b.timing_pos_num() }] += e.w;
          expect_total += e.w;
        }
      std::map<BinKey, long> got;
      long got_total = 0;
      for (auto& e : nz)
        {
          got[e.first] = static_cast<long>(e.second);
          got_total += static_cast<long>(e.second);
        }
      ++oracle_checks;
      auto first_difference = [](const std::map<BinKey, long>& ex, const std::map<BinKey, long>& gt) {
        std::ostringstream m;
        for (auto& kv : ex)
          {
            auto it = gt.find(kv.first);
            if (it == gt.end() || it->second != kv.second)
              {
                m << "bin " << kv.first[0] << " " << kv.first[1] << " " << kv.first[2] << " " << kv.first[3] << " " << kv.first[4] << " expected " << kv.second
                  << " got " << (it == gt.end() ? 0 : it->second);
                return m.str();
              }
          }
        for (auto& kv : gt)
          if (!ex.count(kv.first))
            {
              m << "bin " << kv.first[0] << " " << kv.first[1] << " " << kv.first[2] << " " << kv.first[3] << " " << kv.first[4] << " expected 0 got " << kv.second;
              return m.str();
            }
        return m.str();
      };
      const std::string where = "N=" + std::to_string(N) + " R=" + std::to_string(R) + " in{" + geom_str(*in) + "} out{" + geom_str(*outinfo)
                                + "} kSeg=" + std::to_string(prm.kSeg) + " kView=" + std::to_string(prm.kView) + " trim=" + std::to_string(prm.trim)
                                + " maxSeg=" + std::to_string(prm.maxSeg) + " kTof=" + std::to_string(prm.kTof);
      if (expect != got)
        {
          // Is the difference due to the events of the known class only?  SSRB is additive in the data: rebin the data WITHOUT the affected
          // events; for those the statement is demanded without exception.
          bool any_affected = false;
          std::map<BinKey, long> expect_u, got_u;
          for (auto& e : evs)
            {
              if (e.affected)
                {
                  any_affected = true;
                  continue;
                }
              Bin b;
              if (out_h->get_bin_for_det_pos_pair(b, e.dp) != Succeeded::yes || !bin_in_range(*outinfo, b))
                continue;
              expect_u[BinKey{ b.segment_num(), b.view_num(), b.axial_pos_num(), b.tangential_pos_num(), b.timing_pos_num() }] += e.w;
            }
          bool unaffected_ok = any_affected;
          if (any_affected)
            {
              ProjDataInMemory din_u(ei, in), dout_u(ei, outinfo);
              for (auto& kv : sinos_u)
                din_u.set_sinogram(kv.second);
              SSRB(dout_u, din_u, false);
              for (int sg = outinfo->get_min_segment_num(); sg <= outinfo->get_max_segment_num(); ++sg)
                for (int a = outinfo->get_min_axial_pos_num(sg); a <= outinfo->get_max_axial_pos_num(sg); ++a)
                  for (int t = outinfo->get_min_tof_pos_num(); t <= outinfo->get_max_tof_pos_num(); ++t)
                    {
                      const Sinogram<float> sino = dout_u.get_sinogram(a, sg, false, t);
                      for (int v = sino.get_min_view_num(); v <= sino.get_max_view_num(); ++v)
                        for (int tp = sino.get_min_tangential_pos_num(); tp <= sino.get_max_tangential_pos_num(); ++tp)
                          if (sino[v][tp] != 0)
                            got_u[BinKey{ sg, v, a, tp, t }] = static_cast<long>(sino[v][tp]);
                    }
              unaffected_ok = expect_u == got_u;
            }
          if (any_affected && unaffected_ok)
            {
              ++oracle_fails;
              if (known_hits++ == 0)
                std::fprintf(orc,
                             "KNOWN-CANDIDATE ssrb:ringpairs:outermost-segment-clipped-to-single-ring-difference-of-odd-parity consequence of the C01 "
                             "finding of the same name: a segment holding ONE ring difference d with (d - ax_pos_num_offset) odd (4 rings, span 3, "
                             "max_delta 2: segment 1 = ring difference 2 with 3 axial positions at m = -1,0,1 ring spacings; the library only warns "
                             "'LORs shifted') has no axial position at the m of its ring pairs; get_bin_for_det_pos_pair puts rings (0,2) "
                             "(m = -0.5) into (segment 1, ax 0) whose get_m is -1, SSRB with num_segments_to_combine 3 moves that sinogram by get_m "
                             "to output (segment 0, ax 1) while the output geometry assigns the pair to (segment 0, ax 2): histogram-then-SSRB "
                             "differs from histogramming with the output geometry, counts end up half a ring spacing away; first case: %s: %s\n",
                             where.c_str(), first_difference(expect, got).c_str());
            }
          else if (any_affected)
            oracle_fail("SSRB does not commute with detector-pair binning (data without the events of the known shifted-segment class): " + where
                        + ": " + first_difference(expect_u, got_u));
          else
            oracle_fail("SSRB does not commute with detector-pair binning: " + where + ": " + first_difference(expect, got));
        }
      // (2) total counts conserved when no range is trimmed
      const bool seg_all = outinfo->get_min_ring_difference(outinfo->get_min_segment_num()) <= in->get_min_ring_difference(in->get_min_segment_num())
                           && outinfo->get_max_ring_difference(outinfo->get_max_segment_num())
                                  >= in->get_max_ring_difference(in->get_max_segment_num());
      const bool tang_all = outinfo->get_min_tangential_pos_num() <= in->get_min_tangential_pos_num()
                            && outinfo->get_max_tangential_pos_num() >= in->get_max_tangential_pos_num();
      const bool tof_all = in->get_tof_mash_factor() == 0
                           || (outinfo->get_tof_mash_factor() > 0
                               && in->get_num_tof_poss() * in->get_tof_mash_factor() == outinfo->get_num_tof_poss() * outinfo->get_tof_mash_factor());
      ++oracle_checks;
      if (seg_all && tang_all && tof_all && got_total != total_in)
        oracle_fail("SSRB without trimming does not conserve the total: in=" + std::to_string(total_in) + " out=" + std::to_string(got_total)
                    + " in{" + geom_str(*in) + "} out{" + geom_str(*outinfo) + "}");
      ++oracle_checks;
      if (got_total > total_in)
        oracle_fail("SSRB creates counts: in=" + std::to_string(total_in) + " out=" + std::to_string(got_total));
      // (3) physical positions: the bin holding an event has the same m, the mean azimuthal angle and the mean TOF position
      for (auto& e : evs)
        {
          Bin b;
          if (out_h->get_bin_for_det_pos_pair(b, e.dp) != Succeeded::yes || !bin_in_range(*outinfo, b))
            continue;
          if (!got.count(BinKey{ b.segment_num(), b.view_num(), b.axial_pos_num(), b.tangential_pos_num(), b.timing_pos_num() }))
            continue; // already reported by (1)
          ++oracle_checks;
          const float m_in = in->get_m(e.inbin), m_out = outinfo->get_m(b);
          const int kv = in->get_num_views() / outinfo->get_num_views();
          double phi_mean = 0;
          for (int j = 0; j < kv; ++j)
            phi_mean += in->get_phi(Bin(0, b.view_num() * kv + j, 0, 0)) / kv;
          const float phi_out = outinfo->get_phi(b);
          const bool phi_ok = prm.kView != kv /* illegal kView (not a divisor): offset is computed from the argument */
                              || std::fabs(phi_out - phi_mean) < 1e-4;
          const bool s_ok = std::fabs(in->get_s(e.inbin) - outinfo->get_s(b)) < 1e-4;
          bool k_ok = true;
          if (outinfo->get_tof_mash_factor() > 0 && in->get_tof_mash_factor() > 0)
            k_ok = std::fabs(outinfo->get_k(b) - in->get_k(e.inbin)) <= 0.5 * (outinfo->get_sampling_in_k(b) - in->get_sampling_in_k(e.inbin)) * 1.0001 + 1e-3;
          if ((std::fabs(m_in - m_out) > 1e-3 && !e.affected) || !phi_ok || !k_ok || !s_ok)
            oracle_fail("SSRB moves counts to another physical position: m " + std::to_string(m_in) + "->" + std::to_string(m_out) + " phi mean "
                        + std::to_string(phi_mean) + "->" + std::to_string(phi_out) + " k_ok=" + std::to_string(k_ok) + " in{" + geom_str(*in)
                        + "} out{" + geom_str(*outinfo) + "}");
        }
    }

  // ORACLE (SSRB.h: do_norm "averages"): with one segment per output segment every output sinogram has exactly one contributing input
  // sinogram, so the normalised output is the unnormalised one divided by the number of views combined -- bin by bin
  if (have_mem[0] && have_mem[1] && prm.kSeg == 1 && in->get_num_views() % outinfo->get_num_views() == 0)
    {
      const int kv = in->get_num_views() / outinfo->get_num_views();
      bool ok = nz_mem[0].size() == nz_mem[1].size();
      for (std::size_t i = 0; ok && i < nz_mem[0].size(); ++i)
        ok = nz_mem[0][i].first == nz_mem[1][i].first && std::fabs(nz_mem[1][i].second * kv - nz_mem[0][i].second) <= 1e-6 * nz_mem[0][i].second;
      ++oracle_checks;
      if (!ok)
        oracle_fail("SSRB with do_norm and num_segments_to_combine 1 is not the unnormalised result divided by the number of views combined ("
                    + std::to_string(kv) + "): in{" + geom_str(*in) + "} out{" + geom_str(*outinfo) + "}");
    }

  // ---------------- the overload that computes the output geometry itself and writes an Interfile pair:
  // SSRB(output_filename, in, num_segments_to_combine, num_views_to_combine, num_tang_poss_to_trim, do_norm, max_in_segment_num_to_process,
  //      num_tof_bins_to_combine); the file is read back and answers the same `ssrbdata` operation again
  // (not when a negative trim has widened the tangential range beyond the scanner's maximum number of non-arc-corrected bins: such a
  //  geometry exists in memory but its Interfile header is refused when read back -- a matter of the file format, not of rebinning)
  if (file_variant && have_mem[0] && outinfo->get_num_tangential_poss() <= sc.get_max_num_non_arccorrected_bins())
    {
      const int norm = (have_mem[1] && rng.coin()) ? 1 : 0;
      const std::string base = scratch_dir + "/ssrb" + std::to_string(n_files++);
      ++n_ops, std::fprintf(ops, "ssrbdata %d\n", norm);
      std::string answer = "err";
      bool ok = false;
      try
        {
          SSRB(base, din, prm.kSeg, prm.kView, prm.trim, norm != 0, prm.maxSeg, prm.kTof);
          shared_ptr<ProjData> rd = ProjData::read_from_file(base + ".hs");
          const std::vector<std::pair<BinKey, float>> nzf = nonzero_bins(*rd, *rd->get_proj_data_info_sptr());
          answer = bins_answer(nzf, norm != 0);
          ok = true;
          // ORACLE: same geometry and same bins as the in-memory overload given SSRB(info, ...) of the same arguments
          ++oracle_checks;
          // (TOF data mashed into a single TOF bin come back from the Interfile header as non-TOF data: a matter of the file format (C02),
          //  not of rebinning; the mashing factor is therefore compared only when there are several TOF bins)
          auto rinfo = dynamic_pointer_cast<const ProjDataInfoCylindrical>(rd->get_proj_data_info_sptr());
          auto io_geom = [](const ProjDataInfoCylindrical& q) {
            std::string g = geom_str(q);
            if (q.get_num_tof_poss() == 1)
              g = g.substr(0, g.find(" | tof ")) + " | tof single";
            return g;
          };
          const bool same_tof_kind = rinfo && rinfo->get_tof_mash_factor() == outinfo->get_tof_mash_factor();
          if (!rinfo || io_geom(*rinfo) != io_geom(*outinfo) || (same_tof_kind && !(*rd->get_proj_data_info_sptr() == *outinfo)))
            oracle_fail("SSRB(output_filename, ...) writes another geometry than SSRB(ProjDataInfo, ...) of the same arguments: file{"
                        + (rinfo ? geom_str(*rinfo) : std::string("not cylindrical")) + "} expected{" + geom_str(*outinfo) + "} kSeg=" + std::to_string(prm.kSeg)
                        + " kView=" + std::to_string(prm.kView) + " trim=" + std::to_string(prm.trim) + " maxSeg=" + std::to_string(prm.maxSeg)
                        + " kTof=" + std::to_string(prm.kTof));
          ++oracle_checks;
          if (nzf != nz_mem[norm])
            oracle_fail("SSRB(output_filename, ..., do_norm=" + std::to_string(norm) + ") differs from SSRB(out, in, do_norm) on the same data: "
                        + std::to_string(nzf.size()) + " vs " + std::to_string(nz_mem[norm].size()) + " non-zero bins; in{" + geom_str(*in) + "} kSeg="
                        + std::to_string(prm.kSeg) + " kView=" + std::to_string(prm.kView) + " trim=" + std::to_string(prm.trim)
                        + " maxSeg=" + std::to_string(prm.maxSeg) + " kTof=" + std::to_string(prm.kTof));
        }
      catch (...)
        {
        }
      if (!ok)
        {
          ++oracle_checks;
          oracle_fail("SSRB(output_filename, ...) fails (or its file cannot be read back) although SSRB(out, in) succeeds on the same arguments: in{"
                      + geom_str(*in) + "}");
        }
      ++n_out, std::fprintf(out, "%s\n", answer.c_str());
      std::remove((base + ".hs").c_str());
      std::remove((base + ".s").c_str());
    }
}

static bool reads_missing_segment(const ProjDataInfoCylindricalNoArcCorr& in, const SsrbParams& p);

static shared_ptr<ProjDataInfoCylindricalNoArcCorr>
run_ssrb_info(const shared_ptr<const ProjDataInfoCylindricalNoArcCorr>& in, const SsrbParams& p)
{
  ++n_ops, std::fprintf(ops, "ssrbinfo %d %d %d %d %d\n", p.kSeg, p.kView, p.trim, p.maxSeg, p.kTof);
  shared_ptr<ProjDataInfoCylindricalNoArcCorr> outinfo;
  try
    {
      shared_ptr<ProjDataInfo> o(SSRB(*in, p.kSeg, p.kView, p.trim, p.maxSeg, p.kTof));
      outinfo = dynamic_pointer_cast<ProjDataInfoCylindricalNoArcCorr>(o);
      if (outinfo)
        outinfo->get_m(Bin(0, 0, 0, 0)); // forces initialise_ring_diff_arrays (its error() is part of the contract)
    }
  catch (...)
    {
      outinfo.reset();
    }
  if (!outinfo)
    {
      ++n_out, std::fprintf(out, "err\n");
      // ORACLE (round 4): a LEGAL request must be served.  Legal: odd num_segments_to_combine whose groups consist of segments the input
      // has, a number of views to combine that leaves at least one view, fewer tangential positions trimmed than there are, a maximum
      // segment the input has, TOF bins left alone.  (For such requests the m-range of every group is a whole number of output samples:
      // theorem C15_ssrb_axial_count_exact; an `error` here means that the float bookkeeping of the axial positions went wrong.)
      const int max_in = p.maxSeg >= 0 ? p.maxSeg : in->get_max_segment_num();
      const bool legal = p.kSeg >= 1 && p.kSeg % 2 == 1 && p.kView >= 1 && p.kView <= in->get_num_views() && p.trim < in->get_num_tangential_poss()
                         && max_in <= in->get_max_segment_num() && (max_in - p.kSeg / 2) >= 0 && !reads_missing_segment(*in, p) && p.kTof == 1
                         && in->get_min_segment_num() == -in->get_max_segment_num();
      ++oracle_checks;
      if (legal)
        oracle_fail("SSRB(ProjDataInfo, ...) refuses a legal request (ring spacing " + std::to_string(in->get_ring_spacing()) + " mm): in{"
                    + geom_str(*in) + "} kSeg=" + std::to_string(p.kSeg) + " kView=" + std::to_string(p.kView) + " trim=" + std::to_string(p.trim)
                    + " maxSeg=" + std::to_string(p.maxSeg) + " kTof=" + std::to_string(p.kTof));
      return outinfo;
    }
  ++n_out, std::fprintf(out, "%s\n", geom_str(*outinfo).c_str());
  // (round 4) the axial grid of every output segment in millimetres: m of the first and of the last axial position and the axial sampling,
  // against the model's exact value (quarter ring spacings x the exact binary32 ring spacing)
  {
    std::ostringstream a;
    for (int sg = outinfo->get_min_segment_num(); sg <= outinfo->get_max_segment_num(); ++sg)
      a << (sg == outinfo->get_min_segment_num() ? "" : " ") << F(outinfo->get_m(Bin(sg, 0, outinfo->get_min_axial_pos_num(sg), 0))) << " "
        << F(outinfo->get_m(Bin(sg, 0, outinfo->get_max_axial_pos_num(sg), 0))) << " " << F(outinfo->get_axial_sampling(sg));
    ++n_ops, std::fprintf(ops, "ssrbm %s\n", vh::hex(in->get_ring_spacing()).c_str());
    ++n_out, std::fprintf(out, "%s\n", a.str().c_str());
  }
  // ORACLE (round 4; "total counts are conserved when no range is trimmed", "puts the counts ... into the bin that the output geometry
  // assigns"): SSRB(out, in) moves sinograms by their m.  So every axial position of every input segment of the group of an output segment
  // must have an output axial position with the same m, and the output grid must end where the input positions end -- otherwise
  // sinograms are dropped (or output sinograms stay empty) whatever the data are.
  if (p.kSeg >= 1 && p.kSeg % 2 == 1)
    {
      std::string bad;
      long nbad = 0;
      const float tol = 1e-3F;
      for (int os = outinfo->get_min_segment_num(); os <= outinfo->get_max_segment_num(); ++os)
        {
          const float samp = outinfo->get_axial_sampling(os);
          const int oa0 = outinfo->get_min_axial_pos_num(os), oa1 = outinfo->get_max_axial_pos_num(os);
          const float m0 = outinfo->get_m(Bin(os, 0, oa0, 0)), m1 = outinfo->get_m(Bin(os, 0, oa1, 0));
          float in_lo = 1e30F, in_hi = -1e30F;
          for (int is = os * p.kSeg - p.kSeg / 2; is <= os * p.kSeg + p.kSeg / 2; ++is)
            {
              if (is < in->get_min_segment_num() || is > in->get_max_segment_num())
                continue;
              for (int ia = in->get_min_axial_pos_num(is); ia <= in->get_max_axial_pos_num(is); ++ia)
                {
                  const float m = in->get_m(Bin(is, 0, ia, 0));
                  in_lo = std::min(in_lo, m), in_hi = std::max(in_hi, m);
                  const int oa = oa0 + static_cast<int>(std::lround((m - m0) / samp));
                  const bool found = oa >= oa0 && oa <= oa1 && std::fabs(outinfo->get_m(Bin(os, 0, oa, 0)) - m) < tol;
                  if (!found && nbad++ == 0)
                    bad = "input (segment " + std::to_string(is) + ", axial position " + std::to_string(ia) + ", m " + std::to_string(m)
                          + ") has no axial position with that m in output segment " + std::to_string(os) + " (" + std::to_string(oa1 - oa0 + 1)
                          + " positions, m " + std::to_string(m0) + " .. " + std::to_string(m1) + ", sampling " + std::to_string(samp) + ")";
                }
            }
          if (in_lo <= in_hi && (std::fabs(in_lo - m0) > tol || std::fabs(in_hi - m1) > tol) && nbad++ == 0)
            bad = "output segment " + std::to_string(os) + " spans m " + std::to_string(m0) + " .. " + std::to_string(m1) + " but its input segments span "
                  + std::to_string(in_lo) + " .. " + std::to_string(in_hi);
        }
      ++oracle_checks;
      if (nbad)
        oracle_fail("SSRB(ProjDataInfo, ...) axial grid of an output segment does not match the m of its input sinograms (" + std::to_string(nbad)
                    + " positions; their counts cannot be rebinned): " + bad + "; ring spacing " + std::to_string(in->get_ring_spacing()) + " mm ("
                    + vh::hex(in->get_ring_spacing()) + "), " + std::to_string(in->get_scanner_ptr()->get_num_rings()) + " rings, scanner "
                    + in->get_scanner_ptr()->get_name() + "; in{" + geom_str(*in).substr(0, 400) + "} kSeg=" + std::to_string(p.kSeg)
                    + " maxSeg=" + std::to_string(p.maxSeg));
    }
  // ORACLE: identity-like settings are the identity, one argument at a time: whatever the other arguments are,
  // num_segments_to_combine = 1 keeps every (processed) segment as it is, num_views_to_combine = 1 keeps the views and their angles,
  // num_tang_poss_to_trim = 0 keeps the (centred) tangential range, num_tof_bins_to_combine = 1 keeps the TOF bins
  {
    std::string bad;
    if (p.kSeg == 1)
      {
        const int want_max = p.maxSeg >= 0 ? p.maxSeg : in->get_max_segment_num();
        if (outinfo->get_max_segment_num() != want_max || outinfo->get_min_segment_num() != -want_max)
          bad += " segment range " + std::to_string(outinfo->get_min_segment_num()) + ".." + std::to_string(outinfo->get_max_segment_num());
        else
          for (int sg = -want_max; sg <= want_max; ++sg)
            if (outinfo->get_min_ring_difference(sg) != in->get_min_ring_difference(sg) || outinfo->get_max_ring_difference(sg) != in->get_max_ring_difference(sg)
                || outinfo->get_min_axial_pos_num(sg) != in->get_min_axial_pos_num(sg) || outinfo->get_max_axial_pos_num(sg) != in->get_max_axial_pos_num(sg)
                || std::fabs(outinfo->get_m(Bin(sg, 0, outinfo->get_min_axial_pos_num(sg), 0)) - in->get_m(Bin(sg, 0, in->get_min_axial_pos_num(sg), 0))) > 1e-4)
              bad += " segment " + std::to_string(sg);
      }
    if (p.kView == 1)
      {
        if (outinfo->get_num_views() != in->get_num_views() || outinfo->get_min_view_num() != in->get_min_view_num()
            || outinfo->get_view_mashing_factor() != in->get_view_mashing_factor()
            || std::fabs(outinfo->get_azimuthal_angle_offset() - in->get_azimuthal_angle_offset()) > 1e-6
            || std::fabs(outinfo->get_azimuthal_angle_sampling() - in->get_azimuthal_angle_sampling()) > 1e-6 * in->get_azimuthal_angle_sampling())
          bad += " views";
      }
    const bool centred = in->get_min_tangential_pos_num() == -(in->get_num_tangential_poss() / 2);
    if (p.trim == 0 && centred)
      {
        if (outinfo->get_min_tangential_pos_num() != in->get_min_tangential_pos_num() || outinfo->get_max_tangential_pos_num() != in->get_max_tangential_pos_num())
          bad += " tangential range";
      }
    if (p.kTof == 1)
      {
        if (outinfo->get_tof_mash_factor() != in->get_tof_mash_factor() || outinfo->get_min_tof_pos_num() != in->get_min_tof_pos_num()
            || outinfo->get_max_tof_pos_num() != in->get_max_tof_pos_num())
          bad += " TOF bins";
      }
    if (std::fabs(outinfo->get_s(Bin(0, 0, 0, 1)) - in->get_s(Bin(0, 0, 0, 1))) > 1e-4 || outinfo->get_ring_spacing() != in->get_ring_spacing())
      bad += " tangential / axial sampling";
    ++oracle_checks;
    if (!bad.empty())
      oracle_fail("SSRB(ProjDataInfo, ...) changes a part of the geometry whose argument is at its identity value (num_segments_to_combine 1 / "
                  "num_views_to_combine 1 / num_tang_poss_to_trim 0 / num_tof_bins_to_combine 1):" + bad + ": in{" + geom_str(*in) + "} out{" + geom_str(*outinfo)
                  + "} kSeg=" + std::to_string(p.kSeg) + " kView=" + std::to_string(p.kView) + " trim=" + std::to_string(p.trim)
                  + " maxSeg=" + std::to_string(p.maxSeg) + " kTof=" + std::to_string(p.kTof));
  }
  ++n_ops, std::fprintf(ops, "ssrbphi %s %s %d %d\n", vh::hex(in->get_azimuthal_angle_offset()).c_str(), vh::hex(in->get_azimuthal_angle_sampling()).c_str(),
               in->get_num_views(), p.kView);
  ++n_out, std::fprintf(out, "%s %s\n", F(outinfo->get_azimuthal_angle_offset()).c_str(), F(outinfo->get_azimuthal_angle_sampling()).c_str());
  return outinfo;
}

static std::vector<int>
divisors(int n)
{
  std::vector<int> d;
  for (int k = 1; k <= n; ++k)
    if (n % k == 0)
      d.push_back(k);
  return d;
}


// ---------------------------------------------------------------------------------------------- overlap_interpolate / zoom

static float
rand_value(vh::Rng& rng, bool allow_negative)
{
  const int kind = rng.range(0, 5);
  float v = kind == 0 ? 0.F : (kind == 1 ? static_cast<float>(rng.range(1, 9)) : static_cast<float>(rng.unit() * 10));
  if (allow_negative && rng.range(0, 2) == 0)
    v = -v;
  return v;
}

static float
rand_zoom(vh::Rng& rng)
{
  const float nice[] = { 1.F, 2.F, .5F, 1.5F, 3.F, 1.F / 3.F, .75F, 1.25F, .3F, 2.5F, 2.2F, .6F }; // (round 4: 2.2, 0.6)
  if (rng.range(0, 2) == 0)
    return nice[rng.range(0, 11)];
  return static_cast<float>(0.3 + rng.unit() * 2.7);
}

// 1-D: overlap_interpolate(VectorWithOffset) and the iterator version
// degen < 0: random requests; degen >= 0: the DEGENERATE requests in turn: degen % 4 = 0: zoom 1, offset 0; 1: zoom 1, offset a whole number of
// boxes; 2: zoom 1, any offset; 3: zoom != 1, offset 0; (degen / 4) % 2 = 0: the same index range for input and output, 1: another one
static void
run_overlap_1d(vh::Rng& rng, const int degen = -1)
{
  const int imin = rng.range(-5, 2), ilen = rng.range(1, 9);
  int omin = rng.range(-6, 3), olen = rng.range(1, 10);
  float zoom = rand_zoom(rng);
  const int ok = rng.range(0, 3);
  float offset = ok == 0 ? 0.F : (ok == 1 ? (rng.coin() ? .5F : -.5F) : static_cast<float>(rng.unit() * 6 - 3));
  if (degen >= 0)
    {
      zoom = degen % 4 == 3 ? (zoom == 1.F ? 1.5F : zoom) : 1.F;
      offset = degen % 4 == 1 ? static_cast<float>((rng.coin() ? 1 : -1) * rng.range(1, 3)) : (degen % 4 == 2 ? offset : 0.F);
      if ((degen / 4) % 2 == 0)
        omin = imin, olen = ilen;
      else if (omin == imin && olen == ilen)
        ++olen;
    }
  const bool assign = rng.range(0, 4) != 0;
  const bool nonneg = rng.coin();
  const bool uniform = rng.range(0, 4) == 0;
  Array<1, float> in(imin, imin + ilen - 1), outv(omin, omin + olen - 1);
  const float c = static_cast<float>(1 + rng.unit() * 5);
  for (int i = in.get_min_index(); i <= in.get_max_index(); ++i)
    in[i] = uniform ? c : rand_value(rng, !nonneg);
  for (int i = outv.get_min_index(); i <= outv.get_max_index(); ++i)
    outv[i] = rand_value(rng, true);
  std::ostringstream o;
  o << "ov1 " << (assign ? 1 : 0) << " " << vh::hex(zoom) << " " << vh::hex(offset) << " " << omin << " " << imin << " |";
  for (int i = outv.get_min_index(); i <= outv.get_max_index(); ++i)
    o << " " << vh::hex(outv[i]);
  o << " |";
  for (int i = in.get_min_index(); i <= in.get_max_index(); ++i)
    o << " " << vh::hex(in[i]);
  ++n_ops, std::fprintf(ops, "%s\n", o.str().c_str());
  Array<1, float> res(outv);
  overlap_interpolate(res, in, zoom, offset, assign);
  std::ostringstream a;
  for (int i = res.get_min_index(); i <= res.get_max_index(); ++i)
    a << (i == res.get_min_index() ? "" : " ") << F(res[i]);
  ++n_out, std::fprintf(out, "%s\n", a.str().c_str());

  // same request through the iterator version with explicit box boundaries
  Array<1, float> in_coords(in.get_min_index(), in.get_max_index() + 1), out_coords(outv.get_min_index(), outv.get_max_index() + 1);
  for (int i = in_coords.get_min_index(); i <= in_coords.get_max_index(); ++i)
    in_coords[i] = i - .5F;
  for (int i = out_coords.get_min_index(); i <= out_coords.get_max_index(); ++i)
    out_coords[i] = (i - .5F) / zoom + offset;
  Array<1, float> res2(outv);
  {
    std::ostringstream q;
    q << "ovit 0 " << (assign ? 1 : 0) << " |";
    for (int i = out_coords.get_min_index(); i <= out_coords.get_max_index(); ++i)
      q << " " << vh::hex(out_coords[i]);
    q << " |";
    for (int i = in_coords.get_min_index(); i <= in_coords.get_max_index(); ++i)
      q << " " << vh::hex(in_coords[i]);
    q << " |";
    for (int i = in.get_min_index(); i <= in.get_max_index(); ++i)
      q << " " << vh::hex(in[i]);
    q << " |";
    for (int i = outv.get_min_index(); i <= outv.get_max_index(); ++i)
      q << " " << vh::hex(outv[i]);
    ++n_ops, std::fprintf(ops, "%s\n", q.str().c_str());
  }
  overlap_interpolate(res2.begin(), res2.end(), out_coords.begin(), out_coords.end(), in.begin(), in.end(), in_coords.begin(), in_coords.end(), false, assign);
  {
    std::ostringstream q;
    for (int i = res2.get_min_index(); i <= res2.get_max_index(); ++i)
      q << (i == res2.get_min_index() ? "" : " ") << F(res2[i]);
    ++n_out, std::fprintf(out, "%s\n", q.str().c_str());
  }
  if (!assign)
    return;
  // ---------------- ORACLE
  double sum_in = 0, abs_in = 0, max_in = 0, sum_out = 0, mom_in = 0, mom_out = 0;
  for (int i = in.get_min_index(); i <= in.get_max_index(); ++i)
    {
      sum_in += in[i];
      abs_in += std::fabs(in[i]);
      max_in = std::max<double>(max_in, std::fabs(in[i]));
      mom_in += static_cast<double>(in[i]) * i;
    }
  for (int i = res.get_min_index(); i <= res.get_max_index(); ++i)
    {
      sum_out += res[i];
      mom_out += static_cast<double>(res[i]) * (static_cast<double>(i) / zoom + offset);
    }
  const double out_left = (omin - .5) / zoom + offset, out_right = (omin + olen - .5) / zoom + offset;
  // extent of the object (non-zero input)
  int first_nz = in.get_max_index() + 1, last_nz = in.get_min_index() - 1;
  for (int i = in.get_min_index(); i <= in.get_max_index(); ++i)
    if (in[i] != 0)
      {
        first_nz = std::min(first_nz, i);
        last_nz = std::max(last_nz, i);
      }
  const bool covers = first_nz > last_nz || (out_left <= first_nz - .5 + 1e-6 && out_right >= last_nz + .5 - 1e-6);
  ++oracle_checks;
  if (covers && std::fabs(sum_out - sum_in) > 1e-4 * abs_in + 1e-30)
    oracle_fail("overlap_interpolate does not conserve the sum although the new grid covers the data: zoom=" + vh::hex(zoom) + " offset="
                + vh::hex(offset) + " in=[" + std::to_string(imin) + "," + std::to_string(imin + ilen - 1) + "] out=[" + std::to_string(omin)
                + "," + std::to_string(omin + olen - 1) + "] sum " + std::to_string(sum_in) + " -> " + std::to_string(sum_out));
  if (covers && nonneg && sum_in > 0)
    {
      ++oracle_checks;
      if (std::fabs(mom_out / sum_out - mom_in / sum_in) > 0.5 * (1 + 1 / zoom) + 1e-4)
        oracle_fail("overlap_interpolate moves the centre of mass by more than half the sum of the box sizes: zoom=" + vh::hex(zoom) + " offset="
                    + vh::hex(offset) + " com " + std::to_string(mom_in / sum_in) + " -> " + std::to_string(mom_out / sum_out));
    }
  if (uniform)
    for (int i = res.get_min_index(); i <= res.get_max_index(); ++i)
      {
        const double l = (i - .5) / zoom + offset, r = (i + .5) / zoom + offset;
        if (l >= imin - .5 + 1e-5 && r <= imin + ilen - .5 - 1e-5)
          {
            ++oracle_checks;
            if (std::fabs(res[i] * zoom - c) > 1e-4 * c)
              oracle_fail("overlap_interpolate of uniform data is not uniform (value*zoom != c): zoom=" + vh::hex(zoom) + " offset=" + vh::hex(offset)
                          + " i=" + std::to_string(i) + " value=" + std::to_string(res[i]) + " c=" + std::to_string(c));
          }
      }
  // zoom exactly 1 and an offset of a whole number of boxes: the values are copied, box i of the result is box i + offset of the input
  if (zoom == 1.F && offset == std::floor(offset))
    {
      const int sh = static_cast<int>(offset);
      bool ok = true;
      for (int i = res.get_min_index(); i <= res.get_max_index(); ++i)
        {
          const int j = i + sh;
          const float expect = (j >= in.get_min_index() && j <= in.get_max_index()) ? in[j] : 0.F;
          if (std::fabs(res[i] - expect) > 1e-5 * max_in)
            ok = false;
        }
      ++oracle_checks;
      if (!ok)
        oracle_fail("overlap_interpolate with zoom 1 and an offset of a whole number of boxes does not copy the values: offset=" + vh::hex(offset) + " in=["
                    + std::to_string(imin) + "," + std::to_string(imin + ilen - 1) + "] out=[" + std::to_string(omin) + "," + std::to_string(omin + olen - 1) + "]");
    }
  // the two implementations agree (the iterator version drops overlaps below 1e-4 of a box).
  // Not compared when all input lies left of the output: the iterator version then returns without zeroing the output
  // (overlap_interpolate.inl:55-61) although assign_rest_with_zeroes is set -- reported, not part of C15.
  if (out_coords[out_coords.get_min_index()] < in_coords[in_coords.get_max_index()])
  for (int i = res.get_min_index(); i <= res.get_max_index(); ++i)
    {
      ++oracle_checks;
      if (std::fabs(res[i] - res2[i]) > 3e-4 * max_in * std::max(1.F, 1 / zoom) + 1e-30)
        oracle_fail("VectorWithOffset and iterator versions of overlap_interpolate disagree: zoom=" + vh::hex(zoom) + " offset=" + vh::hex(offset)
                    + " i=" + std::to_string(i) + " " + std::to_string(res[i]) + " vs " + std::to_string(res2[i]));
    }
}

// iterator version with arbitrary (strictly increasing) box boundaries
static void
run_overlap_iter(vh::Rng& rng)
{
  const int nin = rng.range(1, 8), nout = rng.range(1, 8);
  const bool only_add = rng.range(0, 3) == 0, assign = rng.range(0, 3) != 0;
  std::vector<float> ic(nin + 1), oc(nout + 1), in(nin), o0(nout);
  float x = static_cast<float>(rng.range(-4, 4)) + (rng.coin() ? 0.F : static_cast<float>(rng.unit()));
  for (int i = 0; i <= nin; ++i)
    {
      ic[i] = x;
      x += rng.coin() ? static_cast<float>(rng.range(1, 3)) * .5F : static_cast<float>(0.2 + rng.unit() * 2);
    }
  x = static_cast<float>(rng.range(-6, 6)) + (rng.coin() ? 0.F : static_cast<float>(rng.unit()));
  for (int i = 0; i <= nout; ++i)
    {
      oc[i] = x;
      x += rng.coin() ? static_cast<float>(rng.range(1, 3)) * .5F : static_cast<float>(0.2 + rng.unit() * 2);
    }
  const bool nonneg = rng.coin();
  for (auto& v : in)
    v = rand_value(rng, !nonneg);
  for (auto& v : o0)
    v = rand_value(rng, true);
  std::ostringstream q;
  q << "ovit " << (only_add ? 1 : 0) << " " << (assign ? 1 : 0) << " |";
  for (float v : oc)
    q << " " << vh::hex(v);
  q << " |";
  for (float v : ic)
    q << " " << vh::hex(v);
  q << " |";
  for (float v : in)
    q << " " << vh::hex(v);
  q << " |";
  for (float v : o0)
    q << " " << vh::hex(v);
  ++n_ops, std::fprintf(ops, "%s\n", q.str().c_str());
  std::vector<float> res(o0);
  overlap_interpolate(res.begin(), res.end(), oc.begin(), oc.end(), in.begin(), in.end(), ic.begin(), ic.end(), only_add, assign);
  std::ostringstream a;
  for (std::size_t i = 0; i < res.size(); ++i)
    a << (i ? " " : "") << F(res[i]);
  ++n_out, std::fprintf(out, "%s\n", a.str().c_str());
  // ORACLE: conservation when the output boxes cover the input boxes
  if (!only_add && assign && oc.front() <= ic.front() && oc.back() >= ic.back())
    {
      double si = 0, so = 0, ai = 0, mi = 0, mo = 0;
      float maxbox = 0;
      for (int i = 0; i < nin; ++i)
        {
          si += static_cast<double>(in[i]) * (ic[i + 1] - ic[i]);
          ai += std::fabs(static_cast<double>(in[i]) * (ic[i + 1] - ic[i]));
          mi += static_cast<double>(in[i]) * (ic[i + 1] - ic[i]) * (ic[i + 1] + ic[i]) / 2;
          maxbox = std::max(maxbox, ic[i + 1] - ic[i]);
        }
      float maxobox = 0;
      for (int i = 0; i < nout; ++i)
        {
          so += res[i];
          mo += static_cast<double>(res[i]) * (oc[i + 1] + oc[i]) / 2;
          maxobox = std::max(maxobox, oc[i + 1] - oc[i]);
        }
      ++oracle_checks;
      if (std::fabs(si - so) > 3e-4 * ai + 1e-30)
        oracle_fail("iterator overlap_interpolate does not conserve the integral although the output boxes cover the input: " + std::to_string(si) + " -> "
                    + std::to_string(so) + " op: " + q.str());
      if (nonneg && si > 0)
        {
          ++oracle_checks;
          if (std::fabs(mo / so - mi / si) > 0.5 * (maxbox + maxobox) + 1e-3)
            oracle_fail("iterator overlap_interpolate moves the centre of mass by more than half the sum of the largest boxes: op: " + q.str());
        }
    }
}

struct ImgGeom
{
  int zmin, ymin, xmin, nz, ny, nx;
  float vz, vy, vx, oz, oy, ox;
};

static ImgGeom
geom_of(const VoxelsOnCartesianGrid<float>& im)
{
  ImgGeom g;
  g.zmin = im.get_min_z();
  g.ymin = im.get_min_y();
  g.xmin = im.get_min_x();
  g.nz = im.get_z_size();
  g.ny = im.get_y_size();
  g.nx = im.get_x_size();
  g.vz = im.get_voxel_size().z();
  g.vy = im.get_voxel_size().y();
  g.vx = im.get_voxel_size().x();
  g.oz = im.get_origin().z();
  g.oy = im.get_origin().y();
  g.ox = im.get_origin().x();
  return g;
}

static VoxelsOnCartesianGrid<float>
make_img(const ImgGeom& g)
{
  return VoxelsOnCartesianGrid<float>(IndexRange3D(g.zmin, g.zmin + g.nz - 1, g.ymin, g.ymin + g.ny - 1, g.xmin, g.xmin + g.nx - 1),
                                      CartesianCoordinate3D<float>(g.oz, g.oy, g.ox),
                                      CartesianCoordinate3D<float>(g.vz, g.vy, g.vx));
}

static std::string
geom_ops(const ImgGeom& g)
{
  std::ostringstream s;
  s << g.zmin << " " << g.ymin << " " << g.xmin << " " << g.nz << " " << g.ny << " " << g.nx << " " << vh::hex(g.vz) << " " << vh::hex(g.vy) << " "
    << vh::hex(g.vx) << " " << vh::hex(g.oz) << " " << vh::hex(g.oy) << " " << vh::hex(g.ox);
  return s.str();
}

static std::string
data_ops(const VoxelsOnCartesianGrid<float>& im)
{
  std::ostringstream s;
  for (int z = im.get_min_z(); z <= im.get_max_z(); ++z)
    for (int y = im.get_min_y(); y <= im.get_max_y(); ++y)
      for (int x = im.get_min_x(); x <= im.get_max_x(); ++x)
        s << " " << vh::hex(im[z][y][x]);
  return s.str();
}

static std::string
img_answer(const VoxelsOnCartesianGrid<float>& im)
{
  const ImgGeom g = geom_of(im);
  std::ostringstream s;
  s << "geom " << g.zmin << " " << g.ymin << " " << g.xmin << " " << g.nz << " " << g.ny << " " << g.nx << " " << F(g.vz) << " " << F(g.vy) << " " << F(g.vx)
    << " " << F(g.oz) << " " << F(g.oy) << " " << F(g.ox) << " |";
  for (int z = im.get_min_z(); z <= im.get_max_z(); ++z)
    for (int y = im.get_min_y(); y <= im.get_max_y(); ++y)
      for (int x = im.get_min_x(); x <= im.get_max_x(); ++x)
        s << " " << F(im[z][y][x]);
  return s.str();
}

static double
max_abs(const VoxelsOnCartesianGrid<float>& im)
{
  double m = 0;
  for (auto it = im.begin_all(); it != im.end_all(); ++it)
    m = std::max<double>(m, std::fabs(*it));
  return m;
}

// own centre of mass in mm (double), independent of find_centre_of_gravity_in_mm
static bool
own_com(const VoxelsOnCartesianGrid<float>& im, double com[3], double& total)
{
  double s = 0, mz = 0, my = 0, mx = 0;
  for (int z = im.get_min_z(); z <= im.get_max_z(); ++z)
    for (int y = im.get_min_y(); y <= im.get_max_y(); ++y)
      for (int x = im.get_min_x(); x <= im.get_max_x(); ++x)
        {
          const double v = im[z][y][x];
          s += v;
          mz += v * (static_cast<double>(z) * im.get_voxel_size().z() + im.get_origin().z());
          my += v * (static_cast<double>(y) * im.get_voxel_size().y() + im.get_origin().y());
          mx += v * (static_cast<double>(x) * im.get_voxel_size().x() + im.get_origin().x());
        }
  total = s;
  if (s == 0)
    return false;
  com[0] = mz / s;
  com[1] = my / s;
  com[2] = mx / s;
  return true;
}

// same sizes, voxel sizes, physical position of the first voxel and values (index ranges may differ when the origin compensates)
static bool
images_agree(const VoxelsOnCartesianGrid<float>& a, const VoxelsOnCartesianGrid<float>& b, double rel)
{
  const ImgGeom ga = geom_of(a), gb = geom_of(b);
  if (ga.nz != gb.nz || ga.ny != gb.ny || ga.nx != gb.nx)
    return false;
  if (rel == 0 && (ga.zmin != gb.zmin || ga.ymin != gb.ymin || ga.xmin != gb.xmin))
    return false;
  const double gt = 1e-5;
  if (std::fabs(ga.vz - gb.vz) > gt * ga.vz || std::fabs(ga.vy - gb.vy) > gt * ga.vy || std::fabs(ga.vx - gb.vx) > gt * ga.vx)
    return false;
  const double pz = static_cast<double>(ga.zmin) * ga.vz + ga.oz - (static_cast<double>(gb.zmin) * gb.vz + gb.oz);
  const double py = static_cast<double>(ga.ymin) * ga.vy + ga.oy - (static_cast<double>(gb.ymin) * gb.vy + gb.oy);
  const double px = static_cast<double>(ga.xmin) * ga.vx + ga.ox - (static_cast<double>(gb.xmin) * gb.vx + gb.ox);
  if (std::fabs(pz) > gt * (ga.vz * (1 + ga.nz) + std::fabs(ga.oz)) || std::fabs(py) > gt * (ga.vy * (1 + ga.ny) + std::fabs(ga.oy))
      || std::fabs(px) > gt * (ga.vx * (1 + ga.nx) + std::fabs(ga.ox)))
    return false;
  const double m = std::max(max_abs(a), max_abs(b));
  auto ia = a.begin_all();
  auto ib = b.begin_all();
  for (; ia != a.end_all(); ++ia, ++ib)
    if (std::fabs(*ia - *ib) > rel * m)
      return false;
  return true;
}

// an image as bytes (to bring a result back from a child process)
static std::string
pack_img(const VoxelsOnCartesianGrid<float>& im)
{
  const ImgGeom g = geom_of(im);
  std::string s(reinterpret_cast<const char*>(&g), sizeof g);
  for (int z = im.get_min_z(); z <= im.get_max_z(); ++z)
    for (int y = im.get_min_y(); y <= im.get_max_y(); ++y)
      for (int x = im.get_min_x(); x <= im.get_max_x(); ++x)
        {
          const float v = im[z][y][x];
          s.append(reinterpret_cast<const char*>(&v), sizeof v);
        }
  return s;
}

static bool
unpack_img(const std::string& s, std::size_t& pos, VoxelsOnCartesianGrid<float>& im)
{
  ImgGeom g;
  if (pos + sizeof g > s.size())
    return false;
  std::memcpy(&g, s.data() + pos, sizeof g);
  pos += sizeof g;
  if (g.nz < 0 || g.ny < 0 || g.nx < 0 || g.nz > 64 || g.ny > 64 || g.nx > 64
      || pos + sizeof(float) * static_cast<std::size_t>(g.nz) * g.ny * g.nx > s.size())
    return false;
  im = make_img(g);
  for (int z = im.get_min_z(); z <= im.get_max_z(); ++z)
    for (int y = im.get_min_y(); y <= im.get_max_y(); ++y)
      for (int x = im.get_min_x(); x <= im.get_max_x(); ++x)
        {
          std::memcpy(&im[z][y][x], s.data() + pos, sizeof(float));
          pos += sizeof(float);
        }
  return true;
}

static void
run_cog(const VoxelsOnCartesianGrid<float>& im)
{
  ++n_ops, std::fprintf(ops, "cog | %s |%s\n", geom_ops(geom_of(im)).c_str(), data_ops(im).c_str());
  double com[3], tot;
  const bool ok = own_com(im, com, tot);
  float fsum = im.sum();
  if (fsum == 0)
    {
      ++n_out, std::fprintf(out, "none\n");
      return;
    }
  try
    {
      const CartesianCoordinate3D<float> c = find_centre_of_gravity_in_mm(im);
      ++n_out, std::fprintf(out, "%s %s %s\n", F(c.z()).c_str(), F(c.y()).c_str(), F(c.x()).c_str());
      // ORACLE: the library's centre of gravity is the first moment in physical coordinates (for non-negative data)
      bool nonneg = true;
      for (auto it = im.begin_all(); it != im.end_all(); ++it)
        if (*it < 0)
          nonneg = false;
      if (ok && nonneg)
        {
          ++oracle_checks;
          const double tolz = 1e-4 * (im.get_voxel_size().z() * im.get_z_size() + std::fabs(im.get_origin().z()));
          const double toly = 1e-4 * (im.get_voxel_size().y() * im.get_y_size() + std::fabs(im.get_origin().y()));
          const double tolx = 1e-4 * (im.get_voxel_size().x() * im.get_x_size() + std::fabs(im.get_origin().x()));
          if (std::fabs(c.z() - com[0]) > tolz || std::fabs(c.y() - com[1]) > toly || std::fabs(c.x() - com[2]) > tolx)
            oracle_fail("find_centre_of_gravity_in_mm is not the first moment in mm: (" + std::to_string(c.z()) + "," + std::to_string(c.y()) + ","
                        + std::to_string(c.x()) + ") vs (" + std::to_string(com[0]) + "," + std::to_string(com[1]) + "," + std::to_string(com[2]) + ")");
        }
    }
  catch (...)
    {
      ++n_out, std::fprintf(out, "none\n");
    }
}

// the object put into the input image of a zoom case: values inside the box bz0..bz1 x by0..by1 x bx0..bx1, 0 elsewhere
struct ZoomObject
{
  bool nonneg;      // no negative values
  bool uniform_box; // the value c everywhere in the box
  float c;
  int bz0, bz1, by0, by1, bx0, bx1;
};

// the property's own statement on one result O of zooming `in` (whatever call produced it): total conserved (times the documented factor of
// the option) and centre of mass in mm within half the sum of the voxel sizes when the new grid covers the object; uniform regions stay uniform
static void
zoom_statement_oracle(const VoxelsOnCartesianGrid<float>& in,
                      const VoxelsOnCartesianGrid<float>& O,
                      const int opt,
                      const ZoomObject& ob,
                      const std::string& req,
                      const std::string& in_txt)
{
  const ImgGeom g = geom_of(in);
  const ImgGeom go = geom_of(O);
  const float ezx = g.vx / go.vx, ezy = g.vy / go.vy, ezz = g.vz / go.vz; // effective zooms
  // does the new grid cover the object (extent of the non-zero voxels)?
  int oz0 = 1 << 20, oz1 = -(1 << 20), oy0 = 1 << 20, oy1 = -(1 << 20), ox0 = 1 << 20, ox1 = -(1 << 20);
  double abs_in = 0;
  for (int z = in.get_min_z(); z <= in.get_max_z(); ++z)
    for (int y = in.get_min_y(); y <= in.get_max_y(); ++y)
      for (int x = in.get_min_x(); x <= in.get_max_x(); ++x)
        if (in[z][y][x] != 0)
          {
            abs_in += std::fabs(in[z][y][x]);
            oz0 = std::min(oz0, z), oz1 = std::max(oz1, z), oy0 = std::min(oy0, y), oy1 = std::max(oy1, y), ox0 = std::min(ox0, x), ox1 = std::max(ox1, x);
          }
  if (abs_in == 0)
    return;
  auto covers1 = [](double vin, double oin, int lo, int hi, double vout, double oout, int olo, int ohi) {
    const double eps = 1e-4 * (vin + vout);
    return (olo - .5) * vout + oout <= (lo - .5) * vin + oin + eps && (ohi + .5) * vout + oout >= (hi + .5) * vin + oin - eps;
  };
  const bool covers = covers1(g.vz, g.oz, oz0, oz1, go.vz, go.oz, go.zmin, go.zmin + go.nz - 1)
                      && covers1(g.vy, g.oy, oy0, oy1, go.vy, go.oy, go.ymin, go.ymin + go.ny - 1)
                      && covers1(g.vx, g.ox, ox0, ox1, go.vx, go.ox, go.xmin, go.xmin + go.nx - 1);
  const double scale = opt == 0 ? 1. : (opt == 1 ? static_cast<double>(ezx) * ezy * ezz : static_cast<double>(ezy) * ezz);
  double ci[3], co[3], ti, to;
  const bool hi = own_com(in, ci, ti), ho = own_com(O, co, to);
  if (covers)
    {
      // total conserved (preserve_sum; the other options scale it by the documented factor)
      ++oracle_checks;
      if (std::fabs(to - ti * scale) > 1e-4 * abs_in * scale)
        oracle_fail("zoom_image does not conserve the total although the new grid covers the object: option " + std::to_string(opt) + " total "
                    + std::to_string(ti) + " -> " + std::to_string(to) + " expected factor " + std::to_string(scale) + " req: " + req
                    + " in: " + in_txt);
      // centre of mass within half the sum of the voxel sizes, per axis
      if (ob.nonneg && hi && ho)
        {
          ++oracle_checks;
          const double bz = 0.5 * (g.vz + go.vz) + 1e-3, by = 0.5 * (g.vy + go.vy) + 1e-3, bx = 0.5 * (g.vx + go.vx) + 1e-3;
          if (std::fabs(co[0] - ci[0]) > bz || std::fabs(co[1] - ci[1]) > by || std::fabs(co[2] - ci[2]) > bx)
            oracle_fail("zoom_image moves the centre of mass by more than half the sum of the voxel sizes: (" + std::to_string(ci[0]) + ","
                        + std::to_string(ci[1]) + "," + std::to_string(ci[2]) + ") -> (" + std::to_string(co[0]) + "," + std::to_string(co[1]) + ","
                        + std::to_string(co[2]) + ") req: " + req + " in: " + in_txt);
          // and the library's own centre of gravity says the same
          if (O.sum() > 0)
            {
              const CartesianCoordinate3D<float> cl_in = find_centre_of_gravity_in_mm(in), cl_out = find_centre_of_gravity_in_mm(O);
              ++oracle_checks;
              if (std::fabs(cl_out.z() - cl_in.z()) > bz || std::fabs(cl_out.y() - cl_in.y()) > by || std::fabs(cl_out.x() - cl_in.x()) > bx)
                oracle_fail("find_centre_of_gravity_in_mm moves by more than half the sum of the voxel sizes under zoom_image: req: " + req + " in: " + in_txt);
            }
        }
    }
  // uniform regions: an output voxel lying inside the uniform box has the value c * (documented factor)
  if (ob.uniform_box)
    {
      const double factor = opt == 1 ? 1. : (opt == 0 ? 1. / (static_cast<double>(ezx) * ezy * ezz) : 1. / ezx);
      for (int z = O.get_min_z(); z <= O.get_max_z(); ++z)
        for (int y = O.get_min_y(); y <= O.get_max_y(); ++y)
          for (int x = O.get_min_x(); x <= O.get_max_x(); ++x)
            {
              auto inside = [](double vout, double oout, int i, double vin, double oin, int lo, int hi) {
                const double eps = 1e-3 * (vin + vout);
                return (i - .5) * vout + oout >= (lo - .5) * vin + oin + eps && (i + .5) * vout + oout <= (hi + .5) * vin + oin - eps;
              };
              if (inside(go.vz, go.oz, z, g.vz, g.oz, ob.bz0, ob.bz1) && inside(go.vy, go.oy, y, g.vy, g.oy, ob.by0, ob.by1)
                  && inside(go.vx, go.ox, x, g.vx, g.ox, ob.bx0, ob.bx1))
                {
                  ++oracle_checks;
                  if (std::fabs(O[z][y][x] - ob.c * factor) > 2e-4 * ob.c * factor)
                    oracle_fail("zoom_image does not keep a uniform region uniform: option " + std::to_string(opt) + " voxel (" + std::to_string(z) + ","
                                + std::to_string(y) + "," + std::to_string(x) + ") = " + std::to_string(O[z][y][x]) + " expected "
                                + std::to_string(ob.c * factor) + " req: " + req + " in: " + in_txt);
                }
            }
    }
}

// the grid a zoom request asks for: sizes as given, voxel sizes v_in/zoom, and the middle of the new grid at the middle of the old grid
// plus the offsets in mm (zoom.h: "offsets_in_mm: shift of the centre of the new image w.r.t. the centre of the old one")
static void
grid_oracle(const VoxelsOnCartesianGrid<float>& in,
            const VoxelsOnCartesianGrid<float>& O,
            const float zz, const float zy, const float zx,
            const float offz, const float offy, const float offx,
            const int nz, const int ny, const int nx,
            const std::string& what)
{
  const ImgGeom g = geom_of(in), go = geom_of(O);
  auto mid = [](int lo, int n, double v, double o) { return (lo + (n - 1) / 2.) * v + o; };
  auto bad1 = [&](int lo_in, int n_in, double v_in, double o_in, int lo_out, int n_out, double v_out, double o_out, double zoom, double off, int n_req) {
    const double ext = v_in * (std::abs(lo_in) + n_in) + v_out * (std::abs(lo_out) + n_out) + std::fabs(o_in) + std::fabs(o_out) + std::fabs(off);
    return n_out != n_req || std::fabs(v_out - v_in / zoom) > 1e-5 * v_in / zoom
           || std::fabs(mid(lo_out, n_out, v_out, o_out) - (mid(lo_in, n_in, v_in, o_in) + off)) > 1e-5 * ext;
  };
  ++oracle_checks;
  if (bad1(g.zmin, g.nz, g.vz, g.oz, go.zmin, go.nz, go.vz, go.oz, zz, offz, nz) || bad1(g.ymin, g.ny, g.vy, g.oy, go.ymin, go.ny, go.vy, go.oy, zy, offy, ny)
      || bad1(g.xmin, g.nx, g.vx, g.ox, go.xmin, go.nx, go.vx, go.ox, zx, offx, nx))
    oracle_fail("zoom_image returns another grid than requested (sizes, voxel size v/zoom, middle of the new grid = middle of the old one + offsets in mm): "
                + what + ": in{" + geom_ops(g) + "} out{" + geom_ops(go) + "}");
}

// a two-step call zoom_image(out, in) must leave the grid of `out` (index range, voxel size, origin) as the caller made it
static void
same_grid_oracle(const ImgGeom& before, const VoxelsOnCartesianGrid<float>& after, const std::string& what)
{
  const ImgGeom a = geom_of(after);
  ++oracle_checks;
  if (a.zmin != before.zmin || a.ymin != before.ymin || a.xmin != before.xmin || a.nz != before.nz || a.ny != before.ny || a.nx != before.nx
      || a.vz != before.vz || a.vy != before.vy || a.vx != before.vx || a.oz != before.oz || a.oy != before.oy || a.ox != before.ox)
    oracle_fail("two-step zoom_image(out, in) changes the grid of the output image: " + what + ": before{" + geom_ops(before) + "} after{" + geom_ops(a) + "}");
}

static void
run_zoom_case(vh::Rng& rng)
{
  // ---- input image
  ImgGeom g;
  g.nz = rng.range(1, 6);
  g.ny = rng.range(3, 8);
  g.nx = rng.range(3, 8);
  const bool twod = rng.coin(); // request expressible with the (zoom, x_offset, y_offset, new_size) interface
  g.zmin = rng.range(0, 3) == 0 ? rng.range(-2, 2) : 0; // (the first plane of the input need not be plane 0, also for the 2-D interface)
  g.ymin = rng.range(0, 3) == 0 ? rng.range(-5, 1) : -(g.ny / 2);
  g.xmin = rng.range(0, 3) == 0 ? rng.range(-5, 1) : -(g.nx / 2);
  g.vz = rng.coin() ? 2.F : static_cast<float>(1 + rng.unit() * 3);
  g.vy = rng.coin() ? 3.F : static_cast<float>(1 + rng.unit() * 3);
  g.vx = rng.range(0, 2) ? g.vy : static_cast<float>(1 + rng.unit() * 3);
  g.oz = rng.coin() ? 0.F : static_cast<float>(rng.unit() * 20 - 10);
  g.oy = rng.coin() ? 0.F : static_cast<float>(rng.unit() * 20 - 10);
  g.ox = rng.coin() ? 0.F : static_cast<float>(rng.unit() * 20 - 10);
  VoxelsOnCartesianGrid<float> in = make_img(g);
  const int kind = rng.range(0, 5); // 0,1: non-negative blob in a box, 2: uniform box, 3: uniform everywhere, 4: signed, 5: single voxel
  const bool nonneg = kind != 4;
  const float c = static_cast<float>(1 + rng.unit() * 5);
  int bz0 = g.zmin, bz1 = g.zmin + g.nz - 1, by0 = g.ymin, by1 = g.ymin + g.ny - 1, bx0 = g.xmin, bx1 = g.xmin + g.nx - 1;
  if (kind <= 2 || kind == 5)
    {
      bz0 = rng.range(g.zmin, g.zmin + g.nz - 1);
      bz1 = kind == 5 ? bz0 : rng.range(bz0, g.zmin + g.nz - 1);
      by0 = rng.range(g.ymin, g.ymin + g.ny - 1);
      by1 = kind == 5 ? by0 : rng.range(by0, g.ymin + g.ny - 1);
      bx0 = rng.range(g.xmin, g.xmin + g.nx - 1);
      bx1 = kind == 5 ? bx0 : rng.range(bx0, g.xmin + g.nx - 1);
    }
  for (int z = bz0; z <= bz1; ++z)
    for (int y = by0; y <= by1; ++y)
      for (int x = bx0; x <= bx1; ++x)
        in[z][y][x] = (kind == 2 || kind == 3) ? c : (kind == 5 ? c : rand_value(rng, !nonneg));
  const bool uniform_box = kind == 2 || kind == 3 || kind == 5;

  // ---- request
  float zz = twod ? 1.F : (rng.range(0, 2) == 0 ? 1.F : rand_zoom(rng));
  float zy = rand_zoom(rng);
  float zx = twod ? zy : (rng.range(0, 2) ? zy : rand_zoom(rng));
  float offz = twod ? 0.F : (rng.coin() ? 0.F : static_cast<float>((rng.unit() * 2 - 1) * g.vz * 1.5));
  float offy = rng.coin() ? 0.F : static_cast<float>((rng.unit() * 2 - 1) * g.vy * 2);
  float offx = rng.coin() ? 0.F : static_cast<float>((rng.unit() * 2 - 1) * g.vx * 2);
  int nz = twod ? g.nz : (rng.coin() ? g.nz : rng.range(1, 8));
  const bool cover = rng.range(0, 2) != 0; // make the new grid large enough to cover the old one
  int ny = cover ? static_cast<int>(std::ceil(g.ny * zy + 2 * std::fabs(offy) / g.vy * zy)) + 3 : rng.range(1, 10);
  int nx = twod ? ny : (cover ? static_cast<int>(std::ceil(g.nx * zx + 2 * std::fabs(offx) / g.vx * zx)) + 3 : rng.range(1, 10));
  if (twod && cover)
    ny = nx = std::max(ny, static_cast<int>(std::ceil(g.nx * zx + 2 * std::fabs(offx) / g.vx * zx)) + 3
                               + 2 * std::abs(g.xmin + g.nx / 2) * 3 + 2 * std::abs(g.ymin + g.ny / 2) * 3);
  if (!twod && cover)
    nz = static_cast<int>(std::ceil(g.nz * zz + 2 * std::fabs(offz) / g.vz * zz)) + 3;
  if (static_cast<long>(nz) * ny * nx > 1500)
    { // keep the lines short
      nz = std::min(nz, 6);
      ny = std::min(ny, twod ? 15 : 14);
      nx = twod ? ny : std::min(nx, 14);
    }
  if (rng.range(0, 11) == 0)
    { // the identity request
      zz = zy = zx = 1.F;
      offz = offy = offx = 0.F;
      nz = g.nz;
      ny = g.ny;
      nx = twod ? g.ny : g.nx;
    }
  const int opt = rng.range(0, 2);
  const ZoomOptions zo(opt == 0 ? ZoomOptions::preserve_sum : (opt == 1 ? ZoomOptions::preserve_values : ZoomOptions::preserve_projections));

  const std::string in_txt = geom_ops(g), dat_txt = data_ops(in);
  // A: one call, 3-D parameters
  std::ostringstream pa;
  pa << vh::hex(zz) << " " << vh::hex(zy) << " " << vh::hex(zx) << " " << vh::hex(offz) << " " << vh::hex(offy) << " " << vh::hex(offx) << " " << nz << " " << ny
     << " " << nx;
  ++n_ops, std::fprintf(ops, "zoom 3d %d | %s | %s |%s\n", opt, in_txt.c_str(), pa.str().c_str(), dat_txt.c_str());
  const VoxelsOnCartesianGrid<float> A
      = zoom_image(in, CartesianCoordinate3D<float>(zz, zy, zx), CartesianCoordinate3D<float>(offz, offy, offx), Coordinate3D<int>(nz, ny, nx), zo);
  ++n_out, std::fprintf(out, "%s\n", img_answer(A).c_str());
  grid_oracle(in, A, zz, zy, zx, offz, offy, offx, nz, ny, nx, pa.str());
  // B: in place
  VoxelsOnCartesianGrid<float> B(in);
  zoom_image_in_place(B, CartesianCoordinate3D<float>(zz, zy, zx), CartesianCoordinate3D<float>(offz, offy, offx), Coordinate3D<int>(nz, ny, nx), zo);
  ++n_ops, std::fprintf(ops, "zoom 3d %d | %s | %s |%s\n", opt, in_txt.c_str(), pa.str().c_str(), dat_txt.c_str());
  ++n_out, std::fprintf(out, "%s\n", img_answer(B).c_str());
  ++oracle_checks;
  if (!images_agree(A, B, 0))
    oracle_fail("zoom_image_in_place (3-D parameters) differs from zoom_image: " + pa.str() + " in: " + in_txt);
  // C: two steps: construct the output image, then zoom_image(out, in)
  VoxelsOnCartesianGrid<float> C = make_img(geom_of(A));
  for (auto it = C.begin_all(); it != C.end_all(); ++it)
    *it = rand_value(rng, true); // previous contents must not matter
  ++n_ops, std::fprintf(ops, "zoom out %d | %s | %s |%s\n", opt, in_txt.c_str(), geom_ops(geom_of(C)).c_str(), dat_txt.c_str());
  const ImgGeom c_before = geom_of(C);
  zoom_image(C, in, zo);
  same_grid_oracle(c_before, C, "into a new image");
  ++n_out, std::fprintf(out, "%s\n", img_answer(C).c_str());
  ++oracle_checks;
  if (!images_agree(A, C, 1e-5))
    oracle_fail("two-step zoom_image(out, in) differs from the one-call zoom_image: " + pa.str() + " in: " + in_txt);
  VoxelsOnCartesianGrid<float> D = A;
  bool d_ok = true;
  if (twod)
    {
      std::ostringstream pd;
      pd << vh::hex(zx) << " " << vh::hex(offx) << " " << vh::hex(offy) << " " << nx;
      ++n_ops, std::fprintf(ops, "zoom 2d %d | %s | %s |%s\n", opt, in_txt.c_str(), pd.str().c_str(), dat_txt.c_str());
      // the plane loop of this overload numbers the planes of the new image: undefined behaviour on some revisions when the first plane
      // of the input is not 0, therefore in a child process then
      bool de_agree = true;
      if (g.zmin == 0)
        {
          D = zoom_image(in, zx, offx, offy, nx, zo);
          VoxelsOnCartesianGrid<float> E(in);
          zoom_image_in_place(E, zx, offx, offy, nx, zo);
          de_agree = images_agree(D, E, 0);
        }
      else
        {
          std::string res;
          const int st = run_in_child(
              [&] {
                const VoxelsOnCartesianGrid<float> d = zoom_image(in, zx, offx, offy, nx, zo);
                VoxelsOnCartesianGrid<float> e(in);
                zoom_image_in_place(e, zx, offx, offy, nx, zo);
                return pack_img(d) + pack_img(e);
              },
              res);
          std::size_t pos = 0;
          VoxelsOnCartesianGrid<float> E(in);
          if (st != 0 || !unpack_img(res, pos, D) || !unpack_img(res, pos, E))
            d_ok = false;
          else
            de_agree = images_agree(D, E, 0);
        }
      ++oracle_checks;
      if (!d_ok)
        {
          ++n_out, std::fprintf(out, "crash\n");
          oracle_fail("zoom_image with (zoom, offsets, size) crashes / throws on an image whose first plane is " + std::to_string(g.zmin)
                      + " (the 3-D-parameter call with the equivalent request works): " + pd.str() + " in: " + in_txt);
        }
      else
        {
          ++n_out, std::fprintf(out, "%s\n", img_answer(D).c_str());
          if (!de_agree)
            oracle_fail("zoom_image_in_place (2-D parameters) differs from zoom_image: " + pd.str() + " in: " + in_txt);
          // (the 2-D interface returns the image untouched when zoom==1, offsets==0 and new_size==x_size, without looking at y_size:
          //  for a non-square image that is not the requested grid -- reported, not compared)
          const bool shortcut_nonsquare = zx == 1.F && offx == 0.F && offy == 0.F && nx == g.nx && g.ny != g.nx;
          if (!shortcut_nonsquare)
            grid_oracle(in, D, 1.F, zx, zx, 0.F, offy, offx, g.nz, nx, nx, "transaxial call " + pd.str());
          ++oracle_checks;
          if (!shortcut_nonsquare && !images_agree(A, D, 1e-5))
            oracle_fail("zoom_image with (zoom, offsets, size) differs from zoom_image with the equivalent 3-D parameters (first plane of the input: "
                        + std::to_string(g.zmin) + "): " + pd.str() + " in: " + in_txt);
        }
    }
  // F: an output grid chosen freely (not through the zoom parameters)
  if (rng.range(0, 2) == 0)
    {
      ImgGeom h;
      h.nz = rng.range(1, 6);
      h.ny = rng.range(1, 9);
      h.nx = rng.range(1, 9);
      h.zmin = rng.range(-2, 2);
      h.ymin = rng.range(-5, 1);
      h.xmin = rng.range(-5, 1);
      h.vz = rng.coin() ? g.vz : g.vz / rand_zoom(rng);
      h.vy = g.vy / rand_zoom(rng);
      h.vx = g.vx / rand_zoom(rng);
      h.oz = g.oz + static_cast<float>((rng.unit() * 2 - 1) * g.vz * 2);
      h.oy = g.oy + static_cast<float>((rng.unit() * 2 - 1) * g.vy * 3);
      h.ox = g.ox + static_cast<float>((rng.unit() * 2 - 1) * g.vx * 3);
      VoxelsOnCartesianGrid<float> Fimg = make_img(h);
      for (auto it = Fimg.begin_all(); it != Fimg.end_all(); ++it)
        *it = rand_value(rng, true);
      ++n_ops, std::fprintf(ops, "zoom out %d | %s | %s |%s\n", opt, in_txt.c_str(), geom_ops(h).c_str(), dat_txt.c_str());
      zoom_image(Fimg, in, zo);
      same_grid_oracle(h, Fimg, "into a freely chosen grid");
      ++n_out, std::fprintf(out, "%s\n", img_answer(Fimg).c_str());
    }
  run_cog(in);
  run_cog(A);

  // ---------------- ORACLE on A (and on D): the property's own statement
  const ZoomObject ob = { nonneg, uniform_box, c, bz0, bz1, by0, by1, bx0, bx1 };
  zoom_statement_oracle(in, A, opt, ob, pa.str(), in_txt);
  if (twod && d_ok)
    zoom_statement_oracle(in, D, opt, ob, pa.str() + " (transaxial call)", in_txt);
}

// ---- DEGENERATE zoom requests.  Every axis is, independently, in one of the classes
//   0: zoom exactly 1, offset 0        1: zoom exactly 1, offset != 0 (a pure shift)
//   2: zoom != 1, offset 0             3: zoom != 1, offset != 0
// so that the requests "offset only in x / only in y / only in z", "zoom 1 along some axes only", "nothing to do" all occur, into a new grid of
// the SAME size as the input and of a different size, with every ZoomOptions scaling, through every call variant: one call with 3-D
// parameters, in place, two steps into a new image, two steps into a RE-USED image that holds the result of another zoom, the transaxial
// one-call / in-place calls, and the transaxial two-step call zoom_image(PixelsOnCartesianGrid&, const PixelsOnCartesianGrid&) plane by plane
// into one re-used plane.  The object sits in the middle of the image so that a same-size shifted grid still covers it.
static std::string
plane_data_ops(const PixelsOnCartesianGrid<float>& pl)
{
  std::ostringstream s;
  for (int y = pl.get_min_y(); y <= pl.get_max_y(); ++y)
    for (int x = pl.get_min_x(); x <= pl.get_max_x(); ++x)
      s << " " << vh::hex(pl[y][x]);
  return s.str();
}

static void
run_zoom_degenerate(vh::Rng& rng, const int k)
{
  const int opt = k % 3;
  const bool twod = (k / 3) % 2 == 0; // request expressible with the (zoom, x_offset, y_offset, new_size) interface
  const bool same_size = (k / 6) % 2 == 0;
  int cls[3]; // z, y, x
  if (twod)
    { // one zoom for x and y, nothing along z: the 8 combinations in turn
      const int j = (k / 12) % 8;
      const int zc = (j & 1) ? 2 : 0;
      cls[0] = 0;
      cls[1] = zc + ((j & 4) ? 1 : 0);
      cls[2] = zc + ((j & 2) ? 1 : 0);
    }
  else
    for (int a = 0; a < 3; ++a)
      {
        const int r = rng.range(0, 9);
        cls[a] = r < 4 ? 0 : (r < 8 ? 1 : (r == 8 ? 2 : 3));
      }
  // ---- input image
  ImgGeom g;
  g.nz = twod ? rng.range(1, 4) : rng.range(5, 7);
  g.ny = rng.range(7, 9);
  g.nx = (twod || rng.coin()) ? g.ny : rng.range(7, 9);
  const bool standard_range = rng.range(0, 5) != 0;
  g.zmin = rng.range(0, 5) == 0 ? rng.range(-2, 2) : 0;
  g.ymin = standard_range ? -(g.ny / 2) : rng.range(-5, 1);
  g.xmin = standard_range ? -(g.nx / 2) : rng.range(-5, 1);
  g.vz = rng.coin() ? 2.F : static_cast<float>(1 + rng.unit() * 3);
  g.vy = rng.range(0, 2) == 0 ? 4.F : (rng.coin() ? 3.F : static_cast<float>(1 + rng.unit() * 3));
  g.vx = rng.range(0, 3) ? g.vy : static_cast<float>(1 + rng.unit() * 3);
  g.oz = rng.coin() ? 0.F : static_cast<float>(rng.unit() * 20 - 10);
  g.oy = rng.coin() ? 0.F : static_cast<float>(rng.unit() * 20 - 10);
  g.ox = rng.coin() ? 0.F : static_cast<float>(rng.unit() * 20 - 10);
  VoxelsOnCartesianGrid<float> in = make_img(g);
  const int kind = rng.range(0, 3); // 0: non-negative blob, 1: uniform box, 2: single voxel, 3: signed blob
  ZoomObject ob;
  ob.nonneg = kind != 3;
  ob.uniform_box = kind == 1 || kind == 2;
  ob.c = static_cast<float>(1 + rng.unit() * 5);
  {
    const int mz = g.nz >= 5 ? 2 : 0, my = 3, mx = 3; // margins
    ob.bz0 = rng.range(g.zmin + mz, g.zmin + g.nz - 1 - mz);
    ob.bz1 = kind == 2 ? ob.bz0 : rng.range(ob.bz0, g.zmin + g.nz - 1 - mz);
    ob.by0 = rng.range(g.ymin + my, g.ymin + g.ny - 1 - my);
    ob.by1 = kind == 2 ? ob.by0 : rng.range(ob.by0, g.ymin + g.ny - 1 - my);
    ob.bx0 = rng.range(g.xmin + mx, g.xmin + g.nx - 1 - mx);
    ob.bx1 = kind == 2 ? ob.bx0 : rng.range(ob.bx0, g.xmin + g.nx - 1 - mx);
  }
  for (int z = ob.bz0; z <= ob.bz1; ++z)
    for (int y = ob.by0; y <= ob.by1; ++y)
      for (int x = ob.bx0; x <= ob.bx1; ++x)
        in[z][y][x] = ob.uniform_box ? ob.c : rand_value(rng, !ob.nonneg);

  // ---- request
  const float v_in[3] = { g.vz, g.vy, g.vx };
  const int n_in[3] = { g.nz, g.ny, g.nx };
  float zoom[3], off[3];
  int n_new[3];
  bool whole_voxels = true; // every offset is a whole number of input voxels
  for (int a = 0; a < 3; ++a)
    {
      zoom[a] = 1.F;
      off[a] = 0.F;
      if (cls[a] >= 2)
        {
          const float zs[] = { 2.F, .5F, 1.5F, .75F, 1.25F, 3.F, 1.F / 3.F };
          zoom[a] = rng.coin() ? zs[rng.range(0, 6)] : static_cast<float>(0.3 + rng.unit() * 2.7);
          if (zoom[a] == 1.F)
            zoom[a] = 2.F;
        }
      if (cls[a] % 2 == 1)
        {
          const int ok = rng.range(0, 3);
          const float voxels = ok == 0 ? 1.F : (ok == 1 ? 2.F : (ok == 2 ? .5F : static_cast<float>(0.25 + rng.unit() * 1.75)));
          if (ok >= 2)
            whole_voxels = false;
          off[a] = (rng.coin() ? voxels : -voxels) * v_in[a];
          if (a == 0 && g.nz < 5)
            off[a] = (off[a] < 0 ? -.5F : .5F) * v_in[a], whole_voxels = false; // (few planes: a small shift only)
        }
    }
  if (twod)
    zoom[2] = zoom[1];
  for (int a = 0; a < 3; ++a)
    {
      if (same_size)
        n_new[a] = n_in[a];
      else if (rng.coin())
        n_new[a] = static_cast<int>(std::ceil(n_in[a] * zoom[a] + 2 * std::fabs(off[a]) / v_in[a] * zoom[a])) + 1 + rng.range(0, 2);
      else
        n_new[a] = std::max(1, n_in[a] + (rng.coin() ? 1 : -1) * rng.range(1, 2));
      n_new[a] = std::min(n_new[a], a == 0 ? 8 : 14);
    }
  if (twod)
    {
      n_new[0] = g.nz;
      n_new[1] = n_new[2] = same_size ? g.nx : std::max(n_new[1], n_new[2]);
    }
  const float zz = zoom[0], zy = zoom[1], zx = zoom[2], offz = off[0], offy = off[1], offx = off[2];
  const int nz = n_new[0], ny = n_new[1], nx = n_new[2];
  const ZoomOptions zo(opt == 0 ? ZoomOptions::preserve_sum : (opt == 1 ? ZoomOptions::preserve_values : ZoomOptions::preserve_projections));
  const std::string in_txt = geom_ops(g), dat_txt = data_ops(in);
  std::ostringstream pa;
  pa << vh::hex(zz) << " " << vh::hex(zy) << " " << vh::hex(zx) << " " << vh::hex(offz) << " " << vh::hex(offy) << " " << vh::hex(offx) << " " << nz << " " << ny
     << " " << nx;
  const std::string req = pa.str() + " (degenerate request: zoom (" + std::to_string(zz) + "," + std::to_string(zy) + "," + std::to_string(zx) + ") offsets in mm ("
                          + std::to_string(offz) + "," + std::to_string(offy) + "," + std::to_string(offx) + ") sizes " + std::to_string(g.nz) + "x"
                          + std::to_string(g.ny) + "x" + std::to_string(g.nx) + " -> " + std::to_string(nz) + "x" + std::to_string(ny) + "x" + std::to_string(nx)
                          + ", option " + std::to_string(opt) + ")";

  // A: one call, 3-D parameters
  ++n_ops, std::fprintf(ops, "zoom 3d %d | %s | %s |%s\n", opt, in_txt.c_str(), pa.str().c_str(), dat_txt.c_str());
  const VoxelsOnCartesianGrid<float> A
      = zoom_image(in, CartesianCoordinate3D<float>(zz, zy, zx), CartesianCoordinate3D<float>(offz, offy, offx), Coordinate3D<int>(nz, ny, nx), zo);
  ++n_out, std::fprintf(out, "%s\n", img_answer(A).c_str());
  grid_oracle(in, A, zz, zy, zx, offz, offy, offx, nz, ny, nx, req);
  // B: in place
  VoxelsOnCartesianGrid<float> B(in);
  zoom_image_in_place(B, CartesianCoordinate3D<float>(zz, zy, zx), CartesianCoordinate3D<float>(offz, offy, offx), Coordinate3D<int>(nz, ny, nx), zo);
  ++n_ops, std::fprintf(ops, "zoom 3d %d | %s | %s |%s\n", opt, in_txt.c_str(), pa.str().c_str(), dat_txt.c_str());
  ++n_out, std::fprintf(out, "%s\n", img_answer(B).c_str());
  ++oracle_checks;
  if (!images_agree(A, B, 0))
    oracle_fail("zoom_image_in_place (3-D parameters) differs from zoom_image: " + req + " in: " + in_txt);
  // C: two steps into a new image with arbitrary contents
  VoxelsOnCartesianGrid<float> C = make_img(geom_of(A));
  for (auto it = C.begin_all(); it != C.end_all(); ++it)
    *it = rand_value(rng, true);
  const std::string out_txt = geom_ops(geom_of(C));
  ++n_ops, std::fprintf(ops, "zoom out %d | %s | %s |%s\n", opt, in_txt.c_str(), out_txt.c_str(), dat_txt.c_str());
  const ImgGeom c_before = geom_of(C);
  zoom_image(C, in, zo);
  same_grid_oracle(c_before, C, "into a new image");
  ++n_out, std::fprintf(out, "%s\n", img_answer(C).c_str());
  ++oracle_checks;
  if (!images_agree(A, C, 1e-5))
    oracle_fail("two-step zoom_image(out, in) differs from the one-call zoom_image: " + req + " in: " + in_txt);
  // C2: two steps into a RE-USED image: it holds the result of zooming another image, then receives this one
  VoxelsOnCartesianGrid<float> C2(C);
  {
    VoxelsOnCartesianGrid<float> other(in);
    for (auto it = other.begin_all(); it != other.end_all(); ++it)
      *it = *it * 1.5F + (rng.range(0, 3) == 0 ? rand_value(rng, false) : 0.F);
    ++n_ops, std::fprintf(ops, "zoom out %d | %s | %s |%s\n", opt, in_txt.c_str(), out_txt.c_str(), data_ops(other).c_str());
    zoom_image(C2, other, zo);
    ++n_out, std::fprintf(out, "%s\n", img_answer(C2).c_str());
    ++n_ops, std::fprintf(ops, "zoom out %d | %s | %s |%s\n", opt, in_txt.c_str(), geom_ops(geom_of(C2)).c_str(), dat_txt.c_str());
    zoom_image(C2, in, zo);
    same_grid_oracle(c_before, C2, "into a re-used image");
    ++n_out, std::fprintf(out, "%s\n", img_answer(C2).c_str());
    ++oracle_checks;
    if (!images_agree(C, C2, 0))
      oracle_fail("two-step zoom_image(out, in) into a re-used output image (holding the result of another zoom) differs from the same call into a "
                  "new image: "
                  + req + " in: " + in_txt);
  }
  // D, E: the transaxial calls
  VoxelsOnCartesianGrid<float> D = A;
  bool d_ok = true, have_d = false;
  if (twod)
    {
      have_d = true;
      std::ostringstream pd;
      pd << vh::hex(zx) << " " << vh::hex(offx) << " " << vh::hex(offy) << " " << nx;
      ++n_ops, std::fprintf(ops, "zoom 2d %d | %s | %s |%s\n", opt, in_txt.c_str(), pd.str().c_str(), dat_txt.c_str());
      bool de_agree = true;
      if (g.zmin == 0)
        {
          D = zoom_image(in, zx, offx, offy, nx, zo);
          VoxelsOnCartesianGrid<float> E(in);
          zoom_image_in_place(E, zx, offx, offy, nx, zo);
          de_agree = images_agree(D, E, 0);
        }
      else
        { // (undefined behaviour on some revisions when the first plane is not 0: in a child process)
          std::string res;
          const int st = run_in_child(
              [&] {
                const VoxelsOnCartesianGrid<float> d = zoom_image(in, zx, offx, offy, nx, zo);
                VoxelsOnCartesianGrid<float> e(in);
                zoom_image_in_place(e, zx, offx, offy, nx, zo);
                return pack_img(d) + pack_img(e);
              },
              res);
          std::size_t pos = 0;
          VoxelsOnCartesianGrid<float> E(in);
          if (st != 0 || !unpack_img(res, pos, D) || !unpack_img(res, pos, E))
            d_ok = false;
          else
            de_agree = images_agree(D, E, 0);
        }
      ++oracle_checks;
      if (!d_ok)
        {
          ++n_out, std::fprintf(out, "crash\n");
          oracle_fail("zoom_image with (zoom, offsets, size) crashes / throws on an image whose first plane is " + std::to_string(g.zmin)
                      + " (the 3-D-parameter call with the equivalent request works): " + req + " in: " + in_txt);
        }
      else
        {
          ++n_out, std::fprintf(out, "%s\n", img_answer(D).c_str());
          if (!de_agree)
            oracle_fail("zoom_image_in_place (2-D parameters) differs from zoom_image: " + req + " in: " + in_txt);
          const bool shortcut_nonsquare = zx == 1.F && offx == 0.F && offy == 0.F && nx == g.nx && g.ny != g.nx;
          if (!shortcut_nonsquare)
            grid_oracle(in, D, 1.F, zx, zx, 0.F, offy, offx, g.nz, nx, nx, "transaxial call " + pd.str());
          ++oracle_checks;
          if (!shortcut_nonsquare && !images_agree(A, D, 1e-5))
            oracle_fail("zoom_image with (zoom, offsets, size) differs from zoom_image with the equivalent 3-D parameters (first plane of the input: "
                        + std::to_string(g.zmin) + "): " + req + " in: " + in_txt);
        }
    }
  // P: nothing to do along z: the transaxial two-step call zoom_image(PixelsOnCartesianGrid& out, const PixelsOnCartesianGrid& in, options),
  // plane by plane into ONE output plane that is re-used (it holds the previous plane's result)
  VoxelsOnCartesianGrid<float> P = A;
  bool have_p = false;
  if (cls[0] == 0 && nz == g.nz)
    {
      have_p = true;
      PixelsOnCartesianGrid<float> out2d = A.get_plane(A.get_min_z());
      for (auto it = out2d.begin_all(); it != out2d.end_all(); ++it)
        *it = rand_value(rng, true);
      for (int pl = in.get_min_z(); pl <= in.get_max_z(); ++pl)
        {
          const PixelsOnCartesianGrid<float> in2d = in.get_plane(pl);
          ImgGeom gi1 = g, go1;
          gi1.zmin = 0, gi1.nz = 1;
          go1.zmin = 0, go1.nz = 1, go1.vz = g.vz, go1.oz = out2d.get_origin().z();
          go1.ymin = out2d.get_min_y(), go1.xmin = out2d.get_min_x(), go1.ny = out2d.get_y_size(), go1.nx = out2d.get_x_size();
          go1.vy = out2d.get_pixel_size().y(), go1.vx = out2d.get_pixel_size().x(), go1.oy = out2d.get_origin().y(), go1.ox = out2d.get_origin().x();
          ++n_ops, std::fprintf(ops, "zoom pl %d | %s | %s |%s\n", opt, geom_ops(gi1).c_str(), geom_ops(go1).c_str(), plane_data_ops(in2d).c_str());
          zoom_image(out2d, in2d, zo);
          std::ostringstream a;
          a << "geom 0 " << out2d.get_min_y() << " " << out2d.get_min_x() << " 1 " << out2d.get_y_size() << " " << out2d.get_x_size() << " " << F(go1.vz) << " "
            << F(out2d.get_pixel_size().y()) << " " << F(out2d.get_pixel_size().x()) << " " << F(go1.oz) << " " << F(out2d.get_origin().y()) << " "
            << F(out2d.get_origin().x()) << " |";
          for (int y = out2d.get_min_y(); y <= out2d.get_max_y(); ++y)
            for (int x = out2d.get_min_x(); x <= out2d.get_max_x(); ++x)
              a << " " << F(out2d[y][x]);
          ++n_out, std::fprintf(out, "%s\n", a.str().c_str());
          const int po = pl - in.get_min_z() + P.get_min_z();
          bool fits = out2d.get_min_y() == P.get_min_y() && out2d.get_max_y() == P.get_max_y() && out2d.get_min_x() == P.get_min_x()
                      && out2d.get_max_x() == P.get_max_x() && out2d.get_pixel_size().y() == P.get_voxel_size().y()
                      && out2d.get_pixel_size().x() == P.get_voxel_size().x() && out2d.get_origin().y() == P.get_origin().y()
                      && out2d.get_origin().x() == P.get_origin().x();
          ++oracle_checks;
          if (!fits)
            {
              oracle_fail("two-step zoom_image(PixelsOnCartesianGrid& out, in) changes the grid of the output plane: " + req + " in: " + in_txt);
              have_p = false;
              break;
            }
          for (int y = out2d.get_min_y(); y <= out2d.get_max_y(); ++y)
            for (int x = out2d.get_min_x(); x <= out2d.get_max_x(); ++x)
              P[po][y][x] = out2d[y][x];
        }
      if (have_p)
        {
          ++oracle_checks;
          if (!images_agree(A, P, 1e-5))
            oracle_fail("two-step zoom_image(PixelsOnCartesianGrid& out, in) plane by plane (re-used output plane) differs from zoom_image with the "
                        "equivalent 3-D parameters: "
                        + req + " in: " + in_txt);
        }
    }
  run_cog(A);

  // ---------------- ORACLE: the property's own statement on every result
  zoom_statement_oracle(in, A, opt, ob, req, in_txt);
  zoom_statement_oracle(in, C2, opt, ob, req + " (two-step call into a re-used image)", in_txt);
  if (have_d && d_ok)
    zoom_statement_oracle(in, D, opt, ob, req + " (transaxial call)", in_txt);
  if (have_p)
    zoom_statement_oracle(in, P, opt, ob, req + " (transaxial two-step call, plane by plane)", in_txt);
  // zoom exactly 1 along every axis and offsets of whole voxels (or none): every voxel of the result is the input voxel at the same physical
  // position (0 outside the input) -- a pure shift moves nothing but the grid; the identity request gives back the image
  if (zz == 1.F && zy == 1.F && zx == 1.F && whole_voxels)
    {
      const VoxelsOnCartesianGrid<float>* rs[4] = { &A, &C2, (have_d && d_ok) ? &D : nullptr, have_p ? &P : nullptr };
      const char* names[4] = { "one call, 3-D parameters", "two steps, re-used image", "transaxial call", "transaxial two-step call" };
      const double m = max_abs(in);
      for (int r = 0; r < 4; ++r)
        if (rs[r])
          {
            const VoxelsOnCartesianGrid<float>& O = *rs[r];
            const ImgGeom go = geom_of(O);
            bool ok = true;
            std::string where;
            for (int z = O.get_min_z(); z <= O.get_max_z() && ok; ++z)
              for (int y = O.get_min_y(); y <= O.get_max_y() && ok; ++y)
                for (int x = O.get_min_x(); x <= O.get_max_x() && ok; ++x)
                  {
                    const double fz = (static_cast<double>(z) * go.vz + go.oz - g.oz) / g.vz, fy = (static_cast<double>(y) * go.vy + go.oy - g.oy) / g.vy,
                                 fx = (static_cast<double>(x) * go.vx + go.ox - g.ox) / g.vx;
                    const long iz = std::lround(fz), iy = std::lround(fy), ix = std::lround(fx);
                    if (std::fabs(fz - iz) > 1e-4 || std::fabs(fy - iy) > 1e-4 || std::fabs(fx - ix) > 1e-4)
                      continue; // (origins are floats: not a whole number of voxels after rounding)
                    const bool inside = iz >= in.get_min_z() && iz <= in.get_max_z() && iy >= in.get_min_y() && iy <= in.get_max_y() && ix >= in.get_min_x()
                                        && ix <= in.get_max_x();
                    const double expect = inside ? in[iz][iy][ix] : 0.;
                    if (std::fabs(O[z][y][x] - expect) > 1e-3 * m)
                      {
                        ok = false;
                        where = "voxel (" + std::to_string(z) + "," + std::to_string(y) + "," + std::to_string(x) + ") = " + std::to_string(O[z][y][x])
                                + ", the input at the same position in mm (voxel (" + std::to_string(iz) + "," + std::to_string(iy) + "," + std::to_string(ix)
                                + ")) holds " + std::to_string(expect);
                      }
                  }
            ++oracle_checks;
            if (!ok)
              oracle_fail(std::string("zoom_image with zoom 1 and a shift by whole voxels does not keep every value at its position in mm (")
                          + names[r] + "): " + where + ": " + req + " in: " + in_txt);
          }
    }
}

// ---------------------------------------------------------------------------------------------- zoom_viewgram / zoom_viewgrams

struct VgFill
{
  bool nonneg;
  bool uniform; // value c on the tangential positions b0..b1 of every row, 0 elsewhere
  float c;
  int b0, b1;
};

static void
fill_viewgram(Viewgram<float>& v, const VgFill& f, vh::Rng& rng)
{
  for (int a = v.get_min_axial_pos_num(); a <= v.get_max_axial_pos_num(); ++a)
    for (int t = v.get_min_tangential_pos_num(); t <= v.get_max_tangential_pos_num(); ++t)
      v[a][t] = f.uniform ? (t >= f.b0 && t <= f.b1 ? f.c : 0.F) : rand_value(rng, !f.nonneg);
}

static std::string
viewgram_data(const Viewgram<float>& v, bool tagged)
{
  std::ostringstream s;
  for (int a = v.get_min_axial_pos_num(); a <= v.get_max_axial_pos_num(); ++a)
    for (int t = v.get_min_tangential_pos_num(); t <= v.get_max_tangential_pos_num(); ++t)
      s << " " << (tagged ? F(v[a][t]) : vh::hex(v[a][t]));
  return s.str();
}

static float
tang_sampling(const Viewgram<float>& v)
{
  return dynamic_cast<const ProjDataInfoCylindricalArcCorr&>(*v.get_proj_data_info_sptr()).get_tangential_sampling();
}

// the property's statement on one zoomed viewgram: along the tangential direction counts are conserved when the new range covers the data,
// the centroid (in mm, in the frame of the input: s_in = s_out + x cos(phi) + y sin(phi)) moves by at most half the sum of the bin sizes,
// uniform data stay uniform (value * zoom)
static void
viewgram_oracle(const Viewgram<float>& in, const Viewgram<float>& o, float xoff, float yoff, const VgFill& f, const std::string& what)
{
  const ProjDataInfoCylindricalArcCorr& pin = dynamic_cast<const ProjDataInfoCylindricalArcCorr&>(*in.get_proj_data_info_sptr());
  const double in_bin = tang_sampling(in), out_bin = tang_sampling(o);
  const double zoom = in_bin / out_bin;
  // the angle of the view, not taken from get_phi
  const double phi = static_cast<double>(pin.get_azimuthal_angle_offset()) + in.get_view_num() * (_PI / pin.get_num_views());
  const double shift = xoff * std::cos(phi) + yoff * std::sin(phi);
  ++oracle_checks;
  if (in.get_view_num() != o.get_view_num() || in.get_segment_num() != o.get_segment_num() || in.get_timing_pos_num() != o.get_timing_pos_num()
      || in.get_min_axial_pos_num() != o.get_min_axial_pos_num() || in.get_max_axial_pos_num() != o.get_max_axial_pos_num())
    {
      oracle_fail(what + ": the zoomed viewgram is not the viewgram of the same view / segment / TOF position / axial range");
      return;
    }
  const int imin = in.get_min_tangential_pos_num(), imax = in.get_max_tangential_pos_num();
  const int omin = o.get_min_tangential_pos_num(), omax = o.get_max_tangential_pos_num();
  for (int a = in.get_min_axial_pos_num(); a <= in.get_max_axial_pos_num(); ++a)
    {
      double sum_in = 0, abs_in = 0, mom_in = 0, sum_out = 0, mom_out = 0;
      int first_nz = imax + 1, last_nz = imin - 1;
      for (int t = imin; t <= imax; ++t)
        {
          const double v = in[a][t];
          sum_in += v, abs_in += std::fabs(v), mom_in += v * (t * in_bin);
          if (v != 0)
            first_nz = std::min(first_nz, t), last_nz = std::max(last_nz, t);
        }
      for (int t = omin; t <= omax; ++t)
        {
          const double v = o[a][t];
          sum_out += v, mom_out += v * (t * out_bin + shift);
        }
      if (first_nz > last_nz)
        continue;
      const double eps = 1e-4 * (in_bin + out_bin);
      const bool covers = (omin - .5) * out_bin + shift <= (first_nz - .5) * in_bin + eps && (omax + .5) * out_bin + shift >= (last_nz + .5) * in_bin - eps;
      std::ostringstream w;
      w << what << ": view " << in.get_view_num() << " of " << pin.get_num_views() << " segment " << in.get_segment_num() << " axial position " << a
        << " zoom " << zoom << " bin size " << in_bin << " offsets (" << xoff << "," << yoff << ") mm, tangential range " << imin << ".." << imax << " -> "
        << omin << ".." << omax;
      if (covers)
        {
          ++oracle_checks;
          if (std::fabs(sum_out - sum_in) > 1e-4 * abs_in)
            oracle_fail("zoomed viewgram does not conserve the counts of a row although the new range covers the data: " + std::to_string(sum_in) + " -> "
                        + std::to_string(sum_out) + ": " + w.str());
          if (f.nonneg && sum_in > 0 && sum_out > 0)
            {
              ++oracle_checks;
              if (std::fabs(mom_out / sum_out - mom_in / sum_in) > 0.5 * (in_bin + out_bin) + 1e-3)
                oracle_fail("zoomed viewgram moves the centroid of a row by more than half the sum of the bin sizes: " + std::to_string(mom_in / sum_in)
                            + " mm -> " + std::to_string(mom_out / sum_out) + " mm: " + w.str());
            }
        }
      if (f.uniform)
        for (int t = omin; t <= omax; ++t)
          {
            const double l = (t - .5) * out_bin + shift, r = (t + .5) * out_bin + shift;
            const double e3 = 1e-3 * (in_bin + out_bin);
            if (l >= (f.b0 - .5) * in_bin + e3 && r <= (f.b1 + .5) * in_bin - e3)
              {
                ++oracle_checks;
                if (std::fabs(o[a][t] * zoom - f.c) > 2e-4 * f.c)
                  oracle_fail("zoomed viewgram of uniform data is not uniform (value*zoom != c) at tangential position " + std::to_string(t) + ": "
                              + std::to_string(o[a][t] * zoom) + " vs " + std::to_string(f.c) + ": " + w.str());
              }
          }
    }
}

// degen < 0: random requests; degen >= 0: the DEGENERATE requests in turn (bit 0: zoom exactly 1, bit 1: shift along x, bit 2: shift along y,
// bit 3: the same tangential range) on data sitting in the middle of the range, so that a shifted range of the same size still covers them
static void
run_zoom_viewgram(vh::Rng& rng, const int degen = -1)
{
  const int Ns[] = { 8, 10, 12, 16 };
  const int N = Ns[rng.range(0, 3)];
  const int R = rng.range(1, 3);
  const bool tof = rng.range(0, 3) == 0;
  shared_ptr<Scanner> scanner = vh::make_scanner(N, R, tof ? 3 : -1);
  const std::vector<int> dv = divisors(N / 2);
  const int views = N / 2 / dv[rng.range(0, (int)dv.size() - 1)];
  const int ntang = degen >= 0 ? rng.range(7, 9) : rng.range(2, 9);
  shared_ptr<ProjDataInfo> p = vh::make_pdi(scanner, 1, R - 1, views, ntang, true, tof ? 1 : 0);
  ProjDataInfoCylindricalArcCorr* pa = dynamic_cast<ProjDataInfoCylindricalArcCorr*>(p.get());
  ++oracle_checks;
  if (!pa)
    {
      oracle_fail("construct_proj_data_info(arc_corrected = true) does not return arc-corrected geometry");
      return;
    }
  if (rng.coin())
    pa->set_tangential_sampling(static_cast<float>(1 + rng.unit() * 3));
  const bool tilted = rng.range(0, 3) == 0;
  if (tilted)
    pa->set_azimuthal_angle_offset(static_cast<float>(rng.unit() - .5));
  if (rng.range(0, 3) == 0) // a tangential range that is not centred
    pa->set_max_tangential_pos_num(pa->get_max_tangential_pos_num() + rng.range(1, 2));
  const float in_bin = pa->get_tangential_sampling();
  const int imin = p->get_min_tangential_pos_num(), imax = p->get_max_tangential_pos_num();
  const int seg = rng.range(p->get_min_segment_num(), p->get_max_segment_num());
  const int view = rng.range(0, views - 1);
  const int tpos = rng.range(p->get_min_tof_pos_num(), p->get_max_tof_pos_num());

  VgFill f;
  const int kind = degen >= 0 ? rng.range(4, 5) : rng.range(0, 5); // 0,1: non-negative, 2: signed, 3: uniform everywhere, 4: uniform block, 5: one bin
  f.nonneg = kind != 2;
  f.uniform = kind >= 3;
  f.c = static_cast<float>(1 + rng.unit() * 5);
  f.b0 = imin, f.b1 = imax;
  if (kind >= 4)
    {
      const int margin = degen >= 0 ? 3 : 0;
      f.b0 = rng.range(imin + margin, imax - margin);
      f.b1 = kind == 5 ? f.b0 : rng.range(f.b0, imax - margin);
    }
  Viewgram<float> in = p->get_empty_viewgram(view, seg, false, tpos);
  fill_viewgram(in, f, rng);

  // ---- request
  float zoom = rand_zoom(rng);
  float xoff = rng.coin() ? 0.F : static_cast<float>((rng.unit() * 2 - 1) * in_bin * 2.5);
  float yoff = rng.coin() ? 0.F : static_cast<float>((rng.unit() * 2 - 1) * in_bin * 2.5);
  int omin, omax;
  if (rng.range(0, 2) != 0)
    { // a new range that covers the old one
      const int half = static_cast<int>(std::ceil((std::max(std::abs(imin), std::abs(imax)) + 1 + (std::fabs(xoff) + std::fabs(yoff)) / in_bin) * zoom)) + 1;
      omin = -half - rng.range(0, 1);
      omax = half + rng.range(0, 1);
    }
  else
    {
      omin = rng.range(-8, 2);
      omax = omin + rng.range(0, 10);
    }
  if (omax - omin > 40)
    { // keep the lines short
      omin = -20;
      omax = 20;
    }
  if (rng.range(0, 9) == 0)
    { // the identity request
      zoom = 1.F;
      xoff = yoff = 0.F;
      omin = imin;
      omax = imax;
    }
  if (degen >= 0)
    {
      zoom = (degen & 1) ? 1.F : (zoom == 1.F ? 2.F : zoom);
      auto shift = [&](bool on) {
        if (!on)
          return 0.F;
        const int ok = rng.range(0, 2);
        const float bins = ok == 0 ? 1.F : (ok == 1 ? .5F : static_cast<float>(0.25 + rng.unit() * .75));
        return (rng.coin() ? bins : -bins) * in_bin;
      };
      xoff = shift((degen & 2) != 0);
      yoff = shift((degen & 4) != 0);
      if (degen & 8)
        omin = imin, omax = imax;
      else if (omin == imin && omax == imax)
        ++omax;
    }
  const int nax = in.get_num_axial_poss();
  const std::string dat = viewgram_data(in, false);
  std::ostringstream req;
  req << "zoom=" << vh::hex(zoom) << " offsets=" << vh::hex(xoff) << "," << vh::hex(yoff) << " range " << omin << ".." << omax << " N=" << N << " R=" << R
      << " views=" << views << " view=" << view << " seg=" << seg << " tof=" << tpos << (tilted ? " (azimuthal offset)" : "");

  // A: zoom_viewgram(out_view, in_view, x, y); the geometry of the result is the one of out_view, whose previous contents must not matter
  shared_ptr<ProjDataInfo> pout(p->clone());
  ProjDataInfoCylindricalArcCorr* poa = dynamic_cast<ProjDataInfoCylindricalArcCorr*>(pout.get());
  poa->set_min_tangential_pos_num(omin);
  poa->set_max_tangential_pos_num(omax);
  poa->set_tangential_sampling(in_bin / zoom);
  const float out_bin = poa->get_tangential_sampling();
  Viewgram<float> A = pout->get_empty_viewgram(view, seg, false, tpos);
  for (auto it = A.begin_all(); it != A.end_all(); ++it)
    *it = rand_value(rng, true);
  ++n_ops, std::fprintf(ops, "zvg out | %s %s %s %s %s | %d %d %d %d %d |%s\n", vh::hex(in_bin).c_str(), vh::hex(out_bin).c_str(),
               vh::hex(pa->get_phi(Bin(seg, view, 0, 0))).c_str(), vh::hex(xoff).c_str(), vh::hex(yoff).c_str(), omin, omax - omin + 1, imin, imax - imin + 1, nax,
               dat.c_str());
  zoom_viewgram(A, in, xoff, yoff);
  ++n_out, std::fprintf(out, "%s\n", viewgram_data(A, true).c_str() + 1);
  viewgram_oracle(in, A, xoff, yoff, f, "zoom_viewgram(out, in, x, y): " + req.str());

  // B: zoom_viewgram(viewgram, zoom, min_tang, max_tang, x, y), replacing the viewgram
  Viewgram<float> B(in);
  ++n_ops, std::fprintf(ops, "zvg inpl | %s %s %s %s %s | %d %d %d %d %d |%s\n", vh::hex(in_bin).c_str(), vh::hex(zoom).c_str(),
               vh::hex(pa->get_phi(Bin(seg, view, 0, 0))).c_str(), vh::hex(xoff).c_str(), vh::hex(yoff).c_str(), omin, omax, imin, imax - imin + 1, nax, dat.c_str());
  zoom_viewgram(B, zoom, omin, omax, xoff, yoff);
  ++n_out, std::fprintf(out, "geom %d %d %s |%s\n", B.get_min_tangential_pos_num(), B.get_num_tangential_poss(), F(tang_sampling(B)).c_str(),
               viewgram_data(B, true).c_str());
  viewgram_oracle(in, B, xoff, yoff, f, "zoom_viewgram(viewgram, zoom, min, max, x, y): " + req.str());
  ++oracle_checks;
  {
    bool same = B.get_min_tangential_pos_num() == omin && B.get_max_tangential_pos_num() == omax && tang_sampling(B) == out_bin
                && B.get_min_axial_pos_num() == A.get_min_axial_pos_num() && B.get_max_axial_pos_num() == A.get_max_axial_pos_num();
    if (same)
      for (int a = A.get_min_axial_pos_num(); a <= A.get_max_axial_pos_num(); ++a)
        for (int t = omin; t <= omax; ++t)
          if (A[a][t] != B[a][t])
            same = false;
    if (!same)
      oracle_fail("zoom_viewgram(out, in, x, y) and zoom_viewgram(viewgram, zoom, min, max, x, y) give different results for the same request: " + req.str());
  }

  // C: zoom_viewgrams on the set of symmetry-related viewgrams (each view has its own angle, hence its own shift)
  if (rng.coin())
    {
      shared_ptr<DataSymmetriesForViewSegmentNumbers> symm;
      try
        {
          shared_ptr<const DiscretisedDensity<3, float>> img(vh::make_image(*p, 1.F, 5)); // (explicit size: the default size needs more than one view)
          symm.reset(new DataSymmetriesForBins_PET_CartesianGrid(p, img));
        }
      catch (...)
        {
          symm.reset(new TrivialDataSymmetriesForViewSegmentNumbers);
        }
      ViewSegmentNumbers vs(view, seg);
      symm->find_basic_view_segment_numbers(vs);
      RelatedViewgrams<float> rv = p->get_empty_related_viewgrams(vs, symm, false, tpos);
      VgFill fr = f;
      if (fr.uniform)
        fr.b0 = imin, fr.b1 = imax;
      for (RelatedViewgrams<float>::iterator it = rv.begin(); it != rv.end(); ++it)
        {
          fr.c = static_cast<float>(1 + rng.unit() * 5);
          fill_viewgram(*it, fr, rng);
        }
      const RelatedViewgrams<float> rv_in = rv;
      zoom_viewgrams(rv, zoom, omin, omax, xoff, yoff);
      ++oracle_checks;
      if (rv.get_num_viewgrams() != rv_in.get_num_viewgrams())
        oracle_fail("zoom_viewgrams changes the number of related viewgrams: " + req.str());
      RelatedViewgrams<float>::const_iterator ii = rv_in.begin();
      for (RelatedViewgrams<float>::const_iterator io = rv.begin(); io != rv.end() && ii != rv_in.end(); ++io, ++ii)
        {
          ++n_ops, std::fprintf(ops, "zvg rel | %s %s %s %s %s | %d %d %d %d %d |%s\n", vh::hex(in_bin).c_str(), vh::hex(zoom).c_str(),
                       vh::hex(pa->get_phi(Bin(ii->get_segment_num(), ii->get_view_num(), 0, 0))).c_str(), vh::hex(xoff).c_str(), vh::hex(yoff).c_str(), omin,
                       omax, imin, imax - imin + 1, ii->get_num_axial_poss(), viewgram_data(*ii, false).c_str());
          ++n_out, std::fprintf(out, "geom %d %d %s |%s\n", io->get_min_tangential_pos_num(), io->get_num_tangential_poss(), F(tang_sampling(*io)).c_str(),
                       viewgram_data(*io, true).c_str());
          // (uniform c differs per viewgram: recover it from the data)
          VgFill fi = fr;
          if (fi.uniform)
            fi.c = (*ii)[ii->get_min_axial_pos_num()][imin];
          viewgram_oracle(*ii, *io, xoff, yoff, fi, "zoom_viewgrams(related viewgrams, zoom, min, max, x, y): " + req.str());
        }
    }
}

// ---------------------------------------------------------------------------------------------- inverse_SSRB / extend_segment

static std::string
inv_ranges(const ProjDataInfo& p3, const ProjDataInfo& p4)
{
  std::ostringstream s;
  s << p3.get_min_view_num() << " " << p3.get_max_view_num() << " " << p3.get_min_tangential_pos_num() << " " << p3.get_max_tangential_pos_num() << " "
    << p4.get_min_view_num() << " " << p4.get_max_view_num() << " " << p4.get_min_tangential_pos_num() << " " << p4.get_max_tangential_pos_num();
  return s.str();
}

static void
run_inverse_ssrb(vh::Rng& rng)
{
  // (at most N/2 - 1 = 5 tangential positions; sometimes ONE ring: a single direct sinogram, a single segment with a single axial position)
  const int N = 12, R = rng.range(0, 9) == 0 ? 1 : rng.range(2, 7);
  const bool tof = rng.range(0, 3) == 0;
  shared_ptr<Scanner> scanner = vh::make_scanner(N, R, tof ? 3 : -1);
  const int span4 = (rng.coin() && 3 <= 2 * R - 1) ? 3 : 1;
  const int md4 = rng.range((span4 - 1) / 2, R - 1);
  // the guards: sometimes the direct sinograms have other views / tangential positions than the 4D data
  // (0: compatible; 1,2: number of views; 3: tangential range with another first index; 4,5: same first index, another last index)
  const int mismatch = rng.range(0, 4) == 0 ? rng.range(1, 5) : 0;
  int views3 = N / 2, views4 = N / 2, ntang3 = 3, ntang4 = 3;
  switch (mismatch)
    {
    case 1: views4 = N / 4; break;
    case 2: views3 = N / 4; break;
    case 3: ntang3 = 3, ntang4 = 4; break;
    case 4: ntang3 = 4, ntang4 = 5; break;
    case 5: ntang3 = 5, ntang4 = 4; break;
    }
  shared_ptr<ProjDataInfo> p4 = vh::make_pdi(scanner, span4, md4, views4, ntang4, false, tof ? 1 : 0);
  shared_ptr<ProjDataInfo> p3;
  const int kind = rng.range(0, 3);
  float rs3 = scanner->get_ring_spacing();
  if (kind == 3)
    { // direct sinograms of a scanner with another ring spacing: the 4D axial positions fall at arbitrary fractions between them
      const float spacings[] = { 3.F, 2.5F, 5.F, 3.5F };
      rs3 = spacings[rng.range(0, 3)];
      shared_ptr<Scanner> scanner3(new Scanner(*scanner));
      scanner3->set_ring_spacing(rs3);
      const bool span3 = rng.coin() && R >= 2;
      p3 = vh::make_pdi(scanner3, span3 ? 3 : 1, span3 ? 1 : 0, views3, ntang3, false, tof ? 1 : 0);
    }
  else if (kind == 0)
    p3 = vh::make_pdi(scanner, 1, 0, views3, ntang3, false, tof ? 1 : 0);
  else if (kind == 1 && R >= 2)
    p3 = vh::make_pdi(scanner, 3, 1, views3, ntang3, false, tof ? 1 : 0);
  else
    {
      shared_ptr<ProjDataInfo> full = vh::make_pdi(scanner, 1, R - 1, views3, ntang3, false, tof ? 1 : 0);
      p3.reset(SSRB(*full, 2 * R - 1, 1, 0, -1, 1)); // the classical single-slice rebinning geometry
    }
  auto c3 = dynamic_pointer_cast<ProjDataInfoCylindrical>(p3);
  auto c4 = dynamic_pointer_cast<ProjDataInfoCylindrical>(p4);
  if (!c3 || !c4)
    return;
  shared_ptr<ExamInfo> ei(new ExamInfo);
  const std::string geoms = "R=" + std::to_string(R) + " 3D{" + geom_str(*c3) + "} 4D{" + geom_str(*c4) + "}";
  for (int pass = 0; pass < (mismatch ? 1 : 2); ++pass) // pass 0: random bins (correspondence + interpolation oracle), pass 1: ramp in m (oracle)
    {
      ProjDataInMemory d3(ei, p3), d4(ei, p4);
      d4.fill(7.F); // previous contents must not matter
      std::ostringstream o;
      o << "invssrb " << p4->get_min_tof_pos_num() << " " << p4->get_max_tof_pos_num() << " " << vh::hex(rs3) << " " << vh::hex(scanner->get_ring_spacing())
        << " | " << c3->get_min_ring_difference(0) << ","
        << c3->get_max_ring_difference(0) << "," << c3->get_num_axial_poss(0) << " | " << c4->get_min_segment_num();
      for (int sg = c4->get_min_segment_num(); sg <= c4->get_max_segment_num(); ++sg)
        o << " " << c4->get_min_ring_difference(sg) << "," << c4->get_max_ring_difference(sg) << "," << c4->get_num_axial_poss(sg);
      o << " | " << inv_ranges(*p3, *p4) << " |";
      const bool constant = pass == 0 && rng.range(0, 5) == 0; // sometimes constant sinograms
      for (int k = p3->get_min_tof_pos_num(); k <= p3->get_max_tof_pos_num(); ++k)
        for (int a = p3->get_min_axial_pos_num(0); a <= p3->get_max_axial_pos_num(0); ++a)
          {
            Sinogram<float> sino = d3.get_empty_sinogram(a, 0, false, k);
            const float c = pass == 0 ? rand_value(rng, true) : c3->get_m(Bin(0, 0, a, 0)) + 100.F + k;
            for (int v = sino.get_min_view_num(); v <= sino.get_max_view_num(); ++v)
              for (int t = sino.get_min_tangential_pos_num(); t <= sino.get_max_tangential_pos_num(); ++t)
                {
                  sino[v][t] = (pass == 1 || constant) ? c : rand_value(rng, true);
                  o << " " << vh::hex(sino[v][t]);
                }
            d3.set_sinogram(sino);
          }
      if (pass == 0)
        ++n_ops, std::fprintf(ops, "%s\n", o.str().c_str());
      if (mismatch)
        { // must be refused; in a child process (adding sinograms of different sizes)
          std::string res;
          const int st = run_in_child(
              [&] {
                const Succeeded r = inverse_SSRB(d4, d3);
                return std::string(r == Succeeded::yes ? "yes" : "no");
              },
              res);
          ++n_out, std::fprintf(out, "%s\n", st == 0 ? res.c_str() : (st == 1 ? "err" : "crash"));
          ++oracle_checks;
          if (!(st == 0 && res == "no"))
            oracle_fail("inverse_SSRB does not refuse direct sinograms whose views / tangential positions (" + inv_ranges(*p3, *p4)
                        + ": min/max view, min/max tangential position of the 3D, then of the 4D data) differ from those of the 4D data: returns "
                        + (st == 0 ? res : std::string(st == 1 ? "an exception" : "a crash")) + ": " + geoms);
          continue;
        }
      bool ok = true;
      try
        {
          ok = inverse_SSRB(d4, d3) == Succeeded::yes;
        }
      catch (...)
        {
          ok = false;
        }
      if (!ok)
        {
          if (pass == 0)
            ++n_out, std::fprintf(out, "err\n");
          continue;
        }
      std::ostringstream a;
      const int a3lo = p3->get_min_axial_pos_num(0), a3hi = p3->get_max_axial_pos_num(0);
      const float m_lo = c3->get_m(Bin(0, 0, a3lo, 0)), m_hi = c3->get_m(Bin(0, 0, a3hi, 0));
      for (int sg = p4->get_min_segment_num(); sg <= p4->get_max_segment_num(); ++sg)
        for (int ax = p4->get_min_axial_pos_num(sg); ax <= p4->get_max_axial_pos_num(sg); ++ax)
          for (int k = p4->get_min_tof_pos_num(); k <= p4->get_max_tof_pos_num(); ++k)
            {
              const Sinogram<float> sino = d4.get_sinogram(ax, sg, false, k);
              for (int v = sino.get_min_view_num(); v <= sino.get_max_view_num(); ++v)
                for (int t = sino.get_min_tangential_pos_num(); t <= sino.get_max_tangential_pos_num(); ++t)
                  a << " " << F(sino[v][t]);
              const float out_m = c4->get_m(Bin(sg, 0, ax, 0));
              // ORACLE ("physical positions"): a ramp in m is reproduced at the output's m
              if (pass == 1 && out_m >= m_lo - 1e-3 && out_m <= m_hi + 1e-3)
                {
                  ++oracle_checks;
                  const float v = sino[sino.get_min_view_num()][sino.get_min_tangential_pos_num()];
                  if (std::fabs(v - (out_m + 100.F + k)) > 2e-3 || sino.find_max() != sino.find_min())
                    oracle_fail("inverse_SSRB does not place data at the output's axial position: ramp value " + std::to_string(v) + " at m="
                                + std::to_string(out_m) + " " + geoms);
                }
              // ORACLE, every bin: between the axial positions of the direct sinograms the output is their linear interpolation in m, bin by bin
              // (a direct sinogram at the same m is copied)
              if (pass == 0 && out_m >= m_lo - 1e-4 && out_m <= m_hi + 1e-4)
                {
                  int al = a3lo;
                  for (int a3 = a3lo; a3 <= a3hi; ++a3)
                    if (c3->get_m(Bin(0, 0, a3, 0)) <= out_m + 1e-4)
                      al = a3;
                  const int ar = std::min(al + 1, a3hi);
                  const double ml = c3->get_m(Bin(0, 0, al, 0)), mr = c3->get_m(Bin(0, 0, ar, 0));
                  double wr = ar == al ? 0. : (out_m - ml) / (mr - ml);
                  if (std::fabs(out_m - ml) <= 1e-4)
                    wr = 0.;
                  const Sinogram<float> sl = d3.get_sinogram(al, 0, false, k), sr = d3.get_sinogram(ar, 0, false, k);
                  bool same = true;
                  double worst = 0;
                  for (int v = sino.get_min_view_num(); v <= sino.get_max_view_num(); ++v)
                    for (int t = sino.get_min_tangential_pos_num(); t <= sino.get_max_tangential_pos_num(); ++t)
                      {
                        const double expect = (1 - wr) * sl[v][t] + wr * sr[v][t];
                        const double err = std::fabs(sino[v][t] - expect);
                        worst = std::max(worst, err);
                        if (err > 1e-4 * (std::fabs(sl[v][t]) + std::fabs(sr[v][t])) + 1e-30)
                          same = false;
                      }
                  ++oracle_checks;
                  if (!same)
                    oracle_fail("inverse_SSRB: a 4D sinogram (segment " + std::to_string(sg) + ", axial position " + std::to_string(ax) + ", TOF " + std::to_string(k)
                                + ", m=" + std::to_string(out_m) + ") is not, bin by bin, the linear interpolation in m of the two direct sinograms around it (m="
                                + std::to_string(ml) + "," + std::to_string(mr) + "; largest difference " + std::to_string(worst) + "): " + geoms);
                }
            }
      if (pass == 0)
        ++n_out, std::fprintf(out, "%s\n", a.str().c_str() + 1);
    }
}

static void
run_extend(vh::Rng& rng)
{
  // (4 views put |phi_range - 2 pi| exactly on the 5-samplings threshold of the source: decided by float rounding, not generated)
  const int Ns[] = { 10, 12, 14, 20 };
  const int N = Ns[rng.range(0, 3)];
  const int R = rng.range(0, 7) == 0 ? 1 : rng.range(2, 4); // (one ring: a segment with a single axial position)
  const int views = N == 20 && rng.coin() ? 5 : N / 2;
  const int ntang = rng.range(3, N / 2 - 1);
  shared_ptr<Scanner> scanner = vh::make_scanner(N, R, -1);
  shared_ptr<ProjDataInfo> p = vh::make_pdi(scanner, 1, R - 1, views, ntang, false, 0);
  // angular coverage: azimuthal sampling k*pi/views, k = kn/kd: 1 (the 180 degrees of PET data), 2 (360 degrees, as SPECT data), others (neither)
  const int ks[][2] = { { 1, 1 }, { 1, 1 }, { 1, 1 }, { 2, 1 }, { 2, 1 }, { 2, 1 }, { 1, 2 }, { 4, 3 }, { 3, 2 }, { 3, 1 } };
  int kn = 1, kd = 1;
  {
    const int pick = rng.range(0, 9);
    kn = ks[pick][0], kd = ks[pick][1];
    // a comparison of the source that would be decided by float rounding: not generated
    if (std::abs((views - 1) * kn - 2 * views * kd) == 5 * kn || std::abs((views - 1) * kn - views * kd) == 5 * kn)
      kn = kd = 1;
  }
  if (kn != kd)
    dynamic_cast<ProjDataInfoCylindrical&>(*p).set_azimuthal_angle_sampling(static_cast<float>(kn * _PI / (kd * views)));
  const int segnum = (R > 1 && rng.range(0, 2) == 0) ? 1 : 0;
  SegmentBySinogram<float> seg = p->get_empty_segment_by_sinogram(segnum);
  for (auto it = seg.begin_all(); it != seg.end_all(); ++it)
    *it = rand_value(rng, true);
  const int ve = rng.range(0, views / 2), ae = rng.range(0, 2), te = rng.range(0, 2);
  // (round 4) class of the finding `extend:180-degrees-asymmetric-tangential-range-zeros-in-added-views`: 180 degrees of views (added views =
  // mirrored views), a tangential range that is not symmetric (the usual -n/2 .. n/2-1 of an even number of positions), a tangential
  // extension: the source mirrors within the EXTENDED tangential range, whose added positions are still empty at that point, and the added
  // views get zeros at the lowest tangential positions.  Probed with uniform data (independent of the random values): if zeros appear the
  // case is reported under the stable key and not compared with the model (which states the documented behaviour; repair: docs/fixes/C15-5).
  {
    const float sampling = dynamic_cast<ProjDataInfoCylindrical&>(*p).get_azimuthal_angle_sampling();
    const float range = (views - 1) * sampling;
    const bool flips = views >= 2 && !(std::fabs(range - 2 * _PI) < 5 * sampling) && std::fabs(range - _PI) < 5 * sampling && segnum == 0;
    if (flips && te > 0 && ve > 0 && seg.get_min_tangential_pos_num() != -seg.get_max_tangential_pos_num())
      {
        SegmentBySinogram<float> ones = p->get_empty_segment_by_sinogram(segnum);
        ones.fill(1.F);
        const Array<3, float> e1 = extend_segment(ones, ve, ae, te);
        long zeros = 0;
        for (auto it = e1.begin_all(); it != e1.end_all(); ++it)
          if (*it != 1.F)
            ++zeros;
        ++oracle_checks;
        if (zeros > 0)
          {
            ++oracle_fails;
            static bool reported = false;
            if (!reported)
              std::fprintf(orc,
                           "KNOWN-CANDIDATE extend:180-degrees-asymmetric-tangential-range-zeros-in-added-views extend_segment of data covering 180 "
                           "degrees with tangential positions %d..%d (not symmetric), view_extension %d, tangential_extension %d: segment filled with 1 "
                           "comes back with %ld entries that are not 1 (zeros in the added views at the lowest tangential positions): the mirroring of "
                           "the added views reads the not yet filled tangential extension (repair: docs/fixes/C15-5.diff)\n",
                           seg.get_min_tangential_pos_num(), seg.get_max_tangential_pos_num(), ve, te, zeros);
            reported = true;
            return;
          }
      }
  }
  std::ostringstream o;
  o << "ext " << segnum << " " << views << " " << kn << " " << kd << " | " << seg.get_min_axial_pos_num() << " " << seg.get_min_view_num() << " "
    << seg.get_min_tangential_pos_num() << " " << seg.get_num_axial_poss() << " " << seg.get_num_views() << " " << seg.get_num_tangential_poss() << " | " << ve
    << " " << ae << " " << te << " |";
  for (auto it = seg.begin_all(); it != seg.end_all(); ++it)
    o << " " << vh::hex(*it);
  ++n_ops, std::fprintf(ops, "%s\n", o.str().c_str());
  try
    {
      const Array<3, float> e = extend_segment(seg, ve, ae, te);
      std::ostringstream a;
      a << e.get_min_index() << " " << e[e.get_min_index()].get_min_index() << " " << e[e.get_min_index()][e[e.get_min_index()].get_min_index()].get_min_index()
        << " " << e.get_length() << " " << e[e.get_min_index()].get_length() << " " << e[e.get_min_index()][e[e.get_min_index()].get_min_index()].get_length()
        << " |";
      for (auto it = e.begin_all(); it != e.end_all(); ++it)
        a << " " << F(*it);
      ++n_out, std::fprintf(out, "%s\n", a.str().c_str());
      // ORACLE: the original data are untouched; nothing but existing values appears
      std::set<float> vals(seg.begin_all(), seg.end_all());
      bool ok = true;
      for (int ax = seg.get_min_axial_pos_num(); ax <= seg.get_max_axial_pos_num(); ++ax)
        for (int v = seg.get_min_view_num(); v <= seg.get_max_view_num(); ++v)
          for (int tp = seg.get_min_tangential_pos_num(); tp <= seg.get_max_tangential_pos_num(); ++tp)
            if (e[ax][v][tp] != seg[ax][v][tp])
              ok = false;
      for (auto it = e.begin_all(); it != e.end_all(); ++it)
        if (!vals.count(*it))
          ok = false;
      ++oracle_checks;
      if (!ok)
        oracle_fail("extend_segment changes the data inside the original range or invents values: " + o.str().substr(0, 60));
      // ORACLE (physical positions): the added views are the views at the same angle modulo the period:
      // 360 degrees: view v +- V is view v; 180 degrees (segment 0): view v +- V is view v with the tangential coordinate mirrored
      const int V = seg.get_num_views(), v0 = seg.get_min_view_num(), v1 = seg.get_max_view_num();
      const int t0 = seg.get_min_tangential_pos_num(), t1 = seg.get_max_tangential_pos_num();
      if ((kn == 2 && kd == 1) || (kn == 1 && kd == 1 && segnum == 0))
        {
          const bool flip = kn == 1;
          bool periodic = true;
          for (int ax = seg.get_min_axial_pos_num(); ax <= seg.get_max_axial_pos_num(); ++ax)
            for (int j = 1; j <= ve; ++j)
              for (int tp = t0; tp <= t1; ++tp)
                {
                  const int ts = flip ? -tp : tp;
                  if (ts < t0 || ts > t1)
                    continue;
                  if (e[ax][v0 - j][tp] != seg[ax][v0 - j + V][ts] || e[ax][v1 + j][tp] != seg[ax][v1 + j - V][ts])
                    periodic = false;
                }
          ++oracle_checks;
          if (!periodic)
            oracle_fail(std::string("extend_segment: an added view does not hold the data of the view at the same angle (")
                        + (flip ? "180 degrees: v +- V with mirrored tangential position" : "360 degrees: v +- V") + "): " + o.str().substr(0, 60));
        }
    }
  catch (...)
    {
      ++n_out, std::fprintf(out, "err\n");
    }
}

struct InCfg
{
  int N, R, span, max_delta, views, ntang, T, tof_mash;
  float rs = 0.F; // ring spacing in mm; 0: the 4 mm of vh::make_scanner
};

// ring spacings that are NOT dyadic rationals (round 4): the quotient m-range / axial sampling is then not exact in binary32, and
// whether it comes out an ulp below the integer depends on the spacing and on the number of axial positions.  The first ones are those of
// predefined scanners (Scanner.cxx), the others are decimals for which fl(fl(n*s)/s) < n for some small n.
static const float nondyadic_spacings[] = { 3.1F,   3.27F, 4.85F, 6.54F, 2.208F, 4.0546F, 5.3F,  2.65F, 3.29114F, 5.56F,  5.52296F, 3.3F,
                                            4.3F,   1.7F,  5.1F,  1.4F,  6.3F,   1.17F,   2.2F,  4.054F, 3.9655F, 2.425F, 1.1F,     7.7F };
static const int n_nondyadic_spacings = sizeof(nondyadic_spacings) / sizeof(nondyadic_spacings[0]);

static float
rand_ring_spacing(vh::Rng& rng)
{
  const int k = rng.range(0, 9);
  if (k < 6)
    return nondyadic_spacings[rng.range(0, n_nondyadic_spacings - 1)];
  if (k < 8) // any decimal with two digits, 1.00 .. 9.99 mm
    return static_cast<float>(rng.range(100, 999)) / 100.F;
  if (k == 8) // any float
    return static_cast<float>(1.0 + rng.unit() * 8.0);
  return 4.F;
}

static shared_ptr<Scanner>
make_scanner_of(const InCfg& c)
{
  shared_ptr<Scanner> scanner = vh::make_scanner(c.N, c.R, c.T);
  if (c.rs > 0.F)
    scanner->set_ring_spacing(c.rs);
  return scanner;
}

static InCfg
gen_in_cfg(vh::Rng& rng, bool thorough)
{
  InCfg c;
  c.N = 2 * rng.range(2, thorough ? 16 : 10);
  c.R = rng.range(1, thorough ? 11 : 8);
  const int kind = rng.range(0, 9);
  c.span = kind < 5 ? 1 : (kind < 8 ? 3 : (kind == 8 ? 5 : 7));
  if (c.span > 2 * c.R - 1)
    c.span = 1;
  c.max_delta = rng.range(0, 2) == 0 ? rng.range((c.span - 1) / 2, c.R - 1) : c.R - 1;
  const std::vector<int> dv = divisors(c.N / 2);
  c.views = c.N / 2 / dv[rng.range(0, (int)dv.size() - 1)];
  c.ntang = std::max(1, c.N / 2 - 1 - (rng.range(0, 3) == 0 ? rng.range(0, 2) : 0));
  const bool tof = rng.range(0, 1) == 0;
  c.T = tof ? 2 * rng.range(1, 7) + 1 : -1;
  c.tof_mash = 0;
  if (tof)
    {
      std::vector<int> od;
      for (int d = 1; d <= c.T; d += 2)
        if ((c.T / d) % 2 == 1)
          od.push_back(d);
      c.tof_mash = od[rng.range(0, (int)od.size() - 1)];
      if (rng.range(0, 7) == 0)
        c.tof_mash = 0; // non-TOF data of a TOF scanner
    }
  c.rs = rng.range(0, 3) == 0 ? 0.F : rand_ring_spacing(rng);
  return c;
}

static SsrbParams
gen_params(const ProjDataInfoCylindricalNoArcCorr& in, vh::Rng& rng, bool malformed)
{
  SsrbParams p;
  const int maxseg = in.get_max_segment_num();
  const int ks[] = { 1, 1, 3, 3, 3, 5 };
  p.kSeg = ks[rng.range(0, 5)];
  const std::vector<int> dv = divisors(in.get_num_views());
  p.kView = dv[rng.range(0, (int)dv.size() - 1)];
  if (rng.range(0, 2) == 0)
    p.kView = 1;
  const int nt = in.get_num_tangential_poss();
  p.trim = rng.range(0, 1) ? 0 : (rng.range(0, 2) ? rng.range(1, std::max(1, nt - 1)) : -rng.range(1, 3));
  if (p.trim >= nt)
    p.trim = 0;
  p.maxSeg = rng.range(0, 1) ? -1 : rng.range(0, maxseg);
  p.kTof = 1;
  if (in.get_tof_mash_factor() > 0)
    {
      const int T = in.get_scanner_ptr()->get_max_num_timing_poss();
      std::vector<int> ok;
      for (int k = 1; k * in.get_tof_mash_factor() <= T; k += 2)
        if ((T / (k * in.get_tof_mash_factor())) % 2 == 1)
          ok.push_back(k);
      p.kTof = ok[rng.range(0, (int)ok.size() - 1)];
    }
  else if (rng.range(0, 3) == 0)
    p.kTof = 3;
  if (malformed)
    {
      switch (rng.range(0, 5))
        {
        case 0:
          p.kSeg = 2 * rng.range(0, 2);
          break;
        case 1:
          p.trim = nt + rng.range(0, 2);
          break;
        case 2:
          p.maxSeg = maxseg + 1 + rng.range(0, 2);
          break;
        case 3:
          p.kTof = -rng.range(0, 2);
          break;
        case 4:
          p.kTof = in.get_tof_mash_factor() > 0 ? 2 * in.get_scanner_ptr()->get_max_num_timing_poss() + 1 : 0;
          break;
        case 5: // a number of views to combine that does not divide the number of views (no check in SSRB(info); SSRB(data) may error)
          p.kView = std::min(in.get_num_views(), 2 + rng.range(0, 3));
          break;
        }
    }
  return p;
}

// undefined behaviour in SSRB(info): it reads ring differences of input segments that do not exist
// (the guard `out_max_segment_num < 0` is defeated by truncating division when max_in_segment < num_segments_to_combine/2)
static bool
reads_missing_segment(const ProjDataInfoCylindricalNoArcCorr& in, const SsrbParams& p)
{
  if (p.kSeg <= 0 || p.kSeg % 2 == 0)
    return false; // error() before
  const int maxIn = p.maxSeg >= 0 ? p.maxSeg : in.get_max_segment_num();
  if (maxIn > in.get_max_segment_num())
    return false; // error() before
  const int outMax = (maxIn - p.kSeg / 2) / p.kSeg;
  if (outMax < 0)
    return false;
  return outMax * p.kSeg + p.kSeg / 2 > in.get_max_segment_num();
}

static void
run_ssrb_case(const InCfg& c, vh::Rng& rng, bool thorough, int forced_kseg = 0)
{
  shared_ptr<Scanner> scanner = make_scanner_of(c);
  shared_ptr<ProjDataInfo> pdi0;
  try
    {
      pdi0 = vh::make_pdi(scanner, c.span, c.max_delta, c.views, c.ntang, false, c.tof_mash);
    }
  catch (...)
    {
      return;
    }
  shared_ptr<const ProjDataInfoCylindricalNoArcCorr> in = dynamic_pointer_cast<ProjDataInfoCylindricalNoArcCorr>(pdi0);
  if (!in)
    return;
  const int depth = rng.range(0, 3) == 0 ? 2 : 1; // sometimes rebin the rebinned geometry again
  for (int level = 0; level < depth && in; ++level)
    {
      print_cfg(*in);
      const int ntries = level == 0 ? 3 : 1;
      shared_ptr<ProjDataInfoCylindricalNoArcCorr> last_out;
      for (int k = 0; k < ntries; ++k)
        {
          SsrbParams p = gen_params(*in, rng, k == 2);
          if (forced_kseg && k == 0)
            {
              p.kSeg = forced_kseg;
              p.maxSeg = -1;
            }
          if (reads_missing_segment(*in, p))
            p.kSeg = 1;
          shared_ptr<ProjDataInfoCylindricalNoArcCorr> o = run_ssrb_info(in, p);
          if (!o)
            continue;
          if (o->get_num_views() == 0)
            continue;
          const bool also_norm = rng.range(0, 2) == 0;
          run_ssrb_data(in, o, p, rng, thorough ? 260 : 140, also_norm, rng.range(0, 3) == 0);
          last_out = o;
        }
      in = last_out;
    }
}

// SSRB with identity-like settings ONE AT A TIME on one input geometry: the full identity request, then each argument alone away from
// its identity value (the others at theirs).  The oracles of run_ssrb_info / run_ssrb_data say what must stay as it is.
static void
run_ssrb_identity_like(const InCfg& c, vh::Rng& rng, bool thorough)
{
  shared_ptr<Scanner> scanner = make_scanner_of(c);
  shared_ptr<ProjDataInfo> pdi0;
  try
    {
      pdi0 = vh::make_pdi(scanner, c.span, c.max_delta, c.views, c.ntang, false, c.tof_mash);
    }
  catch (...)
    {
      return;
    }
  shared_ptr<const ProjDataInfoCylindricalNoArcCorr> in = dynamic_pointer_cast<ProjDataInfoCylindricalNoArcCorr>(pdi0);
  if (!in)
    return;
  print_cfg(*in);
  const SsrbParams id = { 1, 1, 0, -1, 1 };
  std::vector<SsrbParams> list;
  list.push_back(id);
  {
    SsrbParams p = id;
    p.kSeg = (in->get_max_segment_num() >= 2 && rng.coin()) ? 5 : 3;
    if (!reads_missing_segment(*in, p) && in->get_max_segment_num() >= p.kSeg / 2)
      list.push_back(p);
  }
  {
    const std::vector<int> dv = divisors(in->get_num_views());
    if (dv.size() > 1)
      {
        SsrbParams p = id;
        p.kView = dv[rng.range(1, (int)dv.size() - 1)];
        list.push_back(p);
      }
  }
  {
    SsrbParams p = id;
    const int nt = in->get_num_tangential_poss();
    p.trim = (nt > 1 && rng.coin()) ? rng.range(1, std::min(2, nt - 1)) : -rng.range(1, 2);
    list.push_back(p);
  }
  {
    SsrbParams p = id;
    p.maxSeg = rng.range(0, in->get_max_segment_num());
    list.push_back(p);
  }
  {
    SsrbParams p = id;
    if (in->get_tof_mash_factor() > 0)
      {
        const int T = in->get_scanner_ptr()->get_max_num_timing_poss();
        std::vector<int> ok;
        for (int k = 3; k * in->get_tof_mash_factor() <= T; k += 2)
          if ((T / (k * in->get_tof_mash_factor())) % 2 == 1)
            ok.push_back(k);
        if (!ok.empty())
          p.kTof = ok[rng.range(0, (int)ok.size() - 1)];
      }
    else
      p.kTof = 3;
    if (p.kTof != 1)
      list.push_back(p);
  }
  for (std::size_t k = 0; k < list.size(); ++k)
    {
      shared_ptr<ProjDataInfoCylindricalNoArcCorr> o = run_ssrb_info(in, list[k]);
      if (!o || o->get_num_views() == 0)
        continue;
      run_ssrb_data(in, o, list[k], rng, thorough ? 120 : 60, k == 0 || rng.range(0, 2) == 0, rng.range(0, 3) == 0);
    }
}

// input geometries with a single segment and / or a single axial position per segment
static InCfg
gen_degenerate_cfg(vh::Rng& rng, const int which)
{
  InCfg c = gen_in_cfg(rng, false);
  switch (which % 5)
    {
    case 0: // one ring: one segment with one axial position
      c.R = 1, c.span = 1, c.max_delta = 0;
      break;
    case 1: // direct sinograms only: one segment
      c.R = std::max(2, c.R), c.span = 1, c.max_delta = 0;
      break;
    case 2: // span 1, all ring differences: the outermost segments have one axial position
      c.R = std::max(2, std::min(c.R, 5)), c.span = 1, c.max_delta = c.R - 1;
      break;
    case 3: // all ring differences in ONE segment
      c.R = rng.range(2, 4), c.span = 2 * c.R - 1, c.max_delta = c.R - 1;
      break;
    case 4: // two rings: span 3 (one segment, 3 axial positions) or span 1 (segments +-1 with one axial position)
      c.R = 2, c.span = rng.coin() ? 3 : 1, c.max_delta = 1;
      break;
    }
  return c;
}


// ---------------------------------------------------------------------------------------------- round 4: real scanners, non-dyadic ring spacings

// number of events for `ssrbdata` such that the MODEL (which scans all output sinograms x all input segments per input bin, like the
// source) stays cheap; 0: geometry too large for the data comparison (geometry operations and their oracles only)
static int
events_for(const ProjDataInfoCylindricalNoArcCorr& in, const ProjDataInfoCylindricalNoArcCorr& o, int max_events)
{
  double out_sinos = 0;
  for (int sg = o.get_min_segment_num(); sg <= o.get_max_segment_num(); ++sg)
    out_sinos += o.get_num_axial_poss(sg);
  out_sinos *= o.get_num_tof_poss();
  const double cost = out_sinos * in.get_num_segments();
  if (cost > 1.7e5)
    return 0;
  return static_cast<int>(std::max(6.0, std::min<double>(max_events, 1.0e6 / cost)));
}

// one input geometry: the identity request, segments combined (3, sometimes 5), a restricted maximum segment, a random legal request;
// geometry (ssrbinfo / ssrbm / ssrbphi + oracles) always, data (ev / ssrbdata + oracles) when the geometry is small enough
static void
run_ssrb_on_geometry(const shared_ptr<const ProjDataInfoCylindricalNoArcCorr>& in, vh::Rng& rng, bool with_data, int max_events, bool allow_file)
{
  print_cfg(*in);
  const SsrbParams id = { 1, 1, 0, -1, 1 };
  const int maxseg = in->get_max_segment_num();
  std::vector<SsrbParams> list;
  list.push_back(id);
  if (maxseg >= 1)
    {
      SsrbParams p = id;
      p.kSeg = 3;
      if (!reads_missing_segment(*in, p))
        list.push_back(p);
    }
  if (maxseg >= 2 && rng.coin())
    {
      SsrbParams p = id;
      p.kSeg = 5;
      if (!reads_missing_segment(*in, p))
        list.push_back(p);
    }
  if (maxseg >= 1)
    {
      SsrbParams p = id;
      p.maxSeg = rng.range(0, maxseg);
      p.kSeg = rng.coin() ? 1 : 3;
      if (reads_missing_segment(*in, p) || p.maxSeg < p.kSeg / 2)
        p.kSeg = 1;
      list.push_back(p);
    }
  {
    SsrbParams p = gen_params(*in, rng, false);
    if (reads_missing_segment(*in, p))
      p.kSeg = 1;
    list.push_back(p);
  }
  const std::size_t extra_data = 2 + static_cast<std::size_t>(rng.range(0, 2));
  for (std::size_t k = 0; k < list.size(); ++k)
    {
      shared_ptr<ProjDataInfoCylindricalNoArcCorr> o = run_ssrb_info(in, list[k]);
      if (!o || o->get_num_views() == 0 || !with_data)
        continue;
      if (k >= 2 && k != extra_data)
        continue; // data for the identity request, for 3 segments combined and for one of the other requests
      const int nev = events_for(*in, *o, max_events);
      if (nev > 0)
        run_ssrb_data(in, o, list[k], rng, nev, k == 0 || rng.range(0, 3) == 0, allow_file && rng.range(0, 3) == 0);
    }
}

// a REAL predefined scanner of Scanner.cxx (true number of rings and ring spacing), span 1 and a "default" span (GE: the mixed
// ProjDataInfoGE geometry -- segment 0 with ring differences -1..1, the others with a single one; others: an odd span), all ring
// differences, and -- to have data on the scanners with many rings -- a geometry with a clipped maximum ring difference.
// Only the axial structure matters: few views (a divisor of N/2) and few tangential positions.
static void
run_real_scanner(const int type, vh::Rng& rng, const bool thorough)
{
  shared_ptr<Scanner> sc(new Scanner(static_cast<Scanner::Type>(type)));
  const int N = sc->get_num_detectors_per_ring(), R = sc->get_num_rings();
  if (sc->get_scanner_geometry() != "Cylindrical" || R < 1 || N < 4 || N % 2 != 0)
    return;
  std::vector<int> vcand;
  for (int v : divisors(N / 2))
    if (v >= 2 && v <= 14)
      vcand.push_back(v);
  const int views = vcand.empty() ? N / 2 : vcand[rng.range(0, (int)vcand.size() - 1)];
  const int ntang = rng.range(3, 9);
  const bool is_ge = sc->get_name().substr(0, 3) == "GE ";
  int tof_mash = 0;
  if (sc->is_tof_ready() && rng.range(0, 2) != 0)
    {
      const int T = sc->get_max_num_timing_poss();
      std::vector<int> ok;
      for (int d = 1; d <= 5; d += 2)
        if (T % d == 0 && (T / d) % 2 == 1)
          ok.push_back(T / d);
      if (T % 2 == 1)
        ok.push_back(T); // one TOF bin
      if (!ok.empty())
        tof_mash = ok[rng.range(0, (int)ok.size() - 1)];
    }
  struct Variant
  {
    int span; // 0: ProjDataInfoGE
    int max_delta;
  };
  std::vector<Variant> vars;
  vars.push_back({ 1, R - 1 });
  if (R >= 2)
    {
      if (is_ge)
        vars.push_back({ 0, R - 1 });
      std::vector<int> spans;
      for (int sp = 3; sp <= std::min(2 * R - 1, 23); sp += 2)
        spans.push_back(sp);
      if (!spans.empty())
        {
          if (thorough)
            for (int sp : spans)
              vars.push_back({ sp, R - 1 });
          else
            vars.push_back({ spans[rng.range(0, (int)spans.size() - 1)], R - 1 });
        }
      if (R > 30) // data on the long scanners
        {
          vars.push_back({ 1, rng.range(1, 3) });
          vars.push_back({ 3, rng.range(2, 7) });
        }
    }
  for (const Variant& v : vars)
    {
      shared_ptr<ProjDataInfo> pdi0;
      try
        {
          if (v.span == 0)
            pdi0.reset(ProjDataInfo::ProjDataInfoGE(sc, v.max_delta, views, ntang, false, tof_mash));
          else
            pdi0 = vh::make_pdi(sc, v.span, v.max_delta, views, ntang, false, tof_mash);
        }
      catch (...)
        {
          continue;
        }
      shared_ptr<const ProjDataInfoCylindricalNoArcCorr> in = dynamic_pointer_cast<ProjDataInfoCylindricalNoArcCorr>(pdi0);
      if (!in)
        continue;
      run_ssrb_on_geometry(in, rng, true, thorough ? 200 : 90, false);
    }
}

// generated scanners with a non-dyadic ring spacing, 2..64 rings, every span (odd ones, and the even ones the library accepts).
// k cycles through the list of spacings; k % 3 == 0: span 1 with all ring differences and many rings (the segments then have
// R, R-1, ..., 1 axial positions: every number of axial positions up to R meets this ring spacing in the identity request and, at half
// the sampling, in the request that combines 3 segments)
static void
run_ssrb_nondyadic(vh::Rng& rng, const int k, const bool thorough)
{
  InCfg c = gen_in_cfg(rng, false);
  c.rs = k % 5 == 4 ? rand_ring_spacing(rng) : nondyadic_spacings[(k / 3) % n_nondyadic_spacings];
  c.N = 2 * rng.range(2, 8);
  const std::vector<int> dv = divisors(c.N / 2);
  c.views = c.N / 2 / dv[rng.range(0, (int)dv.size() - 1)];
  c.ntang = std::max(1, c.N / 2 - 1);
  switch (k % 3)
    {
    case 0:
      c.R = rng.range(33, 64), c.span = 1, c.max_delta = c.R - 1;
      break;
    case 1:
      c.R = rng.range(0, 3) == 0 ? 4 : rng.range(2, 12);
      c.span = rng.range(1, 2 * c.R - 1);
      if (c.span % 2 == 0 && rng.range(0, 3) != 0)
        c.span += 1;
      c.span = std::min(c.span, 2 * c.R - 1);
      c.max_delta = rng.range(0, 3) == 0 ? rng.range(c.span / 2, c.R - 1) : c.R - 1;
      break;
    default:
      c.R = rng.range(13, 64);
      c.span = 2 * rng.range(0, std::min(c.R - 1, 12)) + 1;
      c.max_delta = rng.range(0, 3) == 0 ? rng.range(c.span / 2, c.R - 1) : c.R - 1;
      break;
    }
  shared_ptr<Scanner> scanner = make_scanner_of(c);
  shared_ptr<ProjDataInfo> pdi0;
  try
    {
      pdi0 = vh::make_pdi(scanner, c.span, c.max_delta, c.views, c.ntang, false, c.tof_mash);
    }
  catch (...)
    {
      return;
    }
  shared_ptr<const ProjDataInfoCylindricalNoArcCorr> in = dynamic_pointer_cast<ProjDataInfoCylindricalNoArcCorr>(pdi0);
  if (!in)
    return;
  run_ssrb_on_geometry(in, rng, true, thorough ? 160 : 70, true);
}

// ---------------------------------------------------------------------------------------------- round 4: grid sizes derived from float zooms

// VoxelsOnCartesianGrid(exam_info, proj_data_info, zooms, origin, sizes): the image grid derived from projection data and ZOOMS
// (VoxelsOnCartesianGrid.cxx, construct_from_projdata_info): voxel size = (ring_spacing/2, bin size, bin size) / zooms, number of planes
// from segment 0, and -- sizes given as -1 -- x/y size 2*ceil(FOV radius / voxel size) + 1, a float -> int conversion of a quotient that is
// an ulp off an integer for zooms like 1/3, 0.3, 2.2 and tangential ranges that are multiples of 3, 10, 5.
//   voxsize rs binsize fov seg0 | zz zy zx | sz sy sx      ->  zmin ymin xmin nz ny nx f:vz f:vy f:vx   or err
static void
run_voxel_sizes(vh::Rng& rng, const int k)
{
  const int N = 2 * rng.range(4, 60), R = rng.range(1, 9);
  shared_ptr<Scanner> sc = vh::make_scanner(N, R);
  sc->set_ring_spacing(rand_ring_spacing(rng));
  const float bins[] = { 2.F, 2.25F, 3.195F, 2.397F, 2.13F, 1.65F, 2.005F, 1.6F, 2.206F, 4.3F, 1.17F, 2.08626F, 3.F, 1.F, 0.1F };
  sc->set_default_bin_size(rng.range(0, 3) == 0 ? static_cast<float>(rng.range(50, 500)) / 100.F : bins[rng.range(0, 14)]);
  const bool arc = rng.coin();
  const int span = (R >= 2 && rng.coin()) ? 3 : 1;
  std::vector<int> vc;
  for (int d : divisors(N / 2))
    if (N / 2 / d >= 2)
      vc.push_back(N / 2 / d);
  const int views = vc[rng.range(0, (int)vc.size() - 1)];
  // tangential positions: often a multiple of 3 / 5 / 10 as largest position
  int ntang = rng.range(1, N / 2 - 1);
  if (rng.coin())
    {
      const int mult[] = { 3, 5, 10, 6, 15 };
      const int m = mult[rng.range(0, 4)];
      const int want_max = m * rng.range(1, std::max(1, (N / 2 - 1) / 2 / m));
      if (2 * want_max + 1 <= N / 2 - 1)
        ntang = 2 * want_max + 1;
    }
  shared_ptr<ProjDataInfo> pdi;
  try
    {
      pdi = vh::make_pdi(sc, span, R - 1, views, ntang, arc, 0);
    }
  catch (...)
    {
      return;
    }
  const float nice[] = { 1.F / 3.F, .3F, 2.2F, 1.F, 2.F, .5F, 1.5F, 3.F, .6F, 1.2F, .7F, 1.1F, 2.F / 3.F, .9F, 1.3F, .1F };
  auto rz = [&]() { return rng.range(0, 3) == 0 ? static_cast<float>(0.2 + rng.unit() * 2.8) : nice[rng.range(0, 15)]; };
  float zxy = k % 16 < 3 ? nice[k % 16] : rz();
  float zy = rng.range(0, 5) == 0 ? rz() : zxy;
  const float zz = rng.range(0, 2) == 0 ? rz() : 1.F;
  CartesianCoordinate3D<int> sizes(-1, -1, -1);
  if (rng.range(0, 3) == 0)
    sizes = CartesianCoordinate3D<int>(rng.coin() ? -1 : rng.range(1, 9), rng.coin() ? -1 : rng.range(1, 12), rng.coin() ? -1 : rng.range(1, 12));
  // the FOV radius as the source finds it: largest |s| of the outermost tangential positions over the views 0 .. max_view-1
  float fov = 0.F;
  for (int view = 0; view < pdi->get_max_view_num(); ++view)
    fov = std::max(fov,
                   std::abs(std::max(pdi->get_s(Bin(0, view, 0, pdi->get_max_tangential_pos_num())),
                                     -pdi->get_s(Bin(0, view, 0, pdi->get_min_tangential_pos_num())))));
  // (keep the images small: at most ~250 voxels across)
  while (2 * fov * zxy / sc->get_default_bin_size() > 250)
    zxy *= .5F;
  while (2 * fov * zy / sc->get_default_bin_size() > 250)
    zy *= .5F;
  const CartesianCoordinate3D<float> zooms(zz, zy, zxy);
  auto cyl = dynamic_pointer_cast<ProjDataInfoCylindrical>(pdi);
  ++n_ops, std::fprintf(ops, "voxsize %s %s %s %d,%d,%d | %s %s %s | %d %d %d\n", vh::hex(sc->get_ring_spacing()).c_str(),
               vh::hex(sc->get_default_bin_size()).c_str(), vh::hex(fov).c_str(), cyl->get_min_ring_difference(0), cyl->get_max_ring_difference(0),
               cyl->get_num_axial_poss(0), vh::hex(zz).c_str(), vh::hex(zy).c_str(), vh::hex(zxy).c_str(), sizes.z(), sizes.y(), sizes.x());
  shared_ptr<ExamInfo> ei(new ExamInfo);
  try
    {
      VoxelsOnCartesianGrid<float> im(ei, *pdi, zooms, CartesianCoordinate3D<float>(0.F, 0.F, 0.F), sizes);
      const ImgGeom g = geom_of(im);
      ++n_out, std::fprintf(out, "%d %d %d %d %d %d %s %s %s\n", g.zmin, g.ymin, g.xmin, g.nz, g.ny, g.nx, F(g.vz).c_str(), F(g.vy).c_str(), F(g.vx).c_str());
      // ORACLE ("whenever the new grid covers the object"): with sizes left to the library the grid covers the field of view of the
      // projection data (radius fov) and is not larger than that by more than one voxel on each side; voxel size = sampling / zoom
      ++oracle_checks;
      std::string bad;
      auto check_axis = [&](const char* name, int n, float v, bool derived) {
        if (!derived)
          return;
        const double half = (n - 1) / 2 * static_cast<double>(v);
        if (half < fov * (1 - 1e-6) || half - 1.0 * v > fov * (1 + 1e-6) || n % 2 != 1)
          bad += std::string(" ") + name + "-size " + std::to_string(n) + " voxel " + std::to_string(v);
      };
      check_axis("x", g.nx, g.vx, sizes.x() == -1);
      check_axis("y", g.ny, g.vy, sizes.y() == -1);
      if (std::fabs(g.vx * zxy - sc->get_default_bin_size()) > 1e-5 * sc->get_default_bin_size()
          || std::fabs(g.vy * zy - sc->get_default_bin_size()) > 1e-5 * sc->get_default_bin_size()
          || std::fabs(g.vz * zz - sc->get_ring_spacing() / 2) > 1e-5 * sc->get_ring_spacing())
        bad += " voxel size is not sampling/zoom";
      if (g.ymin != -(g.ny / 2) || g.xmin != -(g.nx / 2) || g.zmin != 0)
        bad += " index ranges not centred";
      if (!bad.empty())
        oracle_fail("VoxelsOnCartesianGrid(proj_data_info, zooms) grid does not fit the field of view (radius " + std::to_string(fov) + " mm, zooms "
                    + std::to_string(zz) + " " + std::to_string(zy) + " " + std::to_string(zxy) + "):" + bad);
    }
  catch (...)
    {
      ++n_out, std::fprintf(out, "err\n");
    }
}

int
main(int argc, char** argv)
{
  if (argc < 5)
    return 2;
  vh::quiet();
  vh::Rng rng(std::strtoull(argv[1], nullptr, 10) * 2654435761ULL + 15);
  const bool thorough = std::string(argv[2]) == "thorough";
  ops = std::fopen(argv[3], "w");
  out = std::fopen(argv[4], "w");
  orc = std::fopen((std::string(argv[4]) + ".oracle").c_str(), "w");
  mkdir("/tmp/C15", 0777);
  scratch_dir = "/tmp/C15/harness-" + std::to_string(static_cast<long>(getpid()));
  mkdir(scratch_dir.c_str(), 0777);
  // every case is guarded: an exception escaping from the library is a verdict, and the answer stream stays aligned
  const bool timing = std::getenv("C15_TIMING") != nullptr; // development aid: cases taking more than half a second, to stderr
  auto guarded = [&](const char* what, const std::function<void()>& f) {
    const clock_t t0 = clock();
    struct Report
    {
      bool on;
      const char* what;
      clock_t t0;
      ~Report()
      {
        const double dt = static_cast<double>(clock() - t0) / CLOCKS_PER_SEC;
        if (on && dt > 0.25)
          std::fprintf(stderr, "TIMING %s %.2fs (ops so far %ld)\n", what, dt, n_ops);
      }
    } report{ timing, what, t0 };
    try
      {
        f();
      }
    catch (std::exception& e)
      {
        oracle_fail(std::string("unexpected exception in ") + what + ": " + e.what());
      }
    catch (...)
      {
        oracle_fail(std::string("unexpected exception in ") + what);
      }
    while (n_out < n_ops)
      ++n_out, std::fprintf(out, "exception\n");
  };
  // fixed regression geometries: odd/even parity of a clipped outermost segment, span 1 and 3, TOF
  guarded("SSRB", [&] { run_ssrb_case({ 16, 5, 3, 2, 8, 7, -1, 0 }, rng, thorough, 3); });
  guarded("SSRB", [&] { run_ssrb_case({ 16, 4, 3, 2, 8, 7, -1, 0 }, rng, thorough, 3); }); // class of the C01 known finding
  guarded("SSRB", [&] { run_ssrb_case({ 12, 6, 1, 5, 6, 5, 9, 1 }, rng, thorough, 3); });
  guarded("SSRB", [&] { run_ssrb_case({ 12, 7, 1, 6, 3, 5, 5, 1 }, rng, thorough, 5); });
  const int nssrb = thorough ? 400 : 70;
  for (int k = 0; k < nssrb; ++k)
    guarded("SSRB", [&] { run_ssrb_case(gen_in_cfg(rng, thorough), rng, thorough); });
  // identity-like settings one at a time; geometries with a single segment / a single axial position per segment (both kinds of run)
  const int nid = thorough ? 150 : 24;
  for (int k = 0; k < nid; ++k)
    guarded("SSRB (identity-like settings)", [&] { run_ssrb_identity_like(gen_in_cfg(rng, thorough), rng, thorough); });
  const int ndeg = thorough ? 60 : 10;
  for (int k = 0; k < ndeg; ++k)
    {
      const InCfg c = gen_degenerate_cfg(rng, k);
      guarded("SSRB (single segment / single axial position, identity-like settings)", [&] { run_ssrb_identity_like(c, rng, thorough); });
      guarded("SSRB (single segment / single axial position)", [&] { run_ssrb_case(c, rng, thorough); });
    }
  // (round 4) the real predefined scanners with their true ring spacings; generated scanners with non-dyadic ring spacings
  for (int type = 0; type < static_cast<int>(Scanner::User_defined_scanner); ++type)
    guarded("SSRB (predefined scanner)", [&] { run_real_scanner(type, rng, thorough); });
  const int nnd = thorough ? 3 * 5 * n_nondyadic_spacings : 3 * n_nondyadic_spacings;
  for (int k = 0; k < nnd; ++k)
    guarded("SSRB (non-dyadic ring spacing)", [&] { run_ssrb_nondyadic(rng, k, thorough); });
  const int nvox = thorough ? 6000 : 800;
  for (int k = 0; k < nvox; ++k)
    guarded("VoxelsOnCartesianGrid from projection data and zooms", [&] { run_voxel_sizes(rng, k); });
  const int n1d = thorough ? 6000 : 600;
  for (int k = 0; k < n1d / 4; ++k)
    guarded("overlap_interpolate (degenerate requests)", [&] { run_overlap_1d(rng, k); });
  for (int k = 0; k < n1d; ++k)
    {
      guarded("overlap_interpolate", [&] { run_overlap_1d(rng); });
      guarded("overlap_interpolate (iterators)", [&] { run_overlap_iter(rng); });
    }
  const int nzoom = thorough ? 1500 : 400;
  for (int k = 0; k < nzoom; ++k)
    guarded("zoom_image", [&] { run_zoom_case(rng); });
  const int nzdeg = thorough ? 1920 : 384; // (a multiple of 96: every transaxial combination x option x same/other size equally often)
  for (int k = 0; k < nzdeg; ++k)
    guarded("zoom_image (degenerate requests)", [&] { run_zoom_degenerate(rng, k); });
  const int nvg = thorough ? 8000 : 600;
  for (int k = 0; k < nvg / 4; ++k)
    guarded("zoom_viewgram (degenerate requests)", [&] { run_zoom_viewgram(rng, k % 16); });
  for (int k = 0; k < nvg; ++k)
    guarded("zoom_viewgram", [&] { run_zoom_viewgram(rng); });
  const int ninv = thorough ? 1200 : 100;
  for (int k = 0; k < ninv; ++k)
    {
      guarded("inverse_SSRB", [&] { run_inverse_ssrb(rng); });
      guarded("extend_segment", [&] { run_extend(rng); });
    }
  rmdir(scratch_dir.c_str());
  write_oracle_fails();
  std::fprintf(orc, "ORACLE-DONE checks=%ld fails=%ld\n", oracle_checks, oracle_fails);
  std::fclose(ops);
  std::fclose(out);
  std::fclose(orc);
  return 0;
}
