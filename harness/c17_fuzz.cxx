// C17 — implementation side, part 2: robustness of the text/header readers under AddressSanitizer + UBSan.
//
// This file is compiled by checks/c17.py together with the anchored STIR sources (KeyParser.cxx, InterfileHeader.cxx,
// interfile.cxx, MultipleDataSetHeader.cxx, ...) so that the library code itself is instrumented.
//
// Targets:  keyparser (KeyParser::parse on a probe table), image (read_interfile_image), pdfs (read_interfile_PDFS),
//           multi (MultipleDataSetHeader).
// Inputs:   a seeded corpus written under <workdir> by the library itself (Interfile image and projection-data headers
//           + data, a multi-file header, the sample SPECT / Siemens headers shipped with STIR) and grammar-aware mutations:
//           value replacement incl. huge / negative sizes, index changes, line deletion / duplication / swap, keyword damage,
//           truncation at EVERY line and at sampled bytes.
// Every input must either be rejected (exception, null pointer, parse()==false) or produce an object whose sizes agree
// with its header and data file.  A sanitizer report, a crash, an allocation above the cap, or a time-out is a finding.
// Each batch of inputs runs in a forked child; the parent learns from a progress pipe which input killed the child.
//
// Usage: c17_fuzz run <seed> <quick|thorough> <workdir> <resultfile>
//        c17_fuzz one <target> <workdir> <inputfile>        (replay of one input, in-process, no fork)
// Result file lines:
//   CASE <target> <index> <verdict> [detail]       verdict: rejected | accepted | inconsistent | killed; a trailing token
//                                                  `+signed-overflow` = UBSan reported a (non-fatal) signed integer overflow
//   KILLED <target> <index> <how> <inputfile> <stderrfile>
//   DONE inputs=<n> killed=<k> inconsistent=<m>
#include "common.h"
#include "stir_fixtures.h"
#include "stir/KeyParser.h"
#include "stir/IO/interfile.h"
#include "stir/IO/InterfileHeader.h"
#include "stir/IO/OutputFileFormat.h"
#include "stir/MultipleDataSetHeader.h"
#include "stir/ProjDataInterfile.h"
#include "stir/ProjDataFromStream.h"
#include "stir/SegmentByView.h"
#include "stir/VoxelsOnCartesianGrid.h"
#include "stir/ExamInfo.h"
#include "stir/TextWriter.h"
#include "stir/Succeeded.h"
#include "stir/error.h"
#include <algorithm>
#include <dirent.h>
#include <fcntl.h>
#include <map>
#include <memory>
#include <set>
#include <signal.h>
#include <sys/stat.h>
#include <sys/wait.h>
#include <unistd.h>

using namespace stir;

extern "C" void __sanitizer_print_stack_trace(void);

static std::ostringstream g_sink;

static std::string
hexs(const std::string& s)
{
  static const char* d = "0123456789abcdef";
  std::string r = "x";
  for (unsigned char c : s)
    {
      r += d[c >> 4];
      r += d[c & 15];
    }
  return r;
}

static std::string
one_line(std::string s, std::size_t maxlen = 200)
{
  for (char& c : s)
    if (c == '\n' || c == '\r')
      c = '|';
  if (s.size() > maxlen)
    s = s.substr(0, maxlen) + "...";
  return s;
}

static std::string
slurp(const std::string& fn)
{
  std::ifstream f(fn.c_str(), std::ios::binary);
  std::ostringstream s;
  s << f.rdbuf();
  return s.str();
}

static void
spit(const std::string& fn, const std::string& content)
{
  std::ofstream f(fn.c_str(), std::ios::binary);
  f << content;
}

// number of bytes that can be read from `fn` (-1: no such file).  For a regular file its size; for anything else
// (a header may name /dev/zero, /dev/null, a fifo ...) st_size says nothing, so the bytes are counted by reading, up to a cap.
static long
file_size(const std::string& fn)
{
  struct stat st;
  if (stat(fn.c_str(), &st) != 0)
    return -1;
  if (S_ISREG(st.st_mode))
    return static_cast<long>(st.st_size);
  if (S_ISDIR(st.st_mode))
    return -1;
  const long cap = 1L << 40; // "as much as anybody asks for" (an endless device), without reading for ever
  const int fd = open(fn.c_str(), O_RDONLY | O_NONBLOCK);
  if (fd < 0)
    return -1;
  long total = 0;
  char buf[65536];
  while (total < (1L << 22))
    {
      const ssize_t n = read(fd, buf, sizeof buf);
      if (n <= 0)
        break;
      total += n;
    }
  close(fd);
  return total >= (1L << 22) ? cap : total;
}

static std::vector<std::string>
split_lines(const std::string& text)
{
  std::vector<std::string> l;
  std::string cur;
  for (char c : text)
    if (c == '\n')
      {
        l.push_back(cur);
        cur.clear();
      }
    else
      cur += c;
  if (!cur.empty())
    l.push_back(cur);
  return l;
}

static std::string
join_lines(const std::vector<std::string>& l, const std::string& eol = "\n")
{
  std::string t;
  for (auto& x : l)
    t += x + eol;
  return t;
}

// ------------------------------------------------------------------------------------------------ targets
enum Target
{
  T_KEYPARSER,
  T_IMAGE,
  T_PDFS,
  T_MULTI,
  T_COUNT
};
static const char* target_name[] = { "keyparser", "image", "pdfs", "multi" };

struct ProbeParser : public KeyParser
{
  int n = 0;
  unsigned int u = 0;
  long l = 0;
  unsigned long ul = 0;
  float f = 0;
  double d = 0;
  bool b = false;
  int choice = 0;
  std::string s;
  ASCIIlist_type values;
  std::vector<int> il, vi;
  std::vector<double> dl, vd;
  std::vector<std::string> sl, vs;
  std::vector<std::vector<int>> vil;
  std::vector<std::vector<double>> vdl;
  std::vector<unsigned long> vul;
  Array<2, float> a2;
  Array<3, float> a3;
  BasicCoordinate<3, float> coord;
  ProbeParser()
  {
    values = { "first value", "Second_Value", "third" };
    vi.resize(3);
    vd.resize(3);
    vs.resize(3);
    vil.resize(3);
    vdl.resize(3);
    vul.resize(3);
    add_start_key("Probe Parameters");
    add_key("an int", &n);
    add_key("an unsigned", &u);
    add_key("a long", &l);
    add_key("an unsigned long", &ul);
    add_key("a float", &f);
    add_key("a double", &d);
    add_key("a bool", &b);
    add_key("a choice", &choice, &values);
    add_key("a string", &s);
    add_key("int list", &il);
    add_key("double list", &dl);
    add_key("string list", &sl);
    add_vectorised_key("v int", &vi);
    add_vectorised_key("v double", &vd);
    add_vectorised_key("v string", &vs);
    add_vectorised_key("v int list", &vil);
    add_vectorised_key("v double list", &vdl);
    add_vectorised_key("v unsigned long", &vul);
    add_key("array 2d", &a2);
    add_key("array 3d", &a3);
    add_key("a coordinate", &coord);
    ignore_key("ignored");
    add_alias_key("an int", "an integer", false);
    add_alias_key("a string", "old string", true);
    add_stop_key("End Probe Parameters");
  }
};

static const char* PROBE_TEXT = "Probe Parameters :=\n"
                                "an int := 5\n"
                                "an unsigned := 7\n"
                                "a long := -123456789012\n"
                                "an unsigned long := 12345678901234\n"
                                "a float := 1.5\n"
                                "a double := -2.25e3\n"
                                "a bool := 1\n"
                                "a choice := second value\n"
                                "a string := some text\n"
                                "int list := {1, 2, 3}\n"
                                "double list := {1.5, 2.5}\n"
                                "string list := {a, b c, d}\n"
                                "v int[1] := 1\n"
                                "v int[3] := 3\n"
                                "v double[2] := 0.5\n"
                                "v string[2] := two words\n"
                                "v int list[1] := {64, 64}\n"
                                "v int list[2] := 7\n"
                                "v double list[3] := {1.5}\n"
                                "v unsigned long[1] := 100\n"
                                "array 2d := {{1,2},{3,4}}\n"
                                "array 3d := {{{1,2},{3,4}},{{5,6},{7,8}}}\n"
                                "a coordinate := {1, 2, 3}\n"
                                "ignored :=\n"
                                "an integer := 6\n"
                                "old string := via alias\n"
                                "End Probe Parameters :=\n";

// verdict text; throws nothing
static std::string
run_target(Target t, const std::string& text, const std::string& workdir)
{
  try
    {
      std::istringstream in(text);
      switch (t)
        {
          case T_KEYPARSER: {
            ProbeParser p;
            const bool ok = p.parse(in);
            // consistency: vector sizes are untouched by parsing (vectorised keys never resize)
            if (p.vi.size() != 3 || p.vd.size() != 3 || p.vs.size() != 3 || p.vil.size() != 3 || p.vdl.size() != 3 || p.vul.size() != 3)
              return "inconsistent a vectorised key changed the size of its vector";
            const std::string info = p.parameter_info();
            return std::string(ok ? "accepted" : "rejected parse()==false") + " info=" + std::to_string(info.size());
          }
          case T_IMAGE: {
            std::unique_ptr<VoxelsOnCartesianGrid<float>> image(read_interfile_image(in, workdir));
            if (!image)
              return "rejected null";
            // consistency with header and data file (header re-parsed separately)
            InterfileImageHeader hdr;
            std::istringstream in2(text);
            if (!hdr.parse(in2))
              return "inconsistent image returned but the header alone does not parse";
            const long nx = image->get_x_size(), ny = image->get_y_size(), nz = image->get_z_size();
            if (nx != hdr.matrix_size[0][0] || ny != hdr.matrix_size[1][0] || nz != hdr.matrix_size[2][0])
              return "inconsistent image sizes differ from 'matrix size' of the header";
            const long need = static_cast<long>(hdr.data_offset_each_dataset[0]) + nx * ny * nz * static_cast<long>(hdr.type_of_numbers.size_in_bytes());
            const long have = file_size(workdir + "/" + hdr.data_file_name);
            const long have_abs = file_size(hdr.data_file_name);
            if (std::max(have, have_abs) < need)
              return "inconsistent image accepted but data file has " + std::to_string(std::max(have, have_abs)) + " bytes, header needs " + std::to_string(need);
            return "accepted " + std::to_string(nx) + "x" + std::to_string(ny) + "x" + std::to_string(nz);
          }
          case T_PDFS: {
            std::unique_ptr<ProjDataFromStream> pd(read_interfile_PDFS(in, workdir, std::ios::in));
            if (!pd)
              return "rejected null";
            long bins = 0;
            for (int seg = pd->get_min_segment_num(); seg <= pd->get_max_segment_num(); ++seg)
              bins += static_cast<long>(pd->get_num_axial_poss(seg)) * pd->get_num_views() * pd->get_num_tangential_poss();
            bins *= std::max(1, pd->get_num_tof_poss());
            if (bins <= 0)
              return "inconsistent projection data accepted with " + std::to_string(bins) + " bins";
            const long need = static_cast<long>(pd->get_offset_in_stream()) + bins * static_cast<long>(pd->get_data_type_in_stream().size_in_bytes());
            // data file name: from a separate parse of that key alone (the library's own line reading: continuation lines etc.)
            std::string datafile;
            {
              struct NameProbe : public KeyParser
              {
                std::string name;
                NameProbe()
                {
                  add_start_key("INTERFILE");
                  add_key("name of data file", &name);
                  add_stop_key("END OF INTERFILE");
                }
              } probe;
              std::istringstream in3(text);
              probe.parse(in3, false);
              datafile = probe.name;
            }
            const long have = std::max(file_size(workdir + "/" + datafile), file_size(datafile));
            if (bins > 200000000L)
              return "accepted-lazily " + std::to_string(bins) + " bins (not read)";
            // the data are read lazily: reading every segment must either work or be refused
            bool read_ok = true;
            std::string read_err;
            try
              {
                for (int seg = pd->get_min_segment_num(); seg <= pd->get_max_segment_num(); ++seg)
                  for (int tof = pd->get_min_tof_pos_num(); tof <= pd->get_max_tof_pos_num(); ++tof)
                    {
                      SegmentByView<float> s = pd->get_segment_by_view(seg, tof);
                      (void)s;
                    }
              }
            catch (std::exception& e)
              {
                read_ok = false;
                read_err = one_line(e.what(), 80);
              }
            if (have < need && read_ok)
              return "inconsistent projection data read without error although data file has " + std::to_string(have) + " bytes and header needs "
                     + std::to_string(need);
            if (have >= need && !read_ok)
              return "accepted-but-read-refused " + read_err;
            return std::string(read_ok ? "accepted " : "accepted-lazily-then-refused ") + std::to_string(bins) + " bins";
          }
          case T_MULTI: {
            MultipleDataSetHeader h;
            if (!h.parse(in))
              return "rejected parse()==false";
            const std::size_t n = h.get_num_data_sets();
            for (std::size_t k = 0; k < n; ++k)
              if (h.get_filename(k).empty())
                return "inconsistent accepted with an empty file name";
            return "accepted " + std::to_string(n) + " data sets";
          }
        default:
          return "rejected";
        }
    }
  catch (std::bad_alloc&)
    {
      return "inconsistent std::bad_alloc";
    }
  catch (std::exception& e)
    {
      return std::string("rejected exception ") + one_line(e.what(), 60);
    }
  catch (...)
    {
      return "rejected exception (non-std)";
    }
}

// ------------------------------------------------------------------------------------------------ corpus
struct Seed
{
  Target t;
  std::string name, text;
};

static std::vector<Seed>
make_corpus(const std::string& workdir, vh::Rng& rng)
{
  std::vector<Seed> seeds;
  mkdir(workdir.c_str(), 0777);
  seeds.push_back({ T_KEYPARSER, "probe", PROBE_TEXT });
  try
    {
      for (int k = 0; k < 3; ++k)
        {
          const bool tof = k == 2;
          shared_ptr<Scanner> scanner = vh::make_scanner(2 * rng.range(4, 12), rng.range(2, 4), tof ? 5 : -1);
          const int span = k == 1 ? 3 : 1;
          shared_ptr<ProjDataInfo> pdi = vh::make_pdi(scanner,
                                                      span,
                                                      scanner->get_num_rings() - 1,
                                                      scanner->get_num_detectors_per_ring() / 2,
                                                      scanner->get_num_detectors_per_ring() / 2 - 1,
                                                      false,
                                                      tof ? 1 : 0);
          shared_ptr<ExamInfo> exam(new ExamInfo);
          exam->imaging_modality = ImagingModality::PT;
          const std::string base = "pd_" + std::to_string(k);
          {
            ProjDataInterfile pd(exam, pdi, workdir + "/" + base);
            for (int seg = pd.get_min_segment_num(); seg <= pd.get_max_segment_num(); ++seg)
              for (int tofp = pd.get_min_tof_pos_num(); tofp <= pd.get_max_tof_pos_num(); ++tofp)
                {
                  SegmentByView<float> s = pd.get_empty_segment_by_view(seg, false, tofp);
                  s.fill(1.F);
                  pd.set_segment(s);
                }
          }
          seeds.push_back({ T_PDFS, base, slurp(workdir + "/" + base + ".hs") });
          shared_ptr<VoxelsOnCartesianGrid<float>> image = vh::make_image(*pdi, 1.F, rng.range(3, 9), rng.range(2, 5));
          image->fill(1.F);
          const std::string ibase = "img_" + std::to_string(k);
          OutputFileFormat<DiscretisedDensity<3, float>>::default_sptr()->write_to_file(workdir + "/" + ibase, *image);
          seeds.push_back({ T_IMAGE, ibase, slurp(workdir + "/" + ibase + ".hv") });
        }
    }
  catch (std::exception& e)
    {
      std::fprintf(stderr, "corpus: %s\n", e.what());
    }
  // the data file names written by the library may be absolute or relative: keep as written
  seeds.push_back({ T_MULTI, "multi", "Multi :=\n  total number of data sets := 2\n  data set[1] := pd_0.hs\n  data set[2] := pd_1.hs\nend :=\n" });
  // sample headers shipped with the library (SPECT, Siemens): no matching data file for the Siemens one
  const char* repo = std::getenv("STIR_REPO");
  const std::string samples = std::string(repo ? repo : "/repo") + "/examples/samples/";
  const std::string spect = slurp(samples + "SPECT_Interfile_header.hs");
  if (!spect.empty())
    {
      // smaller matrix / fewer projections than the sample, so that the zero-filled data file stays small
      std::vector<std::string> l = split_lines(spect);
      for (auto& x : l)
        {
          if (x.find("number of projections") != std::string::npos)
            x = "!number of projections := 12";
          else if (x.find("matrix size [1]") != std::string::npos)
            x = "!matrix size [1] := 16";
          else if (x.find("matrix size [2]") != std::string::npos)
            x = "!matrix size [2] := 8";
        }
      spit(workdir + "/somefile.s", std::string(16 * 8 * 12 * 4, '\0'));
      seeds.push_back({ T_PDFS, "spect-sample", join_lines(l) });
    }
  std::string siemens = slurp(samples + "mMR_sinogram.s.hdr");
  if (!siemens.empty())
    {
      // keep the first 80 lines (the rest are singles rates) and close the header
      std::vector<std::string> l = split_lines(siemens);
      if (l.size() > 80)
        l.resize(80);
      for (auto& x : l)
        if (!x.empty() && x.back() == '\r')
          x.erase(x.size() - 1);
      seeds.push_back({ T_PDFS, "siemens-sample", join_lines(l) });
    }
  return seeds;
}

// ------------------------------------------------------------------------------------------------ mutations
static const char* VALUES[] = { "0",
                                "1",
                                "-1",
                                "2",
                                "3",
                                "4",
                                "5",
                                "7",
                                "64",
                                "1000",
                                "100000",
                                "20000000",
                                "100000000",
                                "2147483647",
                                "2147483648",
                                "4294967295",
                                "4294967296",
                                "-2147483648",
                                "99999999999999999999",
                                "-99999999999999999999",
                                "1e9",
                                "1e308",
                                "1e-320",
                                "nan",
                                "inf",
                                "-inf",
                                "0.0",
                                "-0.5",
                                "3.999",
                                "",
                                "   ",
                                "abc",
                                "12abc",
                                "{}",
                                "{1}",
                                "{1,2",
                                "{1,2,3,4,5,6,7,8,9,10}",
                                "{-1}",
                                "{0}",
                                "{1000000000}",
                                "{1,,2}",
                                "{a,b}",
                                "{ }",
                                "{{1,2},{3}}",
                                "{{1,2},{3,4}}",
                                "{{{1}}}",
                                "{{",
                                "}",
                                "float",
                                "signed integer",
                                "unsigned integer",
                                "bit",
                                "ascii",
                                "double",
                                "LITTLEENDIAN",
                                "BIGENDIAN",
                                "PET",
                                "Tomographic",
                                "Static",
                                "nucmed",
                                "PT",
                                "Image",
                                "Emission",
                                "Transmission",
                                "nonsense",
                                "x",
                                "y",
                                "z",
                                "view",
                                "segment",
                                "axial coordinate",
                                "tangential coordinate",
                                "timing positions",
                                "STIR3.0",
                                "STIR4.0",
                                "3.3",
                                "Cylindrical",
                                "BlocksOnCylindrical",
                                "Generic",
                                "ECAT 931",
                                "Siemens mMR",
                                "unknown",
                                "None",
                                "arc correction",
                                "{arc correction}",
                                "{none}",
                                "no such file.s",
                                "/dev/null",
                                "/dev/zero",
                                "." };
static const int NVALUES = sizeof(VALUES) / sizeof(VALUES[0]);

static const char* INDICES[] = { "[1]", "[2]", "[3]", "[4]", "[5]", "[6]", "[0]", "[-1]", "[ 2 ]", "[x]", "[]", "[", "[100]",
                                 "[99999999999]", "[4294967297]", "[2147483647]", "[-2147483648]", "[1][2]" };
static const int NINDICES = sizeof(INDICES) / sizeof(INDICES[0]);

// lines that are known Interfile keys (to be inserted anywhere)
static const char* EXTRA_LINES[] = { "number of dimensions := 3",
                                     "number of dimensions := 5",
                                     "number of dimensions := 100000000",
                                     "number of dimensions := -1",
                                     "number of time frames := 2",
                                     "number of time frames := 100000000",
                                     "number of time frames := -5",
                                     "number of energy windows := 3",
                                     "number of energy windows := 0",
                                     "number of energy windows := -1",
                                     "number of energy windows := 500000000",
                                     "number of image data types := 2",
                                     "number of image data types := 300000000",
                                     "version of keys := STIR3.0",
                                     "energy window lower level := 350",
                                     "energy window lower level[1] := 350",
                                     "energy window upper level[2] := 650",
                                     "PET data type := nonsense",
                                     "PET data type := Emission",
                                     "PET data type := Image",
                                     "type of data := nonsense",
                                     "type of data := Tomographic",
                                     "type of data := PET",
                                     "process status := nonsense",
                                     "patient orientation := nonsense",
                                     "patient rotation := prone",
                                     "number format := nonsense",
                                     "number format := bit",
                                     "number of bytes per pixel := 0",
                                     "number of bytes per pixel := 8",
                                     "number of bytes per pixel := 3",
                                     "imagedata byte order := nonsense",
                                     "matrix size[1] := {3,4}",
                                     "matrix size[3] := {}",
                                     "matrix size[2] := -4",
                                     "matrix size[3] := 100000",
                                     "matrix size[4] := 7",
                                     "matrix axis label[5] := timing positions",
                                     "image scaling factor[1] := {1,2,3}",
                                     "image scaling factor[2] := 5",
                                     "data offset in bytes[1] := 1000000000000",
                                     "data offset in bytes[1] := -1",
                                     "data offset in bytes[2] := 5",
                                     "quantification units := 2.5",
                                     "minimum ring difference per segment := {-1,0,1}",
                                     "maximum ring difference per segment := {}",
                                     "minimum ring difference per segment := {0}",
                                     "maximum ring difference per segment := {5,6,7,8,9}",
                                     "TOF bin order := {0,1}",
                                     "TOF mashing factor := 0",
                                     "TOF mashing factor := 7",
                                     "%TOF mashing factor := 2",
                                     "Maximum number of (unmashed) TOF time bins := 1000000",
                                     "number of rings := 0",
                                     "number of rings := 1000000",
                                     "number of detectors per ring := 3",
                                     "number of detectors per ring := -2",
                                     "originating system := ECAT 931",
                                     "originating system := GE Discovery 690",
                                     "Scanner geometry (BlocksOnCylindrical/Cylindrical/Generic) := Generic",
                                     "Scanner geometry (BlocksOnCylindrical/Cylindrical/Generic) := BlocksOnCylindrical",
                                     "Name of crystal map := nofile.txt",
                                     "applied corrections := {arc correction}",
                                     "effective central bin size (cm) := -1",
                                     "imaging modality := nucmed",
                                     "imaging modality := PT",
                                     "%sms-mi version number := 3.4",
                                     "number of projections := 0",
                                     "number of projections := 100000000",
                                     "extent of rotation := 0",
                                     "orbit := Non-circular",
                                     "Radii := {1,2}",
                                     "radius := -5",
                                     "direction of rotation := nonsense",
                                     "%number of segments := 3",
                                     "%segment table := {1,2,3}",
                                     "%segment table := {}",
                                     "%axial compression := 0",
                                     "%maximum ring difference := 1000000",
                                     "total number of data sets := 100000000",
                                     "total number of data sets := -1",
                                     "total number of data sets := 0",
                                     "data set[3] := x.hs",
                                     "study date := 1900:13:45",
                                     "study_time := 25:61:61",
                                     "radionuclide name[1] := ^18^Fluorine",
                                     "radionuclide halflife (sec)[1] := -1",
                                     "isotope name := nonsense",
                                     "calibration factor := 0",
                                     "index nesting level := {time frame}",
                                     "image data type description[1] := x",
                                     "first pixel offset (mm)[4] := 3",
                                     "first pixel offset (mm)[1] := 1e30",
                                     "scaling factor (mm/pixel)[1] := 0",
                                     "scaling factor (mm/pixel)[2] := -1",
                                     "scaling factor (mm/pixel)[3] := nan",
                                     "END OF INTERFILE :=",
                                     "!INTERFILE :=",
                                     "end :=",
                                     "" };
static const int NEXTRA = sizeof(EXTRA_LINES) / sizeof(EXTRA_LINES[0]);

static std::string
mutate_text(vh::Rng& rng, const std::string& text, const std::string& longname)
{
  std::vector<std::string> lines = split_lines(text);
  if (lines.empty())
    return text;
  std::string eol = "\n";
  const int nmut = rng.range(1, 3);
  for (int m = 0; m < nmut; ++m)
    {
      if (lines.empty())
        break;
      const int li = rng.range(0, static_cast<int>(lines.size()) - 1);
      std::string& line = lines[li];
      const std::size_t as = line.find(":=");
      switch (rng.range(0, 13))
        {
        case 0: // value replacement
        case 1:
        case 2:
          if (as != std::string::npos)
            line = line.substr(0, as + 2) + (rng.coin() ? " " : "") + VALUES[rng.range(0, NVALUES - 1)];
          break;
        case 3: // numeric tweak of an existing number
          if (as != std::string::npos)
            {
              const std::string v = line.substr(as + 2);
              char* end = nullptr;
              const long x = std::strtol(v.c_str(), &end, 10);
              if (end != v.c_str())
                {
                  static const long d[] = { 1, -1, 2, -2, 10, 1000 };
                  long y = x + d[rng.range(0, 5)];
                  if (rng.range(0, 5) == 0)
                    y = x * 2;
                  if (rng.range(0, 7) == 0)
                    y = -x;
                  line = line.substr(0, as + 2) + " " + std::to_string(y);
                }
            }
          break;
        case 4: // index change / insertion
          {
            const std::size_t lb = line.find('[');
            const std::size_t rb = line.find(']');
            if (lb != std::string::npos && rb != std::string::npos && lb < rb && (as == std::string::npos || rb < as))
              line = line.substr(0, lb) + INDICES[rng.range(0, NINDICES - 1)] + line.substr(rb + 1);
            else if (as != std::string::npos)
              line = line.substr(0, as) + INDICES[rng.range(0, NINDICES - 1)] + line.substr(as);
          }
          break;
        case 5: // line deletion
          lines.erase(lines.begin() + li);
          break;
        case 6: // line duplication elsewhere
          {
            const std::string copy = line;
            lines.insert(lines.begin() + rng.range(0, static_cast<int>(lines.size())), copy);
          }
          break;
        case 7: // insert a known key with a hostile value
        case 8:
          lines.insert(lines.begin() + rng.range(1, static_cast<int>(lines.size())), EXTRA_LINES[rng.range(0, NEXTRA - 1)]);
          break;
        case 9: // swap
          {
            const int lj = rng.range(0, static_cast<int>(lines.size()) - 1);
            std::swap(lines[li], lines[lj]);
          }
          break;
        case 10: // truncation at a line
          lines.resize(li + 1);
          break;
        case 11: // keyword damage / ':=' damage
          if (as != std::string::npos && as > 0)
            {
              static const char pool[] = " _!:=[]{}x\t\r";
              std::string k = line.substr(0, as);
              const int pos = rng.range(0, static_cast<int>(k.size()) - 1);
              if (rng.coin())
                k.insert(k.begin() + pos, pool[rng.range(0, static_cast<int>(sizeof(pool)) - 2)]);
              else
                k[pos] = pool[rng.range(0, static_cast<int>(sizeof(pool)) - 2)];
              line = k + (rng.range(0, 4) == 0 ? "=" : ":=") + line.substr(as + 2);
            }
          break;
        case 12: // very long value (file names are copied into fixed-size buffers)
          if (as != std::string::npos)
            line = line.substr(0, as + 2) + " " + longname.substr(0, rng.coin() ? 1200 : 5000);
          break;
        default: // line ends
          switch (rng.range(0, 3))
            {
            case 0:
              eol = "\r\n";
              break;
            case 1:
              line += "\\";
              break;
            case 2:
              line = "\t " + line + "  ";
              break;
            default:
              lines.insert(lines.begin() + li, ";" + line);
            }
        }
    }
  std::string t = join_lines(lines, eol);
  if (rng.range(0, 6) == 0 && !t.empty())
    t.resize(rng.range(0, static_cast<int>(t.size())));
  return t;
}

// the deterministic list of inputs for one seed
static std::vector<std::string>
inputs_for_seed(const Seed& seed, vh::Rng& rng, int nrandom, int nbytes)
{
  std::vector<std::string> in;
  in.push_back(seed.text);
  const std::vector<std::string> lines = split_lines(seed.text);
  // truncation at every line (with and without the final newline)
  for (std::size_t k = 0; k <= lines.size(); ++k)
    {
      std::vector<std::string> head(lines.begin(), lines.begin() + k);
      in.push_back(join_lines(head));
      if (k > 0)
        {
          std::string t = join_lines(head);
          t.resize(t.size() - 1);
          in.push_back(t);
        }
    }
  // deletion of every single line
  for (std::size_t k = 0; k < lines.size(); ++k)
    {
      std::vector<std::string> l = lines;
      l.erase(l.begin() + k);
      in.push_back(join_lines(l));
    }
  // truncation at sampled bytes
  for (int k = 0; k < nbytes && !seed.text.empty(); ++k)
    in.push_back(seed.text.substr(0, rng.range(0, static_cast<int>(seed.text.size()) - 1)));
  // random grammar-aware mutations
  const std::string longname(6000, 'A');
  for (int k = 0; k < nrandom; ++k)
    in.push_back(mutate_text(rng, seed.text, longname));
  return in;
}

// ------------------------------------------------------------------------------------------------ running
static volatile int g_progress_fd = -1;

static void
on_alarm(int)
{
  static const char msg[] = "\nVERIF-TIMEOUT\n";
  if (write(2, msg, sizeof msg - 1) < 0)
    {}
  __sanitizer_print_stack_trace();
  _exit(77);
}

static void
silence_library()
{
  static TextWriter sink(&g_sink);
  TextWriterHandle h;
  h.set_warning_channel(&sink);
  h.set_error_channel(&sink);
  h.set_information_channel(&sink);
  vh::quiet();
}

struct Work
{
  Target t;
  std::string seedname;
  std::string text;
};

int
main(int argc, char** argv)
{
  if (argc < 5)
    return 2;
  silence_library();
  const std::string mode = argv[1];
  if (mode == "one")
    {
      Target t = T_KEYPARSER;
      for (int k = 0; k < T_COUNT; ++k)
        if (std::string(argv[2]) == target_name[k])
          t = static_cast<Target>(k);
      const std::string workdir = argv[3];
      vh::Rng rng(1);
      make_corpus(workdir, rng); // data files for the headers
      signal(SIGALRM, on_alarm);
      alarm(20);
      const std::string verdict = run_target(t, slurp(argv[4]), workdir);
      std::printf("VERDICT %s\n", verdict.c_str());
      return verdict.compare(0, 12, "inconsistent") == 0 ? 3 : 0;
    }
  if (argc < 6)
    return 2;
  const uint64_t seed = std::strtoull(argv[2], nullptr, 10);
  const bool thorough = std::string(argv[3]) == "thorough";
  const std::string workdir = argv[4];
  FILE* res = std::fopen(argv[5], "w");
  vh::Rng rng(seed * 1315423911ULL + 1717);
  std::vector<Seed> seeds = make_corpus(workdir, rng);

  std::vector<Work> work;
  // hand-minimised regression inputs first: corpus/C17/<target>__<name>
  if (const char* corpus = std::getenv("C17_CORPUS"))
    {
      std::vector<std::string> names;
      if (DIR* d = opendir(corpus))
        {
          while (struct dirent* e = readdir(d))
            if (e->d_name[0] != '.')
              names.push_back(e->d_name);
          closedir(d);
        }
      std::sort(names.begin(), names.end());
      for (const std::string& n : names)
        {
          const std::size_t us = n.find("__");
          if (us == std::string::npos)
            continue;
          for (int k = 0; k < T_COUNT; ++k)
            if (n.substr(0, us) == target_name[k])
              work.push_back({ static_cast<Target>(k), "corpus/" + n, slurp(std::string(corpus) + "/" + n) });
        }
    }
  for (const Seed& s : seeds)
    {
      const int nrandom = thorough ? 6000 : (s.t == T_KEYPARSER ? 400 : 350);
      const int nbytes = thorough ? 400 : 30;
      for (const std::string& text : inputs_for_seed(s, rng, nrandom, nbytes))
        work.push_back({ s.t, s.name, text });
    }

  long killed = 0, inconsistent = 0;
  std::size_t next = 0;
  const std::size_t batch = 400;
  const std::string errfile = workdir + "/child.stderr";
  while (next < work.size())
    {
      int fd[2];
      if (pipe(fd) != 0)
        return 2;
      std::fflush(nullptr);
      const pid_t pid = fork();
      if (pid == 0)
        {
          close(fd[0]);
          const int efd = open(errfile.c_str(), O_WRONLY | O_CREAT | O_TRUNC, 0666);
          if (efd >= 0)
            {
              dup2(efd, 2);
              dup2(efd, 1);
            }
          const int nfd = open("/dev/null", O_RDONLY);
          if (nfd >= 0)
            dup2(nfd, 0);
          signal(SIGALRM, on_alarm);
          for (std::size_t k = next; k < std::min(work.size(), next + batch); ++k)
            {
              // keep only what the library prints for the current input
              if (efd >= 0)
                {
                  if (ftruncate(efd, 0) != 0)
                    {}
                  lseek(efd, 0, SEEK_SET);
                }
              std::string msg = "B " + std::to_string(k) + "\n";
              if (write(fd[1], msg.c_str(), msg.size()) < 0)
                {}
              alarm(thorough ? 30 : 15);
              std::string verdict = run_target(work[k].t, work[k].text, workdir);
              alarm(0);
              // UBSan signed-integer-overflow reports are not fatal (see checks/c17.py): tag the verdict
              if (slurp(errfile).find("signed integer overflow") != std::string::npos)
                verdict += " +signed-overflow";
              msg = "E " + std::to_string(k) + " " + one_line(verdict, 300) + "\n";
              if (write(fd[1], msg.c_str(), msg.size()) < 0)
                {}
            }
          _exit(0);
        }
      close(fd[1]);
      std::string all;
      char buf[65536];
      ssize_t n;
      while ((n = read(fd[0], buf, sizeof buf)) > 0)
        all.append(buf, n);
      close(fd[0]);
      int st = 0;
      waitpid(pid, &st, 0);
      long begun = -1, ended = -1;
      for (const std::string& l : split_lines(all))
        {
          if (l.compare(0, 2, "B ") == 0)
            begun = std::atol(l.c_str() + 2);
          else if (l.compare(0, 2, "E ") == 0)
            {
              ended = std::atol(l.c_str() + 2);
              const std::size_t sp = l.find(' ', 2);
              const std::string verdict = sp == std::string::npos ? "" : l.substr(sp + 1);
              const Work& w = work[ended];
              if (verdict.compare(0, 12, "inconsistent") == 0)
                {
                  ++inconsistent;
                  const std::string inputfile = workdir + "/inconsistent_" + target_name[w.t] + "_" + std::to_string(ended) + ".txt";
                  spit(inputfile, w.text);
                  std::fprintf(res, "CASE %s %ld %s | seed-header=%s input=%s\n", target_name[w.t], ended, verdict.c_str(), w.seedname.c_str(), inputfile.c_str());
                }
              else
                std::fprintf(res, "CASE %s %ld %s\n", target_name[w.t], ended, verdict.c_str());
            }
        }
      if (begun > ended)
        {
          // input `begun` killed the child
          ++killed;
          const Work& w = work[begun];
          std::string how = WIFSIGNALED(st) ? "signal" + std::to_string(WTERMSIG(st)) : "exit" + std::to_string(WEXITSTATUS(st));
          const std::string inputfile = workdir + "/killed_" + target_name[w.t] + "_" + std::to_string(begun) + ".txt";
          const std::string stderrfile = workdir + "/killed_" + target_name[w.t] + "_" + std::to_string(begun) + ".stderr";
          spit(inputfile, w.text);
          spit(stderrfile, slurp(errfile));
          std::fprintf(res, "KILLED %s %ld %s %s %s seed-header=%s\n", target_name[w.t], begun, how.c_str(), inputfile.c_str(), stderrfile.c_str(), w.seedname.c_str());
          next = begun + 1;
        }
      else
        next = std::min(work.size(), next + batch);
    }
  std::fprintf(res, "DONE inputs=%zu killed=%ld inconsistent=%ld\n", work.size(), killed, inconsistent);
  std::fclose(res);
  return 0;
}
