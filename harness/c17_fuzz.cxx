// C17 — implementation side, part 2: robustness of the text/header readers under AddressSanitizer + UBSan.
//
// This file is compiled by checks/c17.py together with the anchored STIR sources (KeyParser.cxx, InterfileHeader.cxx,
// interfile.cxx, MultipleDataSetHeader.cxx, ...) so that the library code itself is instrumented.
//
// Targets:  keyparser (KeyParser::parse on a probe table), image (read_interfile_image), pdfs (read_interfile_PDFS),
//           multi (MultipleDataSetHeader), dynimage (read_interfile_dynamic_image), paramimage (read_interfile_parametric_image),
//           copy (copy / clone() / assignment histories of registered parsing classes).
// Inputs:   a seeded corpus written under <workdir> by the library itself (Interfile image and projection-data headers
//           + data, a multi-file header, the sample SPECT / Siemens headers shipped with STIR) and grammar-aware mutations:
//           value replacement incl. huge / negative sizes, index changes, line deletion / duplication / swap, keyword damage,
//           truncation at EVERY line and at sampled bytes; plus the structured family "exactly ONE size-bearing field
//           inconsistent" (structured_inputs): such a header must be rejected, its consistent counterpart accepted.
//           Key-order family (order_inputs / run_order): the library's own image, dynamic image, PARAMETRIC image and PET projection-data
//           headers with their size-giving lines in another order: rejected, or all tables of the header object have the announced length,
//           the size-giving members equal those of the writer's order and the reader returns the same voxel data.
//           TOF-key family (make_tof_corpus / tofkey_inputs): projection-data headers of TOF-capable scanners (generated, GE Discovery 690;
//           4-D non-TOF and 5-D TOF) with their TOF lines removed / moved to every position and TOF lines inserted at every position;
//           universal size oracle of the `pdfs` target (pdfs_object_vs_header): accepted => the object has exactly the TOF bins and the
//           per-segment sizes that the header declares, and every segment x TOF bin can be read (or the read is refused with error()).
//           Copy histories (run_copy_history, target `copy`): registered parsing classes built, printed, copied (copy constructor /
//           operator= / clone()), original re-parsed or destroyed, copy printed / parsed / round-tripped.
// Every input must either be rejected (exception, null pointer, parse()==false) or produce an object whose sizes agree
// with its header and data file (for PET projection data and images: with an independent strict reading of the sizes and
// lists in the header text, scan_facts).  A sanitizer report, a crash, an allocation above the cap, or a time-out is a finding.
// Each batch of inputs runs in a forked child; its supervisor learns from a progress pipe which input killed the child.
// Eight supervisors work on contiguous slices of the input list in parallel.
//
// Usage: c17_fuzz run <seed> <quick|thorough> <workdir> <resultfile>
//        c17_fuzz one <target> <workdir> <inputfile> [<expectation>]       (replay of one input, in-process, no fork)
// Result file lines:
//   CASE <target> <index> <verdict> [detail]       verdict: rejected | accepted | inconsistent | killed; a trailing token
//                                                  `+signed-overflow` = UBSan reported a (non-fatal) signed integer overflow
//   KILLED <target> <index> <how> <inputfile> <stderrfile>
//   DONE inputs=<n> killed=<k> inconsistent=<m> structured=<s> order=<o> copy=<c> tofkeys=<t>
#include "common.h"
#include "stir_fixtures.h"
#include "stir/KeyParser.h"
#include "stir/IO/interfile.h"
#include "stir/IO/InterfileHeader.h"
#include "stir/IO/OutputFileFormat.h"
#include "stir/MultipleDataSetHeader.h"
#include "stir/ProjDataInterfile.h"
#include "stir/ProjDataFromStream.h"
#include "stir/ProjDataInfoCylindrical.h"
#include "stir/SegmentByView.h"
#include "stir/VoxelsOnCartesianGrid.h"
#include "stir/DynamicDiscretisedDensity.h"
#include "stir/TimeFrameDefinitions.h"
#include "stir/ExamInfo.h"
#include "stir/TextWriter.h"
#include "stir/Succeeded.h"
#include "stir/error.h"
#include "stir/modelling/ParametricDiscretisedDensity.h"
#include "stir/modelling/KineticParameters.h"
#include "stir/RegisteredObject.h"
#include "stir/ParsingObject.h"
#include "stir/Shape/Shape3D.h"
#include "stir/recon_buildblock/BackProjectorByBin.h"
#include "stir/recon_buildblock/ProjMatrixByBin.h"
#include "stir/SeparableGaussianImageFilter.h"
#include "stir/SeparableCartesianMetzImageFilter.h"
#include "stir/SeparableConvolutionImageFilter.h"
#include "stir/MedianImageFilter3D.h"
#include "stir/MinimalImageFilter3D.h"
#include "stir/MaximalImageFilter3D.h"
#include "stir/ThresholdMinToSmallPositiveValueDataProcessor.h"
#include "stir/TruncateToCylindricalFOVImageProcessor.h"
#include "stir/ChainedDataProcessor.h"
#include "stir/recon_buildblock/QuadraticPrior.h"
#include "stir/recon_buildblock/RelativeDifferencePrior.h"
#include "stir/recon_buildblock/LogcoshPrior.h"
#include "stir/recon_buildblock/FilterRootPrior.h"
#include "stir/recon_buildblock/ProjectorByBinPairUsingProjMatrixByBin.h"
#include "stir/recon_buildblock/ProjectorByBinPairUsingSeparateProjectors.h"
#include "stir/recon_buildblock/ForwardProjectorByBinUsingRayTracing.h"
#include "stir/recon_buildblock/ForwardProjectorByBinUsingProjMatrixByBin.h"
#include "stir/recon_buildblock/ChainedBinNormalisation.h"
#include "stir/recon_buildblock/BinNormalisationFromProjData.h"
#include "c17_hdrcheck.h"
#include <algorithm>
#include <cstring>
#include <dirent.h>
#include <fcntl.h>
#include <functional>
#include <map>
#include <memory>
#include <set>
#include <signal.h>
#include <sys/stat.h>
#include <sys/wait.h>
#include <unistd.h>

using namespace stir;

extern "C" void __sanitizer_print_stack_trace(void);

static std::ostringstream g_sink;

static std::string
hexs(const std::string& s)
{
  static const char* d = "0123456789abcdef";
  std::string r = "x";
  for (unsigned char c : s)
    {
      r += d[c >> 4];
      r += d[c & 15];
    }
  return r;
}

static std::string
one_line(std::string s, std::size_t maxlen = 200)
{
  for (char& c : s)
    if (c == '\n' || c == '\r')
      c = '|';
  if (s.size() > maxlen)
    s = s.substr(0, maxlen) + "...";
  return s;
}

static std::string
slurp(const std::string& fn)
{
  std::ifstream f(fn.c_str(), std::ios::binary);
  std::ostringstream s;
  s << f.rdbuf();
  return s.str();
}

static void
spit(const std::string& fn, const std::string& content)
{
  std::ofstream f(fn.c_str(), std::ios::binary);
  f << content;
}

// number of bytes that can be read from `fn` (-1: no such file).  For a regular file its size; for anything else
// (a header may name /dev/zero, /dev/null, a fifo ...) st_size says nothing, so the bytes are counted by reading, up to a cap.
static long
file_size(const std::string& fn)
{
  struct stat st;
  if (stat(fn.c_str(), &st) != 0)
    return -1;
  if (S_ISREG(st.st_mode))
    return static_cast<long>(st.st_size);
  if (S_ISDIR(st.st_mode))
    return -1;
  const long cap = 1L << 40; // "as much as anybody asks for" (an endless device), without reading for ever
  const int fd = open(fn.c_str(), O_RDONLY | O_NONBLOCK);
  if (fd < 0)
    return -1;
  long total = 0;
  char buf[65536];
  while (total < (1L << 22))
    {
      const ssize_t n = read(fd, buf, sizeof buf);
      if (n <= 0)
        break;
      total += n;
    }
  close(fd);
  return total >= (1L << 22) ? cap : total;
}

static std::vector<std::string>
split_lines(const std::string& text)
{
  std::vector<std::string> l;
  std::string cur;
  for (char c : text)
    if (c == '\n')
      {
        l.push_back(cur);
        cur.clear();
      }
    else
      cur += c;
  if (!cur.empty())
    l.push_back(cur);
  return l;
}

static std::string
join_lines(const std::vector<std::string>& l, const std::string& eol = "\n")
{
  std::string t;
  for (auto& x : l)
    t += x + eol;
  return t;
}

// ------------------------------------------------------------------------------------------------ size-bearing facts of a header
// An independent, strict reading of the header text (NOT the library's parser): which sizes and lists does the text give?
// Used by the oracle "accepted => the object's sizes agree with every list that was given".  The scan gives up (clean = false)
// whenever the text is not plain enough to be sure what the library should have read: continuation lines, CR, a size-bearing
// key given twice, a malformed index or value.
static std::string
std_key(const std::string& k)
{
  std::string r;
  bool prev_ws = true;
  for (char c : k)
    {
      if (c == ' ' || c == '\t' || c == '_' || c == '!')
        {
          if (!prev_ws)
            r += ' ';
          prev_ws = true;
        }
      else
        {
          r += static_cast<char>(tolower(static_cast<unsigned char>(c)));
          prev_ws = false;
        }
    }
  while (!r.empty() && r.back() == ' ')
    r.erase(r.size() - 1);
  return r;
}

struct KeyLine
{
  std::string key, value;
  int index = 0;
  bool has_index = false, index_ok = true;
};

static bool
split_key_line(const std::string& line, KeyLine& kl)
{
  const std::size_t as = line.find(":=");
  if (as == std::string::npos)
    return false;
  std::string k = line.substr(0, as);
  const std::size_t lb = k.find('[');
  kl = KeyLine();
  if (lb != std::string::npos)
    {
      kl.has_index = true;
      std::string ix = k.substr(lb + 1);
      k = k.substr(0, lb);
      const std::size_t rb = ix.find(']');
      if (rb == std::string::npos || ix.find_first_not_of(" \t", rb + 1) != std::string::npos)
        kl.index_ok = false;
      else
        {
          ix = ix.substr(0, rb);
          if (ix.empty() || ix.size() > 6 || ix.find_first_not_of("0123456789") != std::string::npos)
            kl.index_ok = false;
          else
            kl.index = std::atoi(ix.c_str());
        }
    }
  kl.key = std_key(k);
  std::string v = line.substr(as + 2);
  while (!v.empty() && (v[0] == ' ' || v[0] == '\t'))
    v.erase(0, 1);
  while (!v.empty() && (v.back() == ' ' || v.back() == '\t'))
    v.erase(v.size() - 1);
  kl.value = v;
  return true;
}

static bool
strict_int(const std::string& v, long& out)
{
  std::size_t k = 0;
  if (k < v.size() && (v[k] == '-' || v[k] == '+'))
    ++k;
  if (k >= v.size() || v.size() - k > 9)
    return false;
  for (std::size_t j = k; j < v.size(); ++j)
    if (!isdigit(static_cast<unsigned char>(v[j])))
      return false;
  out = std::atol(v.c_str());
  return true;
}

// "{a, b, c}" or a single integer (= list of one)
static bool
strict_int_list(const std::string& v, std::vector<long>& out)
{
  out.clear();
  long x;
  if (strict_int(v, x))
    {
      out.push_back(x);
      return true;
    }
  if (v.size() < 2 || v[0] != '{' || v.back() != '}')
    return false;
  std::string cur;
  const std::string body = v.substr(1, v.size() - 2);
  if (body.find_first_not_of(" \t") == std::string::npos)
    return true; // "{}"
  for (std::size_t k = 0; k <= body.size(); ++k)
    if (k == body.size() || body[k] == ',')
      {
        while (!cur.empty() && (cur[0] == ' ' || cur[0] == '\t'))
          cur.erase(0, 1);
        while (!cur.empty() && (cur.back() == ' ' || cur.back() == '\t'))
          cur.erase(cur.size() - 1);
        if (!strict_int(cur, x))
          return false;
        out.push_back(x);
        cur.clear();
      }
    else
      cur += body[k];
  return true;
}

struct Facts
{
  bool clean = true;
  std::map<std::pair<std::string, int>, std::string> val;
  bool has(const std::string& k, int i = 0) const { return val.count(std::make_pair(k, i)) != 0; }
  std::string raw(const std::string& k, int i = 0) const
  {
    auto it = val.find(std::make_pair(k, i));
    return it == val.end() ? std::string() : it->second;
  }
  // false: not given; `clean` is cleared if given but not a plain integer / list
  bool scalar(const std::string& k, int i, long& out)
  {
    if (!has(k, i))
      return false;
    std::vector<long> l;
    if (!strict_int_list(raw(k, i), l) || l.size() != 1 || raw(k, i)[0] == '{')
      {
        clean = false;
        return false;
      }
    out = l[0];
    return true;
  }
  bool list(const std::string& k, int i, std::vector<long>& out)
  {
    if (!has(k, i))
      return false;
    if (!strict_int_list(raw(k, i), out))
      {
        clean = false;
        return false;
      }
    return true;
  }
};

static Facts
scan_facts(const std::string& text)
{
  static const char* size_keys[] = { "number of dimensions", "matrix size", "matrix axis label", "minimum ring difference per segment",
                                     "maximum ring difference per segment", "number of time frames", "tof bin order", "number of energy windows",
                                     "number of projections", "radii", "orbit", "imaging modality", "%sms-mi version number", "image scaling factor",
                                     "number of image data types", "data offset in bytes", "number of bytes per pixel", "number format" };
  Facts f;
  if (text.find('\\') != std::string::npos || text.find('\r') != std::string::npos || text.find('\0') != std::string::npos
      || text.find("${") != std::string::npos)
    f.clean = false;
  bool first = true;
  for (const std::string& line : split_lines(text))
    {
      KeyLine kl;
      if (!split_key_line(line, kl))
        {
          // a size-bearing keyword on a line without ':=' (a damaged assignment): be careful
          const std::string k = std_key(line.substr(0, line.find('[')));
          for (const char* sk : size_keys)
            if (k.compare(0, std::strlen(sk), sk) == 0)
              f.clean = false;
          continue;
        }
      if (first)
        {
          first = false;
          if (kl.key != "interfile")
            f.clean = false;
          continue;
        }
      if (kl.key == "end of interfile")
        break;
      bool is_size_key = false;
      for (const char* sk : size_keys)
        if (kl.key == sk)
          is_size_key = true;
      if (!is_size_key)
        continue;
      if (!kl.index_ok || f.has(kl.key, kl.index))
        f.clean = false;
      f.val[std::make_pair(kl.key, kl.index)] = kl.value;
    }
  return f;
}

// ------------------------------------------------------------------------------------------------ targets
enum Target
{
  T_KEYPARSER,
  T_IMAGE,
  T_PDFS,
  T_MULTI,
  T_DYNIMAGE,
  T_PARAMIMAGE,
  T_COPY,
  T_COUNT
};
static const char* target_name[] = { "keyparser", "image", "pdfs", "multi", "dynimage", "paramimage", "copy" };

// a checksum of the voxel values that were read (so that "the same data" can be compared between two headers)
template <class ArrayT>
static std::string
checksum(const ArrayT& a)
{
  double s = 0;
  long i = 0;
  for (auto it = a.begin_all_const(); it != a.end_all_const(); ++it, ++i)
    s += static_cast<double>(*it) * (1 + i % 7);
  return vh::hex(s);
}

static std::string
run_copy_history(const std::string& script);

struct ProbeParser : public KeyParser
{
  int n = 0;
  unsigned int u = 0;
  long l = 0;
  unsigned long ul = 0;
  float f = 0;
  double d = 0;
  bool b = false;
  int choice = 0;
  std::string s;
  ASCIIlist_type values;
  std::vector<int> il, vi;
  std::vector<double> dl, vd;
  std::vector<std::string> sl, vs;
  std::vector<std::vector<int>> vil;
  std::vector<std::vector<double>> vdl;
  std::vector<unsigned long> vul;
  Array<2, float> a2;
  Array<3, float> a3;
  BasicCoordinate<3, float> coord;
  ProbeParser()
  {
    values = { "first value", "Second_Value", "third" };
    vi.resize(3);
    vd.resize(3);
    vs.resize(3);
    vil.resize(3);
    vdl.resize(3);
    vul.resize(3);
    add_start_key("Probe Parameters");
    add_key("an int", &n);
    add_key("an unsigned", &u);
    add_key("a long", &l);
    add_key("an unsigned long", &ul);
    add_key("a float", &f);
    add_key("a double", &d);
    add_key("a bool", &b);
    add_key("a choice", &choice, &values);
    add_key("a string", &s);
    add_key("int list", &il);
    add_key("double list", &dl);
    add_key("string list", &sl);
    add_vectorised_key("v int", &vi);
    add_vectorised_key("v double", &vd);
    add_vectorised_key("v string", &vs);
    add_vectorised_key("v int list", &vil);
    add_vectorised_key("v double list", &vdl);
    add_vectorised_key("v unsigned long", &vul);
    add_key("array 2d", &a2);
    add_key("array 3d", &a3);
    add_key("a coordinate", &coord);
    ignore_key("ignored");
    add_alias_key("an int", "an integer", false);
    add_alias_key("a string", "old string", true);
    add_stop_key("End Probe Parameters");
  }
};

static const char* PROBE_TEXT = "Probe Parameters :=\n"
                                "an int := 5\n"
                                "an unsigned := 7\n"
                                "a long := -123456789012\n"
                                "an unsigned long := 12345678901234\n"
                                "a float := 1.5\n"
                                "a double := -2.25e3\n"
                                "a bool := 1\n"
                                "a choice := second value\n"
                                "a string := some text\n"
                                "int list := {1, 2, 3}\n"
                                "double list := {1.5, 2.5}\n"
                                "string list := {a, b c, d}\n"
                                "v int[1] := 1\n"
                                "v int[3] := 3\n"
                                "v double[2] := 0.5\n"
                                "v string[2] := two words\n"
                                "v int list[1] := {64, 64}\n"
                                "v int list[2] := 7\n"
                                "v double list[3] := {1.5}\n"
                                "v unsigned long[1] := 100\n"
                                "array 2d := {{1,2},{3,4}}\n"
                                "array 3d := {{{1,2},{3,4}},{{5,6},{7,8}}}\n"
                                "a coordinate := {1, 2, 3}\n"
                                "ignored :=\n"
                                "an integer := 6\n"
                                "old string := via alias\n"
                                "End Probe Parameters :=\n";

// "accepted => the sizes of the object agree with every size / list that the header gives" (PET projection data).
// Returns "" (agrees, or the scan cannot tell) or the text of the contradiction.
static std::string
pdfs_facts_check(const std::string& text, const ProjDataFromStream& pd)
{
  Facts f = scan_facts(text);
  if (!f.clean || std_key(f.raw("imaging modality")) == "nucmed" || f.has("%sms-mi version number"))
    return "";
  long ndim = 0, S = 0, V = 0, B = 0, T = 0;
  std::vector<long> A, mn, mx, order;
  if (!f.scalar("number of dimensions", 0, ndim) || !f.clean)
    return "";
  int ax = 0, vw = 0;
  for (int d = 2; d <= 3; ++d)
    {
      if (std_key(f.raw("matrix axis label", d)) == "axial coordinate")
        ax = d;
      if (std_key(f.raw("matrix axis label", d)) == "view")
        vw = d;
    }
  const bool hasS = f.scalar("matrix size", 4, S), hasV = vw && f.scalar("matrix size", vw, V), hasB = f.scalar("matrix size", 1, B);
  const bool hasA = ax && f.list("matrix size", ax, A), hasmn = f.list("minimum ring difference per segment", 0, mn),
             hasmx = f.list("maximum ring difference per segment", 0, mx);
  const bool hasT = ndim == 5 && f.scalar("matrix size", 5, T), hasorder = f.list("tof bin order", 0, order);
  if (!f.clean)
    return "";
  const long nseg = pd.get_num_segments();
  std::ostringstream why;
  if (hasS && S != nseg)
    why << "'matrix size [4]' says " << S << " segments; ";
  if (hasA && static_cast<long>(A.size()) != nseg)
    why << "'matrix size [" << ax << "]' lists axial positions for " << A.size() << " segments; ";
  if (hasmn && static_cast<long>(mn.size()) != nseg)
    why << "'minimum ring difference per segment' has " << mn.size() << " entries; ";
  if (hasmx && static_cast<long>(mx.size()) != nseg)
    why << "'maximum ring difference per segment' has " << mx.size() << " entries; ";
  if (!why.str().empty())
    return "header contradicts the accepted projection data (" + std::to_string(nseg) + " segments): " + why.str();
  if (hasA)
    {
      std::vector<long> have;
      for (int seg = pd.get_min_segment_num(); seg <= pd.get_max_segment_num(); ++seg)
        have.push_back(pd.get_num_axial_poss(seg));
      std::sort(have.begin(), have.end());
      std::sort(A.begin(), A.end());
      if (have != A)
        return "header contradicts the accepted projection data: the numbers of axial positions per segment differ from the list in 'matrix size [" + std::to_string(ax) + "]'";
    }
  if (hasmn && hasmx)
    {
      std::vector<std::pair<long, long>> have, given;
      for (int seg = pd.get_min_segment_num(); seg <= pd.get_max_segment_num(); ++seg)
        if (const ProjDataInfoCylindrical* c = dynamic_cast<const ProjDataInfoCylindrical*>(pd.get_proj_data_info_sptr().get()))
          have.push_back(std::make_pair<long, long>(c->get_min_ring_difference(seg), c->get_max_ring_difference(seg)));
      for (std::size_t k = 0; k < mn.size(); ++k)
        given.push_back(std::make_pair(std::min(mn[k], mx[k]), std::max(mn[k], mx[k]))); // min > max is swapped by the library, with a warning
      std::sort(have.begin(), have.end());
      std::sort(given.begin(), given.end());
      if (!have.empty() && have != given)
        return "header contradicts the accepted projection data: the (min, max) ring differences of the segments differ from the two lists of the header";
    }
  if (hasV && V != pd.get_num_views())
    return "header contradicts the accepted projection data: " + std::to_string(pd.get_num_views()) + " views, 'matrix size [" + std::to_string(vw) + "]' says " + std::to_string(V);
  if (hasB && B != pd.get_num_tangential_poss())
    return "header contradicts the accepted projection data: " + std::to_string(pd.get_num_tangential_poss()) + " tangential positions, 'matrix size [1]' says " + std::to_string(B);
  const long ntof = std::max(1, pd.get_num_tof_poss());
  if (ndim == 4 && ntof != 1)
    return "{pdfs:tof-bins-for-4D-header} header contradicts the accepted projection data: " + std::to_string(ntof)
           + " TOF bins, but 'number of dimensions := 4' (no TOF dimension declared)";
  if (ndim == 5 && hasT && T != ntof)
    return "header contradicts the accepted projection data: " + std::to_string(ntof) + " TOF bins, 'matrix size [5]' says " + std::to_string(T);
  if (hasorder && !order.empty() && static_cast<long>(order.size()) != ntof)
    return "header contradicts the accepted projection data: " + std::to_string(ntof) + " TOF bins, 'TOF bin order' lists " + std::to_string(order.size());
  return "";
}

// "" or what is wrong.  The PET header class is run on the text once more (the same deterministic parse that read_interfile_PDFS
// did) to get at the members that state what the header DECLARES: num_timing_poss (1 for a 4-D header, 'matrix size [5]' for a
// 5-D one, fixed by find_storage_order at the first ring-difference key), num_rings_per_segment, num_views, num_bins.
// The returned object has to have exactly that geometry: bins(object) = sum(axial) x views x tangential x num_timing_poss.
// Texts that read_interfile_PDFS hands to the SPECT / Siemens header classes are left to the other oracles.
static std::string
pdfs_object_vs_header(const std::string& text, const ProjDataFromStream& pd, long object_bins)
{
  try
    {
      MinimalInterfileHeader mh;
      std::istringstream in(text);
      if (!mh.parse(in, false))
        return "";
      if (mh.get_exam_info().imaging_modality.get_modality() == ImagingModality::NM || !mh.siemens_mi_version.empty())
        return "";
      c17::PdfsHdrProbe h;
      std::istringstream in2(text);
      if (!h.parse(in2) || !h.data_info_sptr)
        return "";
      const long tof_obj = pd.get_num_tof_poss(), tof_info = h.data_info_sptr->get_num_tof_poss(), tof_decl = h.num_timing_poss;
      if (tof_obj != tof_decl || tof_info != tof_decl)
        return "{pdfs:tof-bins-vs-declared-dimensions} projection data accepted with " + std::to_string(tof_obj) + " TOF bins (TOF mashing factor "
               + std::to_string(pd.get_proj_data_info_sptr()->get_tof_mash_factor()) + ", scanner has "
               + std::to_string(pd.get_proj_data_info_sptr()->get_scanner_ptr()->get_max_num_timing_poss()) + " unmashed TOF bins) but the header declares "
               + std::to_string(tof_decl) + " ('number of dimensions := " + std::to_string(h.num_dimensions) + "'): the object would read "
               + std::to_string(object_bins) + " bins";
      long per_tof = 0;
      for (int a : h.num_rings_per_segment)
        per_tof += static_cast<long>(a) * h.num_views * h.num_bins;
      if (per_tof * tof_decl != object_bins)
        return "{pdfs:object-size-vs-header} projection data accepted: the object reads " + std::to_string(object_bins) + " bins, the header declares "
               + std::to_string(per_tof) + " x " + std::to_string(tof_decl) + " TOF bins";
    }
  catch (std::bad_alloc&)
    {
      throw;
    }
  catch (std::exception&)
    {}
  return "";
}

static std::string
image_facts_check(const std::string& text, const VoxelsOnCartesianGrid<float>& image)
{
  Facts f = scan_facts(text);
  if (!f.clean)
    return "";
  long n[4] = { 0, 0, 0, 0 }, ndim = 0;
  const long have[4] = { 0, image.get_x_size(), image.get_y_size(), image.get_z_size() };
  if (f.scalar("number of dimensions", 0, ndim) && f.clean && ndim != 3)
    return "header says 'number of dimensions := " + std::to_string(ndim) + "' but a 3D image was returned";
  for (int d = 1; d <= 3; ++d)
    {
      std::vector<long> l;
      if (f.list("matrix size", d, l) && f.clean && (l.size() != 1 || l[0] != have[d]))
        return "header contradicts the accepted image: size " + std::to_string(have[d]) + " in dimension " + std::to_string(d) + ", 'matrix size [" + std::to_string(d)
               + "]' gives " + f.raw("matrix size", d);
      (void)n;
    }
  for (int d = 4; d <= 5; ++d)
    {
      // (a line whose value is not a number / list "has no value" for the library and is skipped: not a contradiction)
      std::vector<long> l;
      Facts g = f;
      if (g.list("matrix size", d, l) && g.clean && !l.empty())
        return "header gives a 'matrix size [" + std::to_string(d) + "]' but a 3D image was returned";
    }
  return "";
}

// verdict text; throws nothing
static std::string
run_target(Target t, const std::string& text, const std::string& workdir, bool facts)
{
  try
    {
      std::istringstream in(text);
      switch (t)
        {
          case T_KEYPARSER: {
            ProbeParser p;
            const bool ok = p.parse(in);
            // consistency: vector sizes are untouched by parsing (vectorised keys never resize)
            if (p.vi.size() != 3 || p.vd.size() != 3 || p.vs.size() != 3 || p.vil.size() != 3 || p.vdl.size() != 3 || p.vul.size() != 3)
              return "inconsistent a vectorised key changed the size of its vector";
            const std::string info = p.parameter_info();
            return std::string(ok ? "accepted" : "rejected parse()==false") + " info=" + std::to_string(info.size());
          }
          case T_IMAGE: {
            std::unique_ptr<VoxelsOnCartesianGrid<float>> image(read_interfile_image(in, workdir));
            if (!image)
              return "rejected null";
            // consistency with header and data file (header re-parsed separately)
            InterfileImageHeader hdr;
            std::istringstream in2(text);
            if (!hdr.parse(in2))
              return "inconsistent image returned but the header alone does not parse";
            const long nx = image->get_x_size(), ny = image->get_y_size(), nz = image->get_z_size();
            if (nx != hdr.matrix_size[0][0] || ny != hdr.matrix_size[1][0] || nz != hdr.matrix_size[2][0])
              return "inconsistent image sizes differ from 'matrix size' of the header";
            const long need = static_cast<long>(hdr.data_offset_each_dataset[0]) + nx * ny * nz * static_cast<long>(hdr.type_of_numbers.size_in_bytes());
            const long have = file_size(workdir + "/" + hdr.data_file_name);
            const long have_abs = file_size(hdr.data_file_name);
            if (std::max(have, have_abs) < need)
              return "inconsistent image accepted but data file has " + std::to_string(std::max(have, have_abs)) + " bytes, header needs " + std::to_string(need);
            if (facts)
              {
                const std::string why = image_facts_check(text, *image);
                if (!why.empty())
                  return "inconsistent " + why;
              }
            return "accepted " + std::to_string(nx) + "x" + std::to_string(ny) + "x" + std::to_string(nz) + " data=" + checksum(*image);
          }
          case T_PARAMIMAGE: {
            std::unique_ptr<ParametricVoxelsOnCartesianGrid> par(read_interfile_parametric_image(in, workdir));
            if (!par)
              return "rejected null";
            c17::ImgHdrProbe hdr;
            std::istringstream in2(text);
            if (!hdr.parse(in2))
              return "inconsistent parametric image returned but the header alone does not parse";
            const std::string tables = c17::image_tables_check(hdr);
            if (!tables.empty())
              return "inconsistent {order:table-length} parametric image returned, but the tables of the header object do not have the announced length: " + tables;
            if (hdr.num_image_data_types != static_cast<int>(ParametricVoxelsOnCartesianGrid::get_num_params()))
              return "inconsistent {paramimage:number-of-data-types} header says 'number of image data types := " + std::to_string(hdr.num_image_data_types)
                     + "', the parametric image that was returned has " + std::to_string(ParametricVoxelsOnCartesianGrid::get_num_params()) + " parameters";
            std::string sums;
            long nx = 0, ny = 0, nz = 0;
            for (int kp = 1; kp <= hdr.num_image_data_types; ++kp)
              {
                const VoxelsOnCartesianGrid<float> v = par->construct_single_density(kp);
                nx = v.get_x_size(), ny = v.get_y_size(), nz = v.get_z_size();
                if (nx != hdr.matrix_size[0][0] || ny != hdr.matrix_size[1][0] || nz != hdr.matrix_size[2][0])
                  return "inconsistent sizes of parameter " + std::to_string(kp) + " differ from 'matrix size' of the header";
                sums += (kp > 1 ? "," : "") + checksum(v);
              }
            const long bytes = nx * ny * nz * static_cast<long>(hdr.type_of_numbers.size_in_bytes());
            const long have = std::max(file_size(workdir + "/" + hdr.data_file_name), file_size(hdr.data_file_name));
            for (int kp = 0; kp < hdr.num_image_data_types; ++kp)
              if (static_cast<long>(hdr.data_offset_each_dataset[kp]) + bytes > have)
                return "inconsistent parametric image accepted but data set " + std::to_string(kp + 1) + " lies at bytes " + std::to_string(hdr.data_offset_each_dataset[kp])
                       + ".. of a data file of " + std::to_string(have) + " bytes";
            return "accepted " + std::to_string(hdr.num_image_data_types) + " parameters of " + std::to_string(nx) + "x" + std::to_string(ny) + "x" + std::to_string(nz)
                   + " data=" + sums;
          }
          case T_COPY:
            return run_copy_history(text);
          case T_PDFS: {
            std::unique_ptr<ProjDataFromStream> pd(read_interfile_PDFS(in, workdir, std::ios::in));
            if (!pd)
              return "rejected null";
            long bins = 0;
            for (int seg = pd->get_min_segment_num(); seg <= pd->get_max_segment_num(); ++seg)
              bins += static_cast<long>(pd->get_num_axial_poss(seg)) * pd->get_num_views() * pd->get_num_tangential_poss();
            bins *= std::max(1, pd->get_num_tof_poss());
            if (bins <= 0)
              return "inconsistent projection data accepted with " + std::to_string(bins) + " bins";
            // UNIVERSAL SIZE ORACLE, header object against returned object (PET reader only; any input, clean or not):
            // the header class derives `num_timing_poss` from what the header DECLARES ('number of dimensions' 4 => 1,
            // 5 => 'matrix size [5]', at the first ring-difference key) and the per-segment sizes from the 'matrix size'
            // lists; the object that is returned must read exactly that many bins, whatever the TOF keys
            // ('TOF mashing factor', scanner timing keys) say and wherever they stand in the header.
            {
              const std::string why = pdfs_object_vs_header(text, *pd, bins);
              if (!why.empty())
                return "inconsistent " + why;
            }
            if (facts)
              {
                const std::string why = pdfs_facts_check(text, *pd);
                if (!why.empty())
                  return "inconsistent " + why;
              }
            const long need = static_cast<long>(pd->get_offset_in_stream()) + bins * static_cast<long>(pd->get_data_type_in_stream().size_in_bytes());
            // data file name: from a separate parse of that key alone (the library's own line reading: continuation lines etc.)
            std::string datafile;
            {
              struct NameProbe : public KeyParser
              {
                std::string name;
                NameProbe()
                {
                  add_start_key("INTERFILE");
                  add_key("name of data file", &name);
                  add_stop_key("END OF INTERFILE");
                }
              } probe;
              std::istringstream in3(text);
              probe.parse(in3, false);
              datafile = probe.name;
            }
            const long have = std::max(file_size(workdir + "/" + datafile), file_size(datafile));
            if (bins > 200000000L)
              return "accepted-lazily " + std::to_string(bins) + " bins (not read)";
            // the data are read lazily: reading every segment must either work or be refused
            bool read_ok = true;
            std::string read_err;
            try
              {
                for (int seg = pd->get_min_segment_num(); seg <= pd->get_max_segment_num(); ++seg)
                  for (int tof = pd->get_min_tof_pos_num(); tof <= pd->get_max_tof_pos_num(); ++tof)
                    {
                      SegmentByView<float> s = pd->get_segment_by_view(seg, tof);
                      (void)s;
                    }
              }
            catch (std::exception& e)
              {
                read_ok = false;
                read_err = one_line(e.what(), 80);
              }
            if (have < need && read_ok)
              return "inconsistent projection data read without error although data file has " + std::to_string(have) + " bytes and header needs "
                     + std::to_string(need);
            if (have >= need && !read_ok)
              return "accepted-but-read-refused " + read_err;
            return std::string(read_ok ? "accepted " : "accepted-lazily-then-refused ") + std::to_string(bins) + " bins";
          }
          case T_MULTI: {
            MultipleDataSetHeader h;
            if (!h.parse(in))
              return "rejected parse()==false";
            const std::size_t n = h.get_num_data_sets();
            for (std::size_t k = 0; k < n; ++k)
              if (h.get_filename(k).empty())
                return "inconsistent accepted with an empty file name";
            return "accepted " + std::to_string(n) + " data sets";
          }
          case T_DYNIMAGE: {
            std::unique_ptr<DynamicDiscretisedDensity> dyn(read_interfile_dynamic_image(in, workdir));
            if (!dyn)
              return "rejected null";
            InterfileImageHeader hdr;
            std::istringstream in2(text);
            if (!hdr.parse(in2))
              return "inconsistent dynamic image returned but the header alone does not parse";
            const long nframes = static_cast<long>(dyn->get_num_time_frames());
            if (nframes < 1) // a header without any time-frame information (e.g. truncated before it): an empty dynamic image, nothing was read
              return "accepted-empty dynamic image with 0 time frames";
            long nx = 0, ny = 0, nz = 0;
            std::string sums;
            for (long fr = 1; fr <= nframes; ++fr)
              {
                const VoxelsOnCartesianGrid<float>& v = dynamic_cast<const VoxelsOnCartesianGrid<float>&>(dyn->get_density(static_cast<unsigned>(fr)));
                nx = v.get_x_size(), ny = v.get_y_size(), nz = v.get_z_size();
                if (fr <= 8)
                  sums += (fr > 1 ? "," : "") + checksum(v);
                if (nx != hdr.matrix_size[0][0] || ny != hdr.matrix_size[1][0] || nz != hdr.matrix_size[2][0])
                  return "inconsistent sizes of frame " + std::to_string(fr) + " differ from 'matrix size' of the header";
              }
            const long frame_bytes = nx * ny * nz * static_cast<long>(hdr.type_of_numbers.size_in_bytes());
            const long have = std::max(file_size(workdir + "/" + hdr.data_file_name), file_size(hdr.data_file_name));
            long first_offset = -1;
            for (long fr = 0; fr < nframes && fr < static_cast<long>(hdr.data_offset_each_dataset.size()); ++fr)
              {
                const long off = static_cast<long>(hdr.data_offset_each_dataset[fr]);
                if (off + frame_bytes > have)
                  return "inconsistent dynamic image accepted but frame " + std::to_string(fr + 1) + " lies at bytes " + std::to_string(off) + ".." + std::to_string(off + frame_bytes)
                         + " of a data file of " + std::to_string(have) + " bytes";
                first_offset = first_offset < 0 ? off : std::min(first_offset, off);
              }
            // frames for which the header gives no 'data offset in bytes[frame]': they can only follow the previous frame in the file,
            // so the file has to be long enough for all declared frames (else the frame has no data of its own: read from offset 0 again)
            if (facts)
              {
                Facts f = scan_facts(text);
                bool offset_missing = false;
                for (long fr = 2; fr <= nframes; ++fr)
                  if (!f.has("data offset in bytes", static_cast<int>(fr)))
                    offset_missing = true;
                if (f.clean && offset_missing && std::max(0L, first_offset) + nframes * frame_bytes > have)
                  return "inconsistent {dynimage:more-time-frames-declared-than-data-in-file} dynamic image accepted with " + std::to_string(nframes) + " time frames of "
                         + std::to_string(frame_bytes) + " bytes, but the data file has " + std::to_string(have)
                         + " bytes: a frame without a 'data offset in bytes' is read from offset 0 again";
              }
            if (facts)
              {
                Facts f = scan_facts(text);
                long declared = 0;
                if (f.clean && f.scalar("number of time frames", 0, declared) && f.clean && declared != nframes)
                  return "inconsistent header says 'number of time frames := " + std::to_string(declared) + "', the dynamic image has " + std::to_string(nframes);
                const std::string why = image_facts_check(text, dynamic_cast<const VoxelsOnCartesianGrid<float>&>(dyn->get_density(1)));
                if (!why.empty())
                  return "inconsistent " + why;
              }
            return "accepted " + std::to_string(nframes) + " frames of " + std::to_string(nx) + "x" + std::to_string(ny) + "x" + std::to_string(nz) + " data=" + sums;
          }
        default:
          return "rejected";
        }
    }
  catch (std::bad_alloc&)
    {
      return "inconsistent std::bad_alloc";
    }
  catch (std::exception& e)
    {
      return std::string("rejected exception ") + one_line(e.what(), 60);
    }
  catch (...)
    {
      return "rejected exception (non-std)";
    }
}

// ------------------------------------------------------------------------------------------------ corpus
struct Seed
{
  Target t;
  std::string name, text;
};

static std::vector<Seed>
make_corpus(const std::string& workdir, vh::Rng& rng)
{
  std::vector<Seed> seeds;
  mkdir(workdir.c_str(), 0777);
  seeds.push_back({ T_KEYPARSER, "probe", PROBE_TEXT });
  try
    {
      for (int k = 0; k < 3; ++k)
        {
          const bool tof = k == 2;
          shared_ptr<Scanner> scanner = vh::make_scanner(2 * rng.range(4, 12), rng.range(2, 4), tof ? 5 : -1);
          const int span = k == 1 ? 3 : 1;
          shared_ptr<ProjDataInfo> pdi = vh::make_pdi(scanner,
                                                      span,
                                                      scanner->get_num_rings() - 1,
                                                      scanner->get_num_detectors_per_ring() / 2,
                                                      scanner->get_num_detectors_per_ring() / 2 - 1,
                                                      false,
                                                      tof ? 1 : 0);
          shared_ptr<ExamInfo> exam(new ExamInfo);
          exam->imaging_modality = ImagingModality::PT;
          const std::string base = "pd_" + std::to_string(k);
          {
            ProjDataInterfile pd(exam, pdi, workdir + "/" + base);
            for (int seg = pd.get_min_segment_num(); seg <= pd.get_max_segment_num(); ++seg)
              for (int tofp = pd.get_min_tof_pos_num(); tofp <= pd.get_max_tof_pos_num(); ++tofp)
                {
                  SegmentByView<float> s = pd.get_empty_segment_by_view(seg, false, tofp);
                  s.fill(1.F);
                  pd.set_segment(s);
                }
          }
          seeds.push_back({ T_PDFS, base, slurp(workdir + "/" + base + ".hs") });
          shared_ptr<VoxelsOnCartesianGrid<float>> image = vh::make_image(*pdi, 1.F, rng.range(3, 9), rng.range(2, 5));
          image->fill(1.F);
          const std::string ibase = "img_" + std::to_string(k);
          OutputFileFormat<DiscretisedDensity<3, float>>::default_sptr()->write_to_file(workdir + "/" + ibase, *image);
          seeds.push_back({ T_IMAGE, ibase, slurp(workdir + "/" + ibase + ".hv") });
        }
    }
  catch (std::exception& e)
    {
      std::fprintf(stderr, "corpus: %s\n", e.what());
    }
  try
    {
      shared_ptr<Scanner> scanner = vh::make_scanner(16, 3);
      shared_ptr<ProjDataInfo> pdi = vh::make_pdi(scanner, 1, 2, 8, 7, false, 0);
      shared_ptr<VoxelsOnCartesianGrid<float>> image = vh::make_image(*pdi, 1.F, rng.range(3, 7), rng.range(2, 4));
      image->fill(1.F);
      const int nframes = rng.range(2, 4);
      std::vector<std::pair<double, double>> frames;
      double t = 0;
      for (int k = 0; k < nframes; ++k)
        {
          const double d = 30. * (k + 1);
          frames.push_back(std::make_pair(t, t + d));
          t += d;
        }
      DynamicDiscretisedDensity dyn(TimeFrameDefinitions(frames), 0., scanner, image);
      for (int k = 1; k <= nframes; ++k)
        dyn.get_density(k).fill(static_cast<float>(k));
      if (write_basic_interfile(workdir + "/dyn_0", dyn) == Succeeded::yes)
        seeds.push_back({ T_DYNIMAGE, "dyn_0", slurp(workdir + "/dyn_0.hv") });
    }
  catch (std::exception& e)
    {
      std::fprintf(stderr, "corpus (dynamic image): %s\n", e.what());
    }
  // the data file names written by the library may be absolute or relative: keep as written
  seeds.push_back({ T_MULTI, "multi", "Multi :=\n  total number of data sets := 2\n  data set[1] := pd_0.hs\n  data set[2] := pd_1.hs\nend :=\n" });
  // sample headers shipped with the library (SPECT, Siemens): no matching data file for the Siemens one
  const char* repo = std::getenv("STIR_REPO");
  const std::string samples = std::string(repo ? repo : "/repo") + "/examples/samples/";
  const std::string spect = slurp(samples + "SPECT_Interfile_header.hs");
  if (!spect.empty())
    {
      // smaller matrix / fewer projections than the sample, so that the zero-filled data file stays small
      std::vector<std::string> l = split_lines(spect);
      for (auto& x : l)
        {
          if (x.find("number of projections") != std::string::npos)
            x = "!number of projections := 12";
          else if (x.find("matrix size [1]") != std::string::npos)
            x = "!matrix size [1] := 16";
          else if (x.find("matrix size [2]") != std::string::npos)
            x = "!matrix size [2] := 8";
        }
      spit(workdir + "/somefile.s", std::string(16 * 8 * 12 * 4, '\0'));
      seeds.push_back({ T_PDFS, "spect-sample", join_lines(l) });
    }
  std::string siemens = slurp(samples + "mMR_sinogram.s.hdr");
  if (!siemens.empty())
    {
      // keep the first 80 lines (the rest are singles rates) and close the header
      std::vector<std::string> l = split_lines(siemens);
      if (l.size() > 80)
        l.resize(80);
      for (auto& x : l)
        if (!x.empty() && x.back() == '\r')
          x.erase(x.size() - 1);
      seeds.push_back({ T_PDFS, "siemens-sample", join_lines(l) });
    }
  return seeds;
}


struct Structured
{
  std::string text, expect;
};

// ------------------------------------------------------------------------------------------------ size-giving keys in another order
// Extra seed headers for the key-order family only: an image whose header has energy windows and a time frame, and a
// parametric image (two data sets), both written by the library.
static std::vector<Seed>
make_order_corpus(const std::string& workdir, vh::Rng& rng)
{
  std::vector<Seed> seeds;
  try
    {
      shared_ptr<Scanner> scanner = vh::make_scanner(16, 3);
      shared_ptr<ProjDataInfo> pdi = vh::make_pdi(scanner, 1, 2, 8, 7, false, 0);
      shared_ptr<VoxelsOnCartesianGrid<float>> image = vh::make_image(*pdi, 1.F, rng.range(3, 6), rng.range(2, 4));
      {
        ExamInfo exam = image->get_exam_info();
        exam.imaging_modality = ImagingModality::PT;
        exam.set_low_energy_thres(350.F);
        exam.set_high_energy_thres(650.F);
        exam.time_frame_definitions = TimeFrameDefinitions(std::vector<std::pair<double, double>>(1, std::make_pair(0., 60.)));
        image->set_exam_info(exam);
      }
      long i = 0;
      for (auto it = image->begin_all(); it != image->end_all(); ++it)
        *it = static_cast<float>(1 + (i++ % 11));
      if (write_basic_interfile(workdir + "/img_ew", *image) == Succeeded::yes)
        seeds.push_back({ T_IMAGE, "img_ew", slurp(workdir + "/img_ew.hv") });
      // two parametric images: without any time-frame information (the header then has 'number of time frames := 1' and no
      // per-frame keys, so that key may come anywhere), and with the frame and the energy window of the image above
      for (int variant = 0; variant < 2; ++variant)
        {
          VoxelsOnCartesianGrid<float> base = *image;
          if (variant == 0)
            {
              ExamInfo plain;
              plain.imaging_modality = ImagingModality::PT;
              base.set_exam_info(plain);
            }
          ParametricVoxelsOnCartesianGrid par(base);
          for (unsigned kp = 1; kp <= ParametricVoxelsOnCartesianGrid::get_num_params(); ++kp)
            {
              VoxelsOnCartesianGrid<float> single = base;
              single *= static_cast<float>(kp + 1);
              par.update_parametric_image(single, kp);
            }
          const std::string name = "par_" + std::to_string(variant);
          if (write_basic_interfile(workdir + "/" + name, par) == Succeeded::yes)
            seeds.push_back({ T_PARAMIMAGE, name, slurp(workdir + "/" + name + ".hv") });
        }
    }
  catch (std::exception& e)
    {
      std::fprintf(stderr, "corpus (order family): %s\n", e.what());
    }
  return seeds;
}

// ------------------------------------------------------------------------------------------------ TOF keys at every position
// Projection-data headers of TOF-CAPABLE scanners, written by the library: a generated scanner with timing information and the
// GE Discovery 690 (recognised by name: the header needs no timing keys of its own), each with non-TOF data (4-D header, the
// writer puts 'TOF mashing factor := 0' where it likes) and with TOF data (5-D header).
static std::vector<Seed>
make_tof_corpus(const std::string& workdir, vh::Rng& rng)
{
  std::vector<Seed> seeds;
  for (int k = 0; k < 4; ++k)
    try
      {
        const bool named = k >= 2, tof = k % 2 == 1;
        shared_ptr<Scanner> scanner;
        shared_ptr<ProjDataInfo> pdi;
        if (named)
          {
            scanner.reset(new Scanner(Scanner::Discovery690));
            // few views and tangential positions, segment 0 only or +-1: the data file stays small (the seeded defect of round 3:
            // 24 x 18 x 5 floats = 8640 bytes non-TOF, x 11 TOF bins with mashing factor 5)
            pdi = vh::make_pdi(scanner, 1, rng.range(0, 1), 18, rng.range(3, 6), false, tof ? 5 : 0);
          }
        else
          {
            const int maxtof = tof ? 15 : 2 * rng.range(2, 5) + 1;
            scanner = vh::make_scanner(2 * rng.range(4, 10), rng.range(2, 4), maxtof);
            pdi = vh::make_pdi(scanner, 1, scanner->get_num_rings() - 1, scanner->get_num_detectors_per_ring() / 2, scanner->get_num_detectors_per_ring() / 2 - 1, false,
                               tof ? 3 : 0);
          }
        shared_ptr<ExamInfo> exam(new ExamInfo);
        exam->imaging_modality = ImagingModality::PT;
        const std::string base = "pd_tof" + std::to_string(k);
        {
          ProjDataInterfile pd(exam, pdi, workdir + "/" + base);
          for (int seg = pd.get_min_segment_num(); seg <= pd.get_max_segment_num(); ++seg)
            for (int tofp = pd.get_min_tof_pos_num(); tofp <= pd.get_max_tof_pos_num(); ++tofp)
              {
                SegmentByView<float> s = pd.get_empty_segment_by_view(seg, false, tofp);
                s.fill(1.F + tofp);
                pd.set_segment(s);
              }
        }
        seeds.push_back({ T_PDFS, base, slurp(workdir + "/" + base + ".hs") });
      }
    catch (std::exception& e)
      {
        std::fprintf(stderr, "corpus (TOF family %d): %s\n", k, e.what());
      }
  return seeds;
}

static const char* TOFKEY_TAG = "tofkeys ";

static std::string
fmt_list(const std::vector<long>& l);

// The family: every TOF-related line of the header moved to every position; TOF-related lines (mashing factor in both
// spellings, number of (unmashed) TOF bins in both spellings, bin size, timing resolution, bin order) with plausible and
// contradicting values INSERTED at every position (quick: the mashing-factor lines at every position, the others at sampled
// positions); the header's own TOF lines removed.  No expectation is attached: the verdict of the universal oracles of the
// `pdfs` target decides (rejected / accepted and consistent with what the header declares / inconsistent / killed).
static std::vector<Structured>
tofkey_inputs(const Seed& seed, vh::Rng& rng, bool thorough)
{
  std::vector<Structured> out;
  const std::vector<std::string> lines = split_lines(seed.text);
  if (lines.size() < 6)
    return out;
  auto is_tof_line = [](const std::string& l) {
    const std::string k = c17::std_key_of(l);
    return k.find("tof") != std::string::npos || k.find("timing") != std::string::npos;
  };
  std::set<std::string> seen;
  auto add = [&](const std::vector<std::string>& l, const std::string& what) {
    const std::string t = join_lines(l);
    if (t != seed.text && seen.insert(t).second)
      out.push_back({ t, TOFKEY_TAG + what });
  };
  const int n = static_cast<int>(lines.size());
  long maxtof = 0, mash = 0;
  for (const std::string& l : lines)
    {
      const std::string k = c17::std_key_of(l);
      const std::size_t as = l.find(":=");
      if (as == std::string::npos)
        continue;
      if (k == "maximum number of (unmashed) tof time bins" || k == "number of tof time bins")
        maxtof = std::atol(l.c_str() + as + 2);
      if (k == "tof mashing factor" || k == "%tof mashing factor")
        mash = std::atol(l.c_str() + as + 2);
    }
  if (maxtof <= 0)
    maxtof = 55; // the named scanner: the header may leave it to the scanner table
  // (1) each TOF line of the header: removed, and moved to every position
  for (int k = 1; k + 1 < n; ++k)
    if (is_tof_line(lines[k]))
      {
        std::vector<std::string> without = lines;
        without.erase(without.begin() + k);
        {
          // a 4-D header without its mashing-factor line is a plain non-TOF header (find_storage_order resets the factor): must be accepted
          long nd = 0;
          Facts f = scan_facts(seed.text);
          const std::string t = join_lines(without);
          if (c17::std_key_of(lines[k]).find("mashing") != std::string::npos && f.scalar("number of dimensions", 0, nd) && nd == 4 && seen.insert(t).second)
            out.push_back({ t, "must-accept 4-D header of a TOF-capable scanner without a 'TOF mashing factor' line" });
          else
            add(without, "'" + c17::std_key_of(lines[k]) + "' removed");
        }
        // quick tier: the mashing-factor line to every position, the scanner timing lines to every third one
        const bool is_mash = c17::std_key_of(lines[k]).find("mashing") != std::string::npos;
        for (int pos = 1; pos < static_cast<int>(without.size()); pos += (thorough || is_mash) ? 1 : 3)
          {
            std::vector<std::string> l = without;
            l.insert(l.begin() + pos, lines[k]);
            add(l, "'" + c17::std_key_of(lines[k]) + "' moved to line " + std::to_string(pos));
          }
      }
  // (2) inserted lines
  std::vector<std::string> every, sampled;
  std::set<long> mashes = { 0, 5, maxtof + 1 };
  if (thorough)
    for (long m : { 1L, 3L, maxtof, -1L, 2L })
      mashes.insert(m);
  if (mash > 0)
    mashes.insert(mash);
  for (long m : mashes)
    every.push_back("TOF mashing factor := " + std::to_string(m));
  every.push_back("%TOF mashing factor := " + std::to_string(mash > 0 ? mash : 5));
  if (thorough)
    every.push_back("%TOF mashing factor := 1");
  else
    sampled.push_back("%TOF mashing factor := 1");
  for (long v : { maxtof, 3 * maxtof, 1L, 0L, -1L, 11L })
    {
      sampled.push_back("Maximum number of (unmashed) TOF time bins := " + std::to_string(v));
      sampled.push_back("Number of TOF time bins := " + std::to_string(v));
    }
  for (const char* v : { "89", "0", "-1" })
    {
      sampled.push_back(std::string("Size of unmashed TOF time bins (ps) := ") + v);
      sampled.push_back(std::string("Size of timing bin (ps) := ") + v);
      sampled.push_back(std::string("TOF timing resolution (ps) := ") + v);
      sampled.push_back(std::string("timing resolution (ps) := ") + v);
    }
  bool has_order = false;
  for (const std::string& l : lines)
    if (c17::std_key_of(l) == "tof bin order")
      has_order = true;
  if (!has_order)
    for (long T : { 1L, 3L, 11L, maxtof })
      {
        std::vector<long> order;
        for (long j = 0; j < T; ++j)
          order.push_back(j - T / 2);
        sampled.push_back("TOF bin order := " + fmt_list(order));
      }
  for (const std::string& x : every)
    for (int pos = 1; pos < n; ++pos)
      {
        std::vector<std::string> l = lines;
        l.insert(l.begin() + pos, x);
        add(l, "'" + x + "' inserted at line " + std::to_string(pos));
      }
  const int nsample = thorough ? n : 4;
  for (const std::string& x : sampled)
    for (int j = 0; j < nsample; ++j)
      {
        const int pos = thorough ? j + 1 : rng.range(1, n - 1);
        if (pos >= n)
          continue;
        std::vector<std::string> l = lines;
        l.insert(l.begin() + pos, x);
        add(l, "'" + x + "' inserted at line " + std::to_string(pos));
      }
  // (3) two TOF lines at once: a scanner timing key somewhere and a mashing factor somewhere else
  for (int j = 0; j < (thorough ? 2000 : 60); ++j)
    {
      std::vector<std::string> l = lines;
      const std::string a = sampled[rng.range(0, static_cast<int>(sampled.size()) - 1)], b = every[rng.range(0, static_cast<int>(every.size()) - 1)];
      l.insert(l.begin() + rng.range(1, static_cast<int>(l.size()) - 1), a);
      l.insert(l.begin() + rng.range(1, static_cast<int>(l.size()) - 1), b);
      add(l, "'" + a + "' and '" + b + "' inserted");
    }
  return out;
}

// header-object stage: parse `text` with the header class of the target; accepted => table lengths and a dump of all size-giving members
static void
header_stage(Target t, const std::string& text, bool& accepted, std::string& dump, std::string& tables_why)
{
  accepted = false;
  dump.clear();
  tables_why.clear();
  try
    {
      std::istringstream in(text);
      if (t == T_PDFS)
        {
          c17::PdfsHdrProbe h;
          if (!h.parse(in))
            return;
          accepted = true;
          dump = c17::pdfs_sizes_dump(h);
          tables_why = c17::pdfs_tables_check(h);
        }
      else
        {
          c17::ImgHdrProbe h;
          if (!h.parse(in))
            return;
          accepted = true;
          dump = c17::image_sizes_dump(h);
          tables_why = c17::image_tables_check(h);
        }
    }
  catch (std::bad_alloc&)
    {
      throw;
    }
  catch (std::exception&)
    {}
}

static std::string
run_target(Target t, const std::string& text, const std::string& workdir, bool facts);

static bool
is_accepted(const std::string& verdict)
{
  return verdict.compare(0, 9, "accepted ") == 0;
}

// A header whose size-giving lines come in another order than in `canon` (the header as written by the library) has to be
// rejected, or: (1) the header object has every table at the announced length, (2) its size-giving members have the values of
// the canonical order, (3) the reader (read_interfile_image / _dynamic_image / _parametric_image / _PDFS) returns the same data.
static std::string
run_order(Target t, const std::string& text, const std::string& canon, const std::string& workdir)
{
  bool accP = false, accC = false;
  std::string dumpP, dumpC, whyP, whyC;
  try
    {
      header_stage(t, text, accP, dumpP, whyP);
      if (accP && !whyP.empty())
        return "inconsistent {order:table-length} header with its size-giving keys in another order is accepted, but the tables of the header object do not have the announced length: " + whyP;
      header_stage(t, canon, accC, dumpC, whyC);
    }
  catch (std::bad_alloc&)
    {
      return "inconsistent std::bad_alloc";
    }
  if (accP && accC && dumpP != dumpC)
    return "inconsistent {order:values-differ} header with its size-giving keys in another order is accepted with other values: " + dumpP + " | canonical order: " + dumpC;
  const std::string vP = run_target(t, text, workdir, true);
  if (vP.compare(0, 12, "inconsistent") == 0)
    return vP;
  if (!is_accepted(vP))
    return vP + " order-family";
  const std::string vC = run_target(t, canon, workdir, true);
  if (is_accepted(vC) && vC != vP)
    return "inconsistent {order:data-differ} header with its size-giving keys in another order: " + vP + " | canonical order: " + vC;
  return vP + " order-family";
}

static const char* ORDER_TAG = "order-canonical ";

static std::string
unhexs(const std::string& tok)
{
  std::string r;
  for (std::size_t k = 1; k + 1 < tok.size(); k += 2)
    r += static_cast<char>(std::stoi(tok.substr(k, 2), nullptr, 16));
  return r;
}

static std::vector<Structured>
order_inputs(const Seed& seed, vh::Rng& rng, int n)
{
  std::vector<Structured> out;
  const std::vector<std::string> lines = split_lines(seed.text);
  std::set<std::string> seen;
  for (auto& d : c17::directed_reorders(lines))
    if (join_lines(d.second) != seed.text && seen.insert(join_lines(d.second)).second)
      out.push_back({ join_lines(d.second), ORDER_TAG + hexs(seed.text) });
  for (int k = 0; k < n; ++k)
    {
      std::string how;
      const std::string text = join_lines(c17::reorder_header(lines, rng, how));
      if (text == seed.text || !seen.insert(text).second)
        continue;
      out.push_back({ text, ORDER_TAG + hexs(seed.text) });
    }
  return out;
}

// ------------------------------------------------------------------------------------------------ mutations
static const char* VALUES[] = { "0",
                                "1",
                                "-1",
                                "2",
                                "3",
                                "4",
                                "5",
                                "7",
                                "64",
                                "1000",
                                "100000",
                                "20000000",
                                "100000000",
                                "2147483647",
                                "2147483648",
                                "4294967295",
                                "4294967296",
                                "-2147483648",
                                "99999999999999999999",
                                "-99999999999999999999",
                                "1e9",
                                "1e308",
                                "1e-320",
                                "nan",
                                "inf",
                                "-inf",
                                "0.0",
                                "-0.5",
                                "3.999",
                                "",
                                "   ",
                                "abc",
                                "12abc",
                                "{}",
                                "{1}",
                                "{1,2",
                                "{1,2,3,4,5,6,7,8,9,10}",
                                "{-1}",
                                "{0}",
                                "{1000000000}",
                                "{1,,2}",
                                "{a,b}",
                                "{ }",
                                "{{1,2},{3}}",
                                "{{1,2},{3,4}}",
                                "{{{1}}}",
                                "{{",
                                "}",
                                "float",
                                "signed integer",
                                "unsigned integer",
                                "bit",
                                "ascii",
                                "double",
                                "LITTLEENDIAN",
                                "BIGENDIAN",
                                "PET",
                                "Tomographic",
                                "Static",
                                "nucmed",
                                "PT",
                                "Image",
                                "Emission",
                                "Transmission",
                                "nonsense",
                                "x",
                                "y",
                                "z",
                                "view",
                                "segment",
                                "axial coordinate",
                                "tangential coordinate",
                                "timing positions",
                                "STIR3.0",
                                "STIR4.0",
                                "3.3",
                                "Cylindrical",
                                "BlocksOnCylindrical",
                                "Generic",
                                "ECAT 931",
                                "Siemens mMR",
                                "unknown",
                                "None",
                                "arc correction",
                                "{arc correction}",
                                "{none}",
                                "no such file.s",
                                "/dev/null",
                                "/dev/zero",
                                "." };
static const int NVALUES = sizeof(VALUES) / sizeof(VALUES[0]);

static const char* INDICES[] = { "[1]", "[2]", "[3]", "[4]", "[5]", "[6]", "[0]", "[-1]", "[ 2 ]", "[x]", "[]", "[", "[100]",
                                 "[99999999999]", "[4294967297]", "[2147483647]", "[-2147483648]", "[1][2]" };
static const int NINDICES = sizeof(INDICES) / sizeof(INDICES[0]);

// lines that are known Interfile keys (to be inserted anywhere)
static const char* EXTRA_LINES[] = { "number of dimensions := 3",
                                     "number of dimensions := 5",
                                     "number of dimensions := 100000000",
                                     "number of dimensions := -1",
                                     "number of time frames := 2",
                                     "number of time frames := 100000000",
                                     "number of time frames := -5",
                                     "number of energy windows := 3",
                                     "number of energy windows := 0",
                                     "number of energy windows := -1",
                                     "number of energy windows := 500000000",
                                     "number of image data types := 2",
                                     "number of image data types := 300000000",
                                     "version of keys := STIR3.0",
                                     "energy window lower level := 350",
                                     "energy window lower level[1] := 350",
                                     "energy window upper level[2] := 650",
                                     "PET data type := nonsense",
                                     "PET data type := Emission",
                                     "PET data type := Image",
                                     "type of data := nonsense",
                                     "type of data := Tomographic",
                                     "type of data := PET",
                                     "process status := nonsense",
                                     "patient orientation := nonsense",
                                     "patient rotation := prone",
                                     "number format := nonsense",
                                     "number format := bit",
                                     "number of bytes per pixel := 0",
                                     "number of bytes per pixel := 8",
                                     "number of bytes per pixel := 3",
                                     "imagedata byte order := nonsense",
                                     "matrix size[1] := {3,4}",
                                     "matrix size[3] := {}",
                                     "matrix size[2] := -4",
                                     "matrix size[3] := 100000",
                                     "matrix size[4] := 7",
                                     "matrix axis label[5] := timing positions",
                                     "image scaling factor[1] := {1,2,3}",
                                     "image scaling factor[2] := 5",
                                     "data offset in bytes[1] := 1000000000000",
                                     "data offset in bytes[1] := -1",
                                     "data offset in bytes[2] := 5",
                                     "quantification units := 2.5",
                                     "minimum ring difference per segment := {-1,0,1}",
                                     "maximum ring difference per segment := {}",
                                     "minimum ring difference per segment := {0}",
                                     "maximum ring difference per segment := {5,6,7,8,9}",
                                     "TOF bin order := {0,1}",
                                     "TOF mashing factor := 0",
                                     "TOF mashing factor := 7",
                                     "%TOF mashing factor := 2",
                                     "Maximum number of (unmashed) TOF time bins := 1000000",
                                     "number of rings := 0",
                                     "number of rings := 1000000",
                                     "number of detectors per ring := 3",
                                     "number of detectors per ring := -2",
                                     "originating system := ECAT 931",
                                     "originating system := GE Discovery 690",
                                     "Scanner geometry (BlocksOnCylindrical/Cylindrical/Generic) := Generic",
                                     "Scanner geometry (BlocksOnCylindrical/Cylindrical/Generic) := BlocksOnCylindrical",
                                     "Name of crystal map := nofile.txt",
                                     "applied corrections := {arc correction}",
                                     "effective central bin size (cm) := -1",
                                     "imaging modality := nucmed",
                                     "imaging modality := PT",
                                     "%sms-mi version number := 3.4",
                                     "number of projections := 0",
                                     "number of projections := 100000000",
                                     "extent of rotation := 0",
                                     "orbit := Non-circular",
                                     "Radii := {1,2}",
                                     "radius := -5",
                                     "direction of rotation := nonsense",
                                     "%number of segments := 3",
                                     "%segment table := {1,2,3}",
                                     "%segment table := {}",
                                     "%axial compression := 0",
                                     "%maximum ring difference := 1000000",
                                     "total number of data sets := 100000000",
                                     "total number of data sets := -1",
                                     "total number of data sets := 0",
                                     "data set[3] := x.hs",
                                     "study date := 1900:13:45",
                                     "study_time := 25:61:61",
                                     "radionuclide name[1] := ^18^Fluorine",
                                     "radionuclide halflife (sec)[1] := -1",
                                     "isotope name := nonsense",
                                     "calibration factor := 0",
                                     "index nesting level := {time frame}",
                                     "image data type description[1] := x",
                                     "first pixel offset (mm)[4] := 3",
                                     "first pixel offset (mm)[1] := 1e30",
                                     "scaling factor (mm/pixel)[1] := 0",
                                     "scaling factor (mm/pixel)[2] := -1",
                                     "scaling factor (mm/pixel)[3] := nan",
                                     "END OF INTERFILE :=",
                                     "!INTERFILE :=",
                                     "end :=",
                                     "" };
static const int NEXTRA = sizeof(EXTRA_LINES) / sizeof(EXTRA_LINES[0]);

static std::string
mutate_text(vh::Rng& rng, const std::string& text, const std::string& longname)
{
  std::vector<std::string> lines = split_lines(text);
  if (lines.empty())
    return text;
  std::string eol = "\n";
  const int nmut = rng.range(1, 3);
  for (int m = 0; m < nmut; ++m)
    {
      if (lines.empty())
        break;
      const int li = rng.range(0, static_cast<int>(lines.size()) - 1);
      std::string& line = lines[li];
      const std::size_t as = line.find(":=");
      switch (rng.range(0, 13))
        {
        case 0: // value replacement
        case 1:
        case 2:
          if (as != std::string::npos)
            line = line.substr(0, as + 2) + (rng.coin() ? " " : "") + VALUES[rng.range(0, NVALUES - 1)];
          break;
        case 3: // numeric tweak of an existing number
          if (as != std::string::npos)
            {
              const std::string v = line.substr(as + 2);
              char* end = nullptr;
              const long x = std::strtol(v.c_str(), &end, 10);
              if (end != v.c_str())
                {
                  static const long d[] = { 1, -1, 2, -2, 10, 1000 };
                  long y = x + d[rng.range(0, 5)];
                  if (rng.range(0, 5) == 0)
                    y = x * 2;
                  if (rng.range(0, 7) == 0)
                    y = -x;
                  line = line.substr(0, as + 2) + " " + std::to_string(y);
                }
            }
          break;
        case 4: // index change / insertion
          {
            const std::size_t lb = line.find('[');
            const std::size_t rb = line.find(']');
            if (lb != std::string::npos && rb != std::string::npos && lb < rb && (as == std::string::npos || rb < as))
              line = line.substr(0, lb) + INDICES[rng.range(0, NINDICES - 1)] + line.substr(rb + 1);
            else if (as != std::string::npos)
              line = line.substr(0, as) + INDICES[rng.range(0, NINDICES - 1)] + line.substr(as);
          }
          break;
        case 5: // line deletion
          lines.erase(lines.begin() + li);
          break;
        case 6: // line duplication elsewhere
          {
            const std::string copy = line;
            lines.insert(lines.begin() + rng.range(0, static_cast<int>(lines.size())), copy);
          }
          break;
        case 7: // insert a known key with a hostile value
        case 8:
          lines.insert(lines.begin() + rng.range(1, static_cast<int>(lines.size())), EXTRA_LINES[rng.range(0, NEXTRA - 1)]);
          break;
        case 9: // swap
          {
            const int lj = rng.range(0, static_cast<int>(lines.size()) - 1);
            std::swap(lines[li], lines[lj]);
          }
          break;
        case 10: // truncation at a line
          lines.resize(li + 1);
          break;
        case 11: // keyword damage / ':=' damage
          if (as != std::string::npos && as > 0)
            {
              static const char pool[] = " _!:=[]{}x\t\r";
              std::string k = line.substr(0, as);
              const int pos = rng.range(0, static_cast<int>(k.size()) - 1);
              if (rng.coin())
                k.insert(k.begin() + pos, pool[rng.range(0, static_cast<int>(sizeof(pool)) - 2)]);
              else
                k[pos] = pool[rng.range(0, static_cast<int>(sizeof(pool)) - 2)];
              line = k + (rng.range(0, 4) == 0 ? "=" : ":=") + line.substr(as + 2);
            }
          break;
        case 12: // very long value (file names are copied into fixed-size buffers)
          if (as != std::string::npos)
            line = line.substr(0, as + 2) + " " + longname.substr(0, rng.coin() ? 1200 : 5000);
          break;
        default: // line ends
          switch (rng.range(0, 3))
            {
            case 0:
              eol = "\r\n";
              break;
            case 1:
              line += "\\";
              break;
            case 2:
              line = "\t " + line + "  ";
              break;
            default:
              lines.insert(lines.begin() + li, ";" + line);
            }
        }
    }
  std::string t = join_lines(lines, eol);
  if (rng.range(0, 6) == 0 && !t.empty())
    t.resize(rng.range(0, static_cast<int>(t.size())));
  return t;
}

// the deterministic list of inputs for one seed
static std::vector<std::string>
inputs_for_seed(const Seed& seed, vh::Rng& rng, int nrandom, int nbytes)
{
  std::vector<std::string> in;
  in.push_back(seed.text);
  const std::vector<std::string> lines = split_lines(seed.text);
  // truncation at every line (with and without the final newline)
  for (std::size_t k = 0; k <= lines.size(); ++k)
    {
      std::vector<std::string> head(lines.begin(), lines.begin() + k);
      in.push_back(join_lines(head));
      if (k > 0)
        {
          std::string t = join_lines(head);
          t.resize(t.size() - 1);
          in.push_back(t);
        }
    }
  // deletion of every single line
  for (std::size_t k = 0; k < lines.size(); ++k)
    {
      std::vector<std::string> l = lines;
      l.erase(l.begin() + k);
      in.push_back(join_lines(l));
    }
  // truncation at sampled bytes
  for (int k = 0; k < nbytes && !seed.text.empty(); ++k)
    in.push_back(seed.text.substr(0, rng.range(0, static_cast<int>(seed.text.size()) - 1)));
  // random grammar-aware mutations
  const std::string longname(6000, 'A');
  for (int k = 0; k < nrandom; ++k)
    in.push_back(mutate_text(rng, seed.text, longname));
  return in;
}

// ------------------------------------------------------------------------------------------------ "exactly one field inconsistent"
// Structured mutations of a header written by the library: exactly ONE size-bearing line is changed so that it contradicts the
// others (a per-segment list with one entry too few / too many, a count that does not match the lists, an index beyond the
// declared count ...).  Every such header has to be rejected (expect = "must-reject <what>"); headers changed consistently, and
// the library's own header, have to be accepted (expect = "must-accept <what>").
static int
find_key_line(const std::vector<std::string>& lines, const std::string& key, int index)
{
  for (std::size_t k = 0; k < lines.size(); ++k)
    {
      KeyLine kl;
      if (split_key_line(lines[k], kl) && kl.key == key && kl.index_ok && kl.index == index)
        return static_cast<int>(k);
    }
  return -1;
}

static std::string
fmt_list(const std::vector<long>& l)
{
  std::string r = "{";
  for (std::size_t k = 0; k < l.size(); ++k)
    r += (k ? "," : "") + std::to_string(l[k]);
  return r + "}";
}

// lists derived from `l` with a different number of entries (entries dropped at either end, or plausible entries added)
static std::vector<std::vector<long>>
other_lengths(const std::vector<long>& l, vh::Rng& rng, bool ring_differences)
{
  std::vector<std::vector<long>> r;
  const long n = static_cast<long>(l.size());
  for (long drop = 1; drop <= 2 && drop <= n; ++drop)
    {
      r.push_back(std::vector<long>(l.begin(), l.end() - drop));
      r.push_back(std::vector<long>(l.begin() + drop, l.end()));
    }
  if (n >= 3)
    {
      std::vector<long> mid = l;
      mid.erase(mid.begin() + rng.range(1, static_cast<int>(n) - 2));
      r.push_back(mid);
    }
  for (long add = 1; add <= 2; ++add)
    {
      std::vector<long> back = l, front = l;
      for (long k = 0; k < add; ++k)
        {
          back.push_back(l.empty() ? 1 : (ring_differences ? back.back() + 1 : 1));
          front.insert(front.begin(), l.empty() ? 1 : (ring_differences ? front.front() - 1 : 1));
        }
      r.push_back(back);
      r.push_back(front);
    }
  r.push_back(std::vector<long>());
  return r;
}

static std::vector<Structured>
structured_inputs(const Seed& seed, vh::Rng& rng)
{
  std::vector<Structured> out;
  const std::vector<std::string> lines = split_lines(seed.text);
  auto with_line = [&](int li, const std::string& newline) {
    std::vector<std::string> l = lines;
    l[li] = newline;
    return join_lines(l);
  };
  auto with_extra = [&](const std::vector<std::string>& extra) {
    // before the last line (END OF INTERFILE)
    std::vector<std::string> l = lines;
    l.insert(l.end() - 1, extra.begin(), extra.end());
    return join_lines(l);
  };
  auto key_part = [&](int li) { return lines[li].substr(0, lines[li].find(":=") + 2) + " "; };
  Facts f = scan_facts(seed.text);
  if (lines.size() < 4 || !f.clean)
    return out;
  const bool pet_pd = seed.t == T_PDFS && seed.name.compare(0, 3, "pd_") == 0;
  const bool dynimage = seed.t == T_DYNIMAGE;
  const bool image = seed.t == T_IMAGE || dynimage;
  if (pet_pd || image)
    out.push_back({ seed.text, "must-accept the header as written by the library" });
  if (dynimage)
    {
      // the number of time frames against the per-frame keys that the header gives
      long nf = 0;
      const int lf = find_key_line(lines, "number of time frames", 0);
      if (lf >= 0 && f.scalar("number of time frames", 0, nf))
        {
          for (long d : { -2L, -1L })
            if (nf + d >= 1)
              out.push_back({ with_line(lf, key_part(lf) + std::to_string(nf + d)),
                              "must-reject 'number of time frames := " + std::to_string(nf + d) + "' but per-frame keys are given for " + std::to_string(nf) + " frames" });
          for (long d : { 1L, 2L })
            out.push_back({ with_line(lf, key_part(lf) + std::to_string(nf + d)),
                            "must-reject 'number of time frames := " + std::to_string(nf + d) + "' but per-frame keys and data are there for " + std::to_string(nf) + " frames only" });
          // one per-frame line missing / its offset beyond the end of the data
          for (const char* k : { "data offset in bytes", "image duration (sec)", "image relative start time (sec)" })
            {
              const int li = find_key_line(lines, k, static_cast<int>(nf));
              if (li < 0)
                continue;
              if (std::string(k) == "data offset in bytes")
                for (const char* v : { "100000000", "4294967296", "-1" })
                  out.push_back({ with_line(li, key_part(li) + v), std::string("must-reject the data offset of the last frame is ") + v + ": beyond the end of the data file" });
            }
        }
    }
  long ndim = 0;
  f.scalar("number of dimensions", 0, ndim);

  if (pet_pd)
    {
      // ---- per-segment lists and the segment count
      struct ListKey
      {
        const char* key;
        int index;
        bool rd;
      };
      int ax = 2;
      if (std_key(f.raw("matrix axis label", 3)) == "axial coordinate")
        ax = 3;
      const ListKey lk[] = { { "minimum ring difference per segment", 0, true }, { "maximum ring difference per segment", 0, true }, { "matrix size", ax, false } };
      for (const ListKey& k : lk)
        {
          const int li = find_key_line(lines, k.key, k.index);
          std::vector<long> l;
          if (li < 0 || !f.list(k.key, k.index, l))
            continue;
          for (const std::vector<long>& v : other_lengths(l, rng, k.rd))
            out.push_back({ with_line(li, key_part(li) + fmt_list(v)),
                            std::string("must-reject '") + k.key + (k.index ? " [" + std::to_string(k.index) + "]" : "") + "' has " + std::to_string(v.size())
                                + " entries, the other per-segment lists and 'matrix size [4]' say " + std::to_string(l.size()) });
        }
      long S = 0;
      const int ls = find_key_line(lines, "matrix size", 4);
      if (ls >= 0 && f.scalar("matrix size", 4, S))
        for (long d : { -2L, -1L, 1L, 2L })
          if (S + d >= 0)
            out.push_back({ with_line(ls, key_part(ls) + std::to_string(S + d)),
                            "must-reject 'matrix size [4]' says " + std::to_string(S + d) + " segments, the per-segment lists have " + std::to_string(S) + " entries" });
      // ---- TOF
      long T = 0;
      if (ndim == 5 && f.scalar("matrix size", 5, T))
        {
          std::vector<long> order;
          for (long k = 0; k < T; ++k)
            order.push_back(k - T / 2);
          out.push_back({ with_extra({ "TOF bin order := " + fmt_list(order) }), "must-accept 'TOF bin order' with one entry per TOF bin" });
          for (const std::vector<long>& v : other_lengths(order, rng, true))
            if (!v.empty())
              out.push_back({ with_extra({ "TOF bin order := " + fmt_list(v) }),
                              "must-reject 'TOF bin order' has " + std::to_string(v.size()) + " entries for " + std::to_string(T) + " TOF bins" });
          const int lt = find_key_line(lines, "matrix size", 5);
          if (lt >= 0)
            for (long d : { -2L, -1L, 1L, 2L, 4L })
              if (T + d >= 1)
                out.push_back({ with_line(lt, key_part(lt) + std::to_string(T + d)),
                                "must-reject 'matrix size [5]' says " + std::to_string(T + d) + " TOF bins, scanner and TOF mashing factor give " + std::to_string(T) });
          const int lm = find_key_line(lines, "tof mashing factor", 0);
          if (lm >= 0 && T > 1)
            out.push_back({ with_line(lm, key_part(lm) + std::to_string(T)), "must-reject 'TOF mashing factor' changed so that the number of TOF bins no longer is " + std::to_string(T) });
        }
    }
  if (image)
    {
      for (int d = 1; d <= 3; ++d)
        {
          const int li = find_key_line(lines, "matrix size", d);
          long n = 0;
          if (li < 0 || !f.scalar("matrix size", d, n))
            continue;
          out.push_back({ with_line(li, key_part(li) + "{" + std::to_string(n) + "," + std::to_string(n) + "}"),
                          "must-reject 'matrix size [" + std::to_string(d) + "]' of an image is a list of two sizes" });
          out.push_back({ with_line(li, key_part(li) + "{}"), "must-reject 'matrix size [" + std::to_string(d) + "]' is an empty list" });
          for (long m : { n + 1, 2 * n, n + 7 })
            out.push_back({ with_line(li, key_part(li) + std::to_string(m)),
                            "must-reject 'matrix size [" + std::to_string(d) + "]' enlarged to " + std::to_string(m) + ": the data file is too short" });
          std::vector<std::string> l = lines;
          l.erase(l.begin() + li);
          out.push_back({ join_lines(l), "must-reject 'matrix size [" + std::to_string(d) + "]' is missing" });
        }
      long nz = 0;
      if (f.scalar("matrix size", 3, nz))
        {
          std::vector<long> ones(nz, 1);
          out.push_back({ with_extra({ "image scaling factor[1] := " + fmt_list(ones) }), "must-accept one 'image scaling factor' per plane" });
          for (const std::vector<long>& v : other_lengths(ones, rng, false))
            if (v.size() != 1 && !v.empty())
              out.push_back({ with_extra({ "image scaling factor[1] := " + fmt_list(v) }),
                              "must-reject " + std::to_string(v.size()) + " image scaling factors for " + std::to_string(nz) + " planes" });
        }
    }
  if (pet_pd || image)
    {
      // ---- number of dimensions against the sizes given
      const int ld = find_key_line(lines, "number of dimensions", 0);
      if (ld >= 0 && ndim > 0)
        for (long d : { -2L, -1L, 1L, 2L })
          if (ndim + d >= 1)
            out.push_back({ with_line(ld, key_part(ld) + std::to_string(ndim + d)),
                            "must-reject 'number of dimensions := " + std::to_string(ndim + d) + "' with sizes and labels given for " + std::to_string(ndim) + " dimensions" });
      // ---- counts against vectorised per-frame / per-window keys
      const int lf = find_key_line(lines, "number of time frames", 0);
      long nf = 0;
      if (lf >= 0 && f.scalar("number of time frames", 0, nf))
        {
          for (const char* k : { "image duration (sec)", "image relative start time (sec)", "data offset in bytes", "image scaling factor" })
            {
              out.push_back({ with_extra({ std::string(k) + "[" + std::to_string(nf) + "] := 0" + (std::string(k) == "image scaling factor" ? "" : "") }),
                              std::string("must-accept '") + k + "' given for the last declared time frame" });
              for (long beyond : { nf + 1, nf + 2 })
                out.push_back({ with_extra({ std::string(k) + "[" + std::to_string(beyond) + "] := 0" }),
                                std::string("must-reject '") + k + "[" + std::to_string(beyond) + "]' given, but 'number of time frames := " + std::to_string(nf) + "'" });
            }
        }
      for (long beyond : { 2L, 3L })
        out.push_back({ with_extra({ "energy window upper level[" + std::to_string(beyond) + "] := 650" }),
                        "must-reject 'energy window upper level[" + std::to_string(beyond) + "]' given for a header with one energy window" });
      out.push_back({ with_extra({ "number of energy windows := 2", "energy window lower level[2] := 350", "energy window upper level[2] := 650" }),
                      "must-accept two energy windows declared and given" });
      out.push_back({ with_extra({ "number of energy windows := 2", "energy window lower level[3] := 350" }),
                      "must-reject 'energy window lower level[3]' given, but 'number of energy windows := 2'" });
    }
  if (seed.name == "spect-sample")
    {
      long nv = 0;
      const int lo = find_key_line(lines, "orbit", 0), lr = find_key_line(lines, "radius", 0);
      if (lo >= 0 && lr >= 0 && f.scalar("number of projections", 0, nv) && nv > 0 && nv < 1000)
        {
          std::vector<long> radii(nv, 150);
          auto spect = [&](const std::vector<long>& v) {
            std::vector<std::string> l = lines;
            l[lo] = "orbit := Non-circular";
            l[lr] = "Radii := " + fmt_list(v);
            return join_lines(l);
          };
          out.push_back({ spect(radii), "must-accept one radius per projection" });
          for (const std::vector<long>& v : other_lengths(radii, rng, false))
            out.push_back({ spect(v), "must-reject 'Radii' has " + std::to_string(v.size()) + " entries, 'number of projections := " + std::to_string(nv) + "'" });
          const int lp = find_key_line(lines, "number of projections", 0);
          if (lp >= 0)
            for (long d : { -1L, 1L })
              {
                std::vector<std::string> l = split_lines(spect(radii));
                l[lp] = key_part(lp) + std::to_string(nv + d);
                out.push_back({ join_lines(l), "must-reject 'number of projections := " + std::to_string(nv + d) + "' with " + std::to_string(nv) + " radii" });
              }
        }
    }
  return out;
}

// the expectation attached to a structured input turns an unexpected verdict into a finding
static std::string
apply_expectation(const std::string& expect, const std::string& verdict)
{
  if (expect.empty() || verdict.compare(0, 12, "inconsistent") == 0)
    return verdict;
  const bool accepted = verdict.compare(0, 8, "accepted") == 0 && verdict.compare(0, 16, "accepted-lazily-") != 0 && verdict.compare(0, 13, "accepted-but-") != 0
                        && verdict.compare(0, 14, "accepted-empty") != 0;
  const bool rejected = verdict.compare(0, 8, "rejected") == 0;
  if (expect.compare(0, 11, "must-reject") == 0 && accepted)
    return "inconsistent accepted a header with exactly one inconsistent size-bearing field:" + expect.substr(11) + " (" + verdict + ")";
  if (expect.compare(0, 11, "must-accept") == 0 && rejected)
    return "inconsistent rejected a consistent header:" + expect.substr(11) + " (" + verdict + ")";
  return verdict;
}


// ------------------------------------------------------------------------------------------------ copies of parsing objects
// History: an object is built from a text and prints itself (so its keymap is in use); it is copied (copy constructor /
// clone() / assignment into an object that has printed itself already); then the ORIGINAL is re-parsed with other values, or
// destroyed, or left alone; then the COPY prints itself: that has to be the text of the values it was copied with.  Parsing
// other values into the copy must not change what the original prints, and the text of the copy has to parse into a fresh
// object that prints the same text.  Under ASan a copy that kept KeyParser pointers into the original is a use-after-free.
static std::string g_workdir_for_copy;

struct CopyOps
{
  virtual ~CopyOps() {}
  virtual bool make(const std::string& text) = 0;
  virtual CopyOps* copy(int how) const = 0;
  virtual bool parse(const std::string& text) = 0;
  virtual std::string info() = 0;
  virtual std::string default_text() = 0;
};

template <class T>
struct ConcreteOps : public CopyOps
{
  std::unique_ptr<T> p;
  std::string seed_text; // for classes whose default-constructed object is refused by its own post_processing
  explicit ConcreteOps(const std::string& seed_text_v = "")
      : seed_text(seed_text_v)
  {}
  bool make(const std::string& text) override
  {
    p.reset(new T);
    return parse(text);
  }
  CopyOps* copy(int how) const override
  {
    ConcreteOps<T>* c = new ConcreteOps<T>(seed_text);
    if (how == 1)
      {
        c->p.reset(new T);
        c->p->parameter_info(); // the target of the assignment has its keymap in use as well
        *c->p = *p;
      }
    else
      c->p.reset(new T(*p));
    return c;
  }
  bool parse(const std::string& text) override
  {
    std::istringstream in(text);
    return p->parse(in);
  }
  std::string info() override { return p->parameter_info(); }
  std::string default_text() override
  {
    T t;
    if (!seed_text.empty())
      {
        std::istringstream in(seed_text);
        if (!t.parse(in))
          return "";
      }
    return t.parameter_info();
  }
};

static std::string
start_keyword_from_warnings(const std::string& warnings)
{
  const std::string tag = "required first keyword \"";
  std::size_t pos = warnings.find(tag);
  if (pos == std::string::npos)
    return "";
  pos += tag.size();
  const std::size_t e = warnings.find('"', pos);
  return e == std::string::npos ? "" : warnings.substr(pos, e - pos);
}

template <class Root>
struct ClonedOps : public CopyOps
{
  std::string name, seed_text;
  std::unique_ptr<Root> p;
  ClonedOps(const std::string& n, const std::string& t)
      : name(n),
        seed_text(t)
  {}
  bool make(const std::string& text) override
  {
    std::istringstream in(text);
    p.reset(RegisteredObject<Root>::read_registered_object(&in, name));
    return p != nullptr;
  }
  CopyOps* copy(int) const override
  {
    ClonedOps<Root>* c = new ClonedOps<Root>(name, seed_text);
    c->p.reset(p->clone());
    return c;
  }
  bool parse(const std::string& text) override
  {
    std::istringstream in(text);
    return p->parse(in);
  }
  std::string info() override { return p->parameter_info(); }
  std::string default_text() override
  {
    std::string text = seed_text;
    if (text.empty())
      {
        g_sink.str("");
        std::istringstream in("zz verif no such keyword :=\n");
        std::unique_ptr<Root> none(RegisteredObject<Root>::read_registered_object(&in, name));
        const std::string kw = start_keyword_from_warnings(g_sink.str());
        if (kw.empty())
          return "";
        text = kw + " :=\n";
      }
    std::size_t at;
    while ((at = text.find("@D@")) != std::string::npos)
      text.replace(at, 3, g_workdir_for_copy);
    std::istringstream in(text);
    std::unique_ptr<Root> q(RegisteredObject<Root>::read_registered_object(&in, name));
    return q ? q->parameter_info() : std::string();
  }
};

static std::map<std::string, std::string>&
clone_seed_texts()
{
  static std::map<std::string, std::string> m;
  if (m.empty())
    {
      m["Shape3D/Ellipsoid"] = "Ellipsoid Parameters :=\nradius-x (in mm) := 10\nradius-y (in mm) := 20\nradius-z (in mm) := 30\nEnd :=\n";
      m["Shape3D/Ellipsoidal Cylinder"] = "Ellipsoidal Cylinder Parameters :=\nradius-x (in mm) := 10\nradius-y (in mm) := 20\nlength-z (in mm) := 30\nEnd :=\n";
      m["Shape3D/Box3D"] = "Box Parameters :=\nlength-x (in mm) := 10\nlength-y (in mm) := 20\nlength-z (in mm) := 30\nEND :=\n";
      m["Shape3D/Discretised Shape3D"] = "Discretised Shape3D Parameters :=\ninput filename := @D@/img_0.hv\nEND :=\n";
      m["BackProjectorByBin/Matrix"] = "Back Projector Using Matrix Parameters :=\nMatrix type := Ray Tracing\nRay Tracing Matrix Parameters :=\nnumber of rays in tangential "
                                       "direction to trace for each bin := 2\nEnd Ray Tracing Matrix Parameters :=\nEnd Back Projector Using Matrix Parameters :=\n";
      m["BackProjectorByBin/Post Smoothing"]
          = "Post Smoothing Back Projector Parameters :=\nOriginal Back projector type := Interpolation\nBack Projector Using Interpolation Parameters :=\nEnd Back Projector "
            "Using Interpolation Parameters :=\nfilter type := Median\nMedian Filter Parameters :=\nmask radius x := 1\nEnd Median Filter Parameters :=\nEnd Post Smoothing "
            "Back Projector Parameters :=\n";
    }
  return m;
}

typedef DiscretisedDensity<3, float> DD3;

// all classes with a history driver: "<kind>/<name>" -> factory
static std::vector<std::pair<std::string, std::function<CopyOps*()>>>&
copy_classes()
{
  static std::vector<std::pair<std::string, std::function<CopyOps*()>>> v;
  if (!v.empty())
    return v;
#define C17_CONCRETE(label, T) v.push_back(std::make_pair(std::string("copy-constructor/") + label, std::function<CopyOps*()>([]() -> CopyOps* { return new ConcreteOps<T>; })))
#define C17_CONCRETE_FROM(label, T, text) v.push_back(std::make_pair(std::string("copy-constructor/") + label, std::function<CopyOps*()>([]() -> CopyOps* { return new ConcreteOps<T>(text); })))
  C17_CONCRETE("SeparableGaussianImageFilter", SeparableGaussianImageFilter<float>);
  C17_CONCRETE("SeparableCartesianMetzImageFilter", SeparableCartesianMetzImageFilter<float>);
  C17_CONCRETE("SeparableConvolutionImageFilter", SeparableConvolutionImageFilter<float>);
  C17_CONCRETE("MedianImageFilter3D", MedianImageFilter3D<float>);
  C17_CONCRETE("MinimalImageFilter3D", MinimalImageFilter3D<float>);
  C17_CONCRETE("MaximalImageFilter3D", MaximalImageFilter3D<float>);
  C17_CONCRETE("ThresholdMinToSmallPositiveValueDataProcessor", ThresholdMinToSmallPositiveValueDataProcessor<DD3>);
  C17_CONCRETE("TruncateToCylindricalFOVImageProcessor", TruncateToCylindricalFOVImageProcessor<float>);
  C17_CONCRETE("ChainedDataProcessor", ChainedDataProcessor<DD3>);
  C17_CONCRETE("QuadraticPrior", QuadraticPrior<float>);
  C17_CONCRETE("RelativeDifferencePrior", RelativeDifferencePrior<float>);
  C17_CONCRETE("LogcoshPrior", LogcoshPrior<float>);
  C17_CONCRETE("FilterRootPrior", FilterRootPrior<DD3>);
  C17_CONCRETE_FROM("ProjectorByBinPairUsingProjMatrixByBin", ProjectorByBinPairUsingProjMatrixByBin,
                    "Projector Pair Using Matrix Parameters :=\nMatrix type := Ray Tracing\nRay Tracing Matrix Parameters :=\nnumber of rays in tangential direction to trace for "
                    "each bin := 2\nEnd Ray Tracing Matrix Parameters :=\nEnd Projector Pair Using Matrix Parameters :=\n");
  C17_CONCRETE_FROM("ProjectorByBinPairUsingSeparateProjectors", ProjectorByBinPairUsingSeparateProjectors,
                    "Projector Pair Using Separate Projectors Parameters :=\nForward projector type := Ray Tracing\nForward Projector Using Ray Tracing Parameters :=\nEnd "
                    "Forward Projector Using Ray Tracing Parameters :=\nBack projector type := Interpolation\nBack Projector Using Interpolation Parameters :=\nEnd Back Projector "
                    "Using Interpolation Parameters :=\nEnd Projector Pair Using Separate Projectors Parameters :=\n");
  C17_CONCRETE("ForwardProjectorByBinUsingRayTracing", ForwardProjectorByBinUsingRayTracing);
  C17_CONCRETE("ChainedBinNormalisation", ChainedBinNormalisation);
#undef C17_CONCRETE
#undef C17_CONCRETE_FROM
  auto add_root = [&](const char* rootname, auto* root_tag) {
    typedef typename std::remove_pointer<decltype(root_tag)>::type Root;
    std::ostringstream names;
    RegisteredObject<Root>::list_registered_names(names);
    for (const std::string& name : split_lines(names.str()))
      {
        if (name.empty() || name == "None")
          continue;
        const std::string key = std::string(rootname) + "/" + name;
        const std::string text = clone_seed_texts().count(key) ? clone_seed_texts()[key] : std::string();
        v.push_back(std::make_pair("clone/" + key, std::function<CopyOps*()>([name, text]() -> CopyOps* { return new ClonedOps<Root>(name, text); })));
      }
  };
  add_root("Shape3D", static_cast<Shape3D*>(nullptr));
  add_root("BackProjectorByBin", static_cast<BackProjectorByBin*>(nullptr));
  add_root("ProjMatrixByBin", static_cast<ProjMatrixByBin*>(nullptr));
  return v;
}

// numeric values of a printed text replaced by other numbers (a replaced file or type name would need external data)
static std::string
other_numbers(const std::string& text, vh::Rng& rng)
{
  std::vector<std::string> lines = split_lines(text);
  std::vector<int> cand;
  for (std::size_t k = 0; k < lines.size(); ++k)
    {
      const std::size_t as = lines[k].find(":= ");
      if (as == std::string::npos)
        continue;
      const std::string v = lines[k].substr(as + 3);
      char* end = nullptr;
      std::strtod(v.c_str(), &end);
      if (!v.empty() && end != v.c_str() && *end == '\0')
        cand.push_back(static_cast<int>(k));
    }
  if (cand.empty())
    return text;
  const int nrep = rng.range(1, std::min<int>(3, static_cast<int>(cand.size())));
  for (int r = 0; r < nrep; ++r)
    {
      const int k = cand[rng.range(0, static_cast<int>(cand.size()) - 1)];
      const std::size_t as = lines[k].find(":= ");
      const std::string v = lines[k].substr(as + 3);
      static const char* ints[] = { "0", "1", "2", "3", "5", "7" };
      static const char* reals[] = { "0.5", "2.5", "1", "1.25", "3", "12.5" };
      lines[k] = lines[k].substr(0, as + 3) + (v.find_first_of(".eE") == std::string::npos ? ints[rng.range(0, 5)] : reals[rng.range(0, 5)]);
    }
  return join_lines(lines);
}

static std::string
first_diff(const std::string& a, const std::string& b)
{
  const std::vector<std::string> la = split_lines(a), lb = split_lines(b);
  for (std::size_t k = 0; k < std::max(la.size(), lb.size()); ++k)
    {
      const std::string x = k < la.size() ? la[k] : "<end>", y = k < lb.size() ? lb[k] : "<end>";
      if (x != y)
        return "line " + std::to_string(k + 1) + ": '" + x + "' / '" + y + "'";
    }
  return "(trailing blank lines)";
}

// a text with other numbers than `text` that the class accepts for a FRESH object (tried on a scratch object, so that no object of
// the history is left half-way through a refused parse); "" if none is found
static std::string
accepted_variant(const std::function<CopyOps*()>& factory, const std::string& text, vh::Rng& rng)
{
  for (int attempt = 0; attempt < 8; ++attempt)
    {
      const std::string t = other_numbers(text, rng);
      try
        {
          std::unique_ptr<CopyOps> scratch(factory());
          if (scratch->make(t) && scratch->info() != text)
            return t;
        }
      catch (std::bad_alloc&)
        {
          throw;
        }
      catch (std::exception&)
        {}
    }
  return "";
}

// script: "class <key>\nhow <0|1>\nthen <reparse|destroy|keep>\nseed <n>\n"
static std::string
run_copy_history(const std::string& script)
{
  std::string cls, then = "keep";
  int how = 0;
  uint64_t seed = 1;
  for (const std::string& l : split_lines(script))
    {
      if (l.compare(0, 6, "class ") == 0)
        cls = l.substr(6);
      else if (l.compare(0, 4, "how ") == 0)
        how = std::atoi(l.c_str() + 4);
      else if (l.compare(0, 5, "then ") == 0)
        then = l.substr(5);
      else if (l.compare(0, 5, "seed ") == 0)
        seed = std::strtoull(l.c_str() + 5, nullptr, 10);
    }
  std::function<CopyOps*()> factory;
  for (auto& c : copy_classes())
    if (c.first == cls)
      factory = c.second;
  if (!factory)
    return "rejected no such class";
  std::string key = cls;
  for (char& c : key)
    if (!isalnum(static_cast<unsigned char>(c)))
      c = '_';
  const std::string bad = "inconsistent {copy:" + key + "} ";
  vh::Rng rng(seed);
  std::unique_ptr<CopyOps> A(factory());
  const std::string base = A->default_text();
  if (base.empty())
    return "rejected not-constructible " + key + " (no default text)";
  // the original: built from its default text with other numbers, if the class accepts them
  std::string sA;
  bool built = false;
  for (int attempt = 0; attempt < 6 && !built; ++attempt)
    {
      try
        {
          built = A->make(attempt < 5 ? other_numbers(base, rng) : base);
        }
      catch (std::bad_alloc&)
        {
          throw;
        }
      catch (std::exception&)
        {}
    }
  if (!built)
    return "rejected not-constructible " + key + " (own default text is refused)";
  sA = A->info();
  // does the class reproduce its own text at all? (classes that do not are reported by part 1, not here)
  bool roundtrips = false;
  try
    {
      std::unique_ptr<CopyOps> F(factory());
      roundtrips = F->make(sA) && F->info() == sA;
    }
  catch (std::bad_alloc&)
    {
      throw;
    }
  catch (std::exception&)
    {}
  std::unique_ptr<CopyOps> C(A->copy(how));
  std::string sB = sA;
  bool changed = false;
  if (then == "reparse")
    {
      const std::string tB = accepted_variant(factory, sA, rng);
      bool okB = true;
      try
        {
          if (!tB.empty())
            okB = A->parse(tB);
        }
      catch (std::bad_alloc&)
        {
          throw;
        }
      catch (std::exception&)
        {
          okB = false;
        }
      if (!okB)
        return "rejected copy-history " + key + ": the original refuses a text that a fresh object of its class accepts";
      sB = A->info();
      changed = sB != sA;
    }
  else if (then == "destroy")
    A.reset();
  const std::string sC = C->info();
  if (sC != sA)
    return bad + "a copy (" + (how == 1 ? "operator=" : "copy constructor / clone()") + ") of an object whose keymap is in use does not print the values it was copied with"
           + (then == "reparse" ? " after the original was re-parsed with other values" : then == "destroy" ? " after the original was destroyed" : "") + ": " + first_diff(sA, sC);
  // other values into the copy: the original must not notice
  std::string sC2 = sC;
  {
    const std::string tC = accepted_variant(factory, sC, rng);
    bool okC = true;
    try
      {
        if (!tC.empty())
          okC = C->parse(tC);
      }
    catch (std::bad_alloc&)
      {
        throw;
      }
    catch (std::exception&)
      {
        okC = false;
      }
    if (!okC)
      return "rejected copy-history " + key + ": the copy refuses a text that a fresh object of its class accepts";
    sC2 = C->info();
  }
  if (A)
    {
      const std::string sA2 = A->info();
      if (sA2 != sB)
        return bad + "parsing other values into a copy changed what the original prints: " + first_diff(sB, sA2);
    }
  if (roundtrips)
    {
      bool ok = false;
      std::string sF;
      try
        {
          std::unique_ptr<CopyOps> F(factory());
          ok = F->make(sC2);
          if (ok)
            sF = F->info();
        }
      catch (std::bad_alloc&)
        {
          throw;
        }
      catch (std::exception&)
        {}
      if (!ok || sF != sC2)
        return bad + "the text that a copy prints for itself does not parse into an object that prints the same text: " + (ok ? first_diff(sC2, sF) : std::string("refused"));
    }
  return "accepted copy-history " + key + " original-changed=" + (changed ? "1" : "0") + " copy-changed=" + (sC2 != sC ? "1" : "0") + " round-trip=" + (roundtrips ? "1" : "0");
}

// ------------------------------------------------------------------------------------------------ running
static volatile int g_progress_fd = -1;

static void
on_alarm(int)
{
  static const char msg[] = "\nVERIF-TIMEOUT\n";
  if (write(2, msg, sizeof msg - 1) < 0)
    {}
  __sanitizer_print_stack_trace();
  _exit(77);
}

// abort() (e.g. a failed __glibcxx_assert of operator[]): say where
static void
on_abort(int)
{
  static const char msg[] = "\nVERIF-ABORT\n";
  if (write(2, msg, sizeof msg - 1) < 0)
    {}
  __sanitizer_print_stack_trace();
  _exit(78);
}

static void
silence_library()
{
  static TextWriter sink(&g_sink);
  TextWriterHandle h;
  h.set_warning_channel(&sink);
  h.set_error_channel(&sink);
  h.set_information_channel(&sink);
  vh::quiet();
}

struct Work
{
  Target t;
  std::string seedname;
  std::string text;
  std::string expect; // "", "must-reject <what>", "must-accept <what>" (structured family)
  bool facts = false; // compare the accepted object with an independent reading of the sizes in the header text
};

int
main(int argc, char** argv)
{
  if (argc < 5)
    return 2;
  silence_library();
  const std::string mode = argv[1];
  if (mode == "one")
    {
      Target t = T_KEYPARSER;
      for (int k = 0; k < T_COUNT; ++k)
        if (std::string(argv[2]) == target_name[k])
          t = static_cast<Target>(k);
      const std::string workdir = argv[3];
      g_workdir_for_copy = workdir;
      // the data files of the run that is replayed (checks/c17.py passes its seed in VERIF_SEED)
      const uint64_t seed = std::getenv("VERIF_SEED") ? std::strtoull(std::getenv("VERIF_SEED"), nullptr, 10) : 1;
      vh::Rng rng(seed * 1315423911ULL + 1717), rng2(seed * 2654435761ULL + 4242);
      make_corpus(workdir, rng); // data files for the headers
      make_order_corpus(workdir, rng2);
      {
        vh::Rng rng3(seed * 40503ULL + 9091);
        make_tof_corpus(workdir, rng3);
      }
      signal(SIGALRM, on_alarm);
      signal(SIGABRT, on_abort);
      alarm(20);
      const std::string expect = argc > 5 ? std::string(argv[5]) : std::string();
      const std::string verdict = expect.compare(0, std::strlen(ORDER_TAG), ORDER_TAG) == 0
                                      ? run_order(t, slurp(argv[4]), unhexs(expect.substr(std::strlen(ORDER_TAG))), workdir)
                                      : apply_expectation(expect.compare(0, std::strlen(TOFKEY_TAG), TOFKEY_TAG) == 0 ? std::string() : expect,
                                                          run_target(t, slurp(argv[4]), workdir, true));
      std::printf("VERDICT %s\n", verdict.c_str());
      return verdict.compare(0, 12, "inconsistent") == 0 ? 3 : 0;
    }
  if (argc < 6)
    return 2;
  const uint64_t seed = std::strtoull(argv[2], nullptr, 10);
  const bool thorough = std::string(argv[3]) == "thorough";
  const std::string workdir = argv[4];
  FILE* res = std::fopen(argv[5], "w");
  vh::Rng rng(seed * 1315423911ULL + 1717);
  std::vector<Seed> seeds = make_corpus(workdir, rng);

  std::vector<Work> work;
  // hand-minimised regression inputs first: corpus/C17/<target>__<name>
  if (const char* corpus = std::getenv("C17_CORPUS"))
    {
      std::vector<std::string> names;
      if (DIR* d = opendir(corpus))
        {
          while (struct dirent* e = readdir(d))
            if (e->d_name[0] != '.')
              names.push_back(e->d_name);
          closedir(d);
        }
      std::sort(names.begin(), names.end());
      for (const std::string& n : names)
        {
          const std::size_t us = n.find("__");
          if (us == std::string::npos)
            continue;
          for (int k = 0; k < T_COUNT; ++k)
            if (n.substr(0, us) == target_name[k])
              work.push_back({ static_cast<Target>(k), "corpus/" + n, slurp(std::string(corpus) + "/" + n), "", true });
        }
    }
  for (const Seed& s : seeds)
    {
      const int nrandom = thorough ? 8000 : (s.t == T_KEYPARSER ? 800 : 700);
      const int nbytes = thorough ? 400 : 30;
      // the facts oracle is for headers whose reading is unambiguous: PET projection data and images (not the SPECT / Siemens samples)
      const bool facts = (s.t == T_PDFS && s.name.compare(0, 3, "pd_") == 0) || s.t == T_IMAGE || s.t == T_DYNIMAGE;
      for (const Structured& st : structured_inputs(s, rng))
        work.push_back({ s.t, s.name, st.text, st.expect, facts });
      for (const std::string& text : inputs_for_seed(s, rng, nrandom, nbytes))
        work.push_back({ s.t, s.name, text, "", facts });
    }
  // ---- size-giving keys in another order (own random stream: the inputs above do not depend on this family)
  g_workdir_for_copy = workdir;
  long n_order = 0, n_copy = 0, n_tofkeys = 0;
  {
    vh::Rng rng2(seed * 2654435761ULL + 4242);
    std::vector<Seed> order_seeds = make_order_corpus(workdir, rng2);
    for (const Seed& s : order_seeds)
      work.push_back({ s.t, s.name, s.text, "must-accept the header as written by the library", true });
    for (const Seed& s : seeds)
      if (s.t == T_IMAGE || s.t == T_DYNIMAGE || (s.t == T_PDFS && s.name.compare(0, 3, "pd_") == 0))
        order_seeds.push_back(s);
    for (const Seed& s : order_seeds)
      for (const Structured& st : order_inputs(s, rng2, thorough ? 500 : (s.t == T_PARAMIMAGE || s.t == T_DYNIMAGE ? 120 : 50)))
        {
          work.push_back({ s.t, s.name, st.text, st.expect, true });
          ++n_order;
        }
    // ---- TOF keys at every position of projection-data headers of TOF-capable scanners (own random stream)
    {
      vh::Rng rng3(seed * 40503ULL + 9091);
      const std::vector<Seed> tof_seeds = make_tof_corpus(workdir, rng3);
      std::vector<Seed> fam = tof_seeds;
      for (const Seed& s : seeds)
        if (s.t == T_PDFS && s.name == "pd_2") // the TOF header of the main corpus
          fam.push_back(s);
      const std::string longname(6000, 'A');
      for (const Seed& s : tof_seeds)
        {
          for (const Structured& st : structured_inputs(s, rng3))
            work.push_back({ s.t, s.name, st.text, st.expect, true });
          // the generic mutations as well, on a smaller scale (the TOF branches of post_processing / ProjDataInfo under hostile values)
          for (int k = 0; k < (thorough ? 1500 : 80); ++k)
            work.push_back({ s.t, s.name, mutate_text(rng3, s.text, longname), "", true });
        }
      for (const Seed& s : fam)
        for (const Structured& st : tofkey_inputs(s, rng3, thorough))
          {
            work.push_back({ s.t, s.name, st.text, st.expect, true });
            ++n_tofkeys;
          }
    }
    // ---- copies of parsing objects
    const int nseeds = thorough ? 12 : 2;
    for (auto& c : copy_classes())
      for (int how = 0; how < (c.first.compare(0, 6, "clone/") == 0 ? 1 : 2); ++how)
        for (const char* then : { "reparse", "destroy", "keep" })
          for (int k = 0; k < nseeds; ++k)
            {
              work.push_back({ T_COPY, c.first, "class " + c.first + "\nhow " + std::to_string(how) + "\nthen " + then + "\nseed " + std::to_string(rng2.next() % 1000000) + "\n", "", false });
              ++n_copy;
            }
  }

  // The work list is cut into NWORKERS contiguous slices, each handled by its own supervisor process (which forks one child
  // per batch as before and writes its own part of the result file); the parts are concatenated in order afterwards.
  const int NWORKERS = 12;
  {
    // balance the slices: slice w gets the inputs w, w + NWORKERS, w + 2 NWORKERS ... of the list built above (the families differ
    // a lot in cost per input and stand one after the other in that list)
    std::vector<Work> riffled;
    riffled.reserve(work.size());
    std::vector<std::vector<std::size_t>> share(NWORKERS);
    for (std::size_t k = 0; k < work.size(); ++k)
      share[k % NWORKERS].push_back(k);
    // slice boundaries below are size * w / NWORKERS: fill the slices in exactly those sizes
    std::vector<std::size_t> order;
    for (int w = 0; w < NWORKERS; ++w)
      for (std::size_t k : share[w])
        order.push_back(k);
    for (std::size_t k : order)
      riffled.push_back(work[k]);
    work.swap(riffled);
  }
  std::fclose(res);
  std::vector<pid_t> supervisors;
  std::fflush(nullptr);
  for (int w = 0; w < NWORKERS; ++w)
    {
      const pid_t sp = fork();
      if (sp != 0)
        {
          supervisors.push_back(sp);
          continue;
        }
      // ---------------- supervisor w
      const std::size_t lo = work.size() * w / NWORKERS, hi = work.size() * (w + 1) / NWORKERS;
      FILE* res = std::fopen((std::string(argv[5]) + ".part" + std::to_string(w)).c_str(), "w");
  long killed = 0, inconsistent = 0;
  std::size_t next = lo;
  const std::size_t batch = 200;
  const std::string errfile = workdir + "/child" + std::to_string(w) + ".stderr";
  while (next < hi)
    {
      int fd[2];
      if (pipe(fd) != 0)
        return 2;
      std::fflush(nullptr);
      const pid_t pid = fork();
      if (pid == 0)
        {
          close(fd[0]);
          const int efd = open(errfile.c_str(), O_WRONLY | O_CREAT | O_TRUNC, 0666);
          if (efd >= 0)
            {
              dup2(efd, 2);
              dup2(efd, 1);
            }
          const int nfd = open("/dev/null", O_RDONLY);
          if (nfd >= 0)
            dup2(nfd, 0);
          signal(SIGALRM, on_alarm);
          signal(SIGABRT, on_abort);
          for (std::size_t k = next; k < std::min(hi, next + batch); ++k)
            {
              // keep only what the library prints for the current input
              if (efd >= 0)
                {
                  if (ftruncate(efd, 0) != 0)
                    {}
                  lseek(efd, 0, SEEK_SET);
                }
              std::string msg = "B " + std::to_string(k) + "\n";
              if (write(fd[1], msg.c_str(), msg.size()) < 0)
                {}
              alarm(thorough ? 30 : 15);
              std::string verdict = work[k].expect.compare(0, std::strlen(ORDER_TAG), ORDER_TAG) == 0
                                        ? run_order(work[k].t, work[k].text, unhexs(work[k].expect.substr(std::strlen(ORDER_TAG))), workdir)
                                        : work[k].expect.compare(0, std::strlen(TOFKEY_TAG), TOFKEY_TAG) == 0
                                              ? run_target(work[k].t, work[k].text, workdir, work[k].facts) + " tofkey-family"
                                              : apply_expectation(work[k].expect, run_target(work[k].t, work[k].text, workdir, work[k].facts));
              alarm(0);
              // UBSan signed-integer-overflow reports are not fatal (see checks/c17.py): tag the verdict
              if (slurp(errfile).find("signed integer overflow") != std::string::npos)
                verdict += " +signed-overflow";
              msg = "E " + std::to_string(k) + " " + one_line(verdict, 300) + "\n";
              if (write(fd[1], msg.c_str(), msg.size()) < 0)
                {}
            }
          _exit(0);
        }
      close(fd[1]);
      std::string all;
      char buf[65536];
      ssize_t n;
      while ((n = read(fd[0], buf, sizeof buf)) > 0)
        all.append(buf, n);
      close(fd[0]);
      int st = 0;
      waitpid(pid, &st, 0);
      long begun = -1, ended = -1;
      for (const std::string& l : split_lines(all))
        {
          if (l.compare(0, 2, "B ") == 0)
            begun = std::atol(l.c_str() + 2);
          else if (l.compare(0, 2, "E ") == 0)
            {
              ended = std::atol(l.c_str() + 2);
              const std::size_t sp = l.find(' ', 2);
              const std::string verdict = sp == std::string::npos ? "" : l.substr(sp + 1);
              const Work& w = work[ended];
              if (verdict.compare(0, 12, "inconsistent") == 0)
                {
                  ++inconsistent;
                  const std::string inputfile = workdir + "/inconsistent_" + target_name[w.t] + "_" + std::to_string(ended) + ".txt";
                  spit(inputfile, w.text);
                  spit(inputfile + ".expect", w.expect);
                  std::fprintf(res, "CASE %s %ld %s | seed-header=%s input=%s\n", target_name[w.t], ended, verdict.c_str(), w.seedname.c_str(), inputfile.c_str());
                }
              else
                std::fprintf(res, "CASE %s %ld %s\n", target_name[w.t], ended, verdict.c_str());
            }
        }
      if (begun > ended)
        {
          // input `begun` killed the child
          ++killed;
          const Work& w = work[begun];
          std::string how = WIFSIGNALED(st) ? "signal" + std::to_string(WTERMSIG(st)) : "exit" + std::to_string(WEXITSTATUS(st));
          const std::string inputfile = workdir + "/killed_" + target_name[w.t] + "_" + std::to_string(begun) + ".txt";
          const std::string stderrfile = workdir + "/killed_" + target_name[w.t] + "_" + std::to_string(begun) + ".stderr";
          spit(inputfile, w.text);
          spit(stderrfile, slurp(errfile));
          std::fprintf(res, "KILLED %s %ld %s %s %s seed-header=%s\n", target_name[w.t], begun, how.c_str(), inputfile.c_str(), stderrfile.c_str(), w.seedname.c_str());
          next = begun + 1;
        }
      else
        next = std::min(hi, next + batch);
    }
      std::fprintf(res, "PART inputs=%zu killed=%ld inconsistent=%ld\n", hi - lo, killed, inconsistent);
      std::fclose(res);
      _exit(0);
    }
  bool all_ok = true;
  for (pid_t sp : supervisors)
    {
      int st = 0;
      waitpid(sp, &st, 0);
      if (!(WIFEXITED(st) && WEXITSTATUS(st) == 0))
        all_ok = false;
    }
  res = std::fopen(argv[5], "w");
  long killed = 0, inconsistent = 0, structured = 0, parts = 0;
  for (const Work& w : work)
    if (!w.expect.empty())
      ++structured;
  for (int w = 0; w < NWORKERS; ++w)
    {
      const std::string part = std::string(argv[5]) + ".part" + std::to_string(w);
      for (const std::string& l : split_lines(slurp(part)))
        {
          if (l.compare(0, 5, "PART ") == 0)
            {
              ++parts;
              long a = 0, b = 0, c = 0;
              if (std::sscanf(l.c_str(), "PART inputs=%ld killed=%ld inconsistent=%ld", &a, &b, &c) == 3)
                {
                  killed += b;
                  inconsistent += c;
                }
            }
          else
            std::fprintf(res, "%s\n", l.c_str());
        }
      unlink(part.c_str());
    }
  // a supervisor that did not finish leaves the DONE line out: the check reports the run as incomplete
  if (all_ok && parts == NWORKERS)
    std::fprintf(res, "DONE inputs=%zu killed=%ld inconsistent=%ld structured=%ld order=%ld copy=%ld tofkeys=%ld\n", work.size(), killed, inconsistent, structured - n_order - n_tofkeys, n_order, n_copy, n_tofkeys);
  std::fclose(res);
  return 0;
}
