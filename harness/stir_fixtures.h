// Small generated scanners / projection-data geometries / image grids for the /verif harnesses.
#pragma once
#include "stir/Scanner.h"
#include "stir/ProjDataInfo.h"
#include "stir/ProjDataInfoCylindricalNoArcCorr.h"
#include "stir/VoxelsOnCartesianGrid.h"
#include "stir/IndexRange3D.h"
#include "stir/shared_ptr.h"
#include "stir/Verbosity.h"
#include <string>

namespace vh {
using namespace stir;

// user-defined cylindrical scanner: N detectors per ring (even), R rings; optional TOF
inline shared_ptr<Scanner>
make_scanner(int N, int R, int max_tof_bins = -1, const std::string& geometry = "Cylindrical")
{
  const float ring_radius = 100.F + N / 4.F;
  const float ring_spacing = 4.F;
  const float bin_size = 2.F;
  shared_ptr<Scanner> s(new Scanner(Scanner::User_defined_scanner,
                                    std::string("verif_scanner"),
                                    N,
                                    R,
                                    /*max_num_non_arccorrected_bins*/ N / 2 - 1 > 0 ? N / 2 - 1 : 1,
                                    /*default_num_arccorrected_bins*/ N / 2 - 1 > 0 ? N / 2 - 1 : 1,
                                    ring_radius,
                                    /*average_depth_of_interaction*/ 5.F,
                                    ring_spacing,
                                    bin_size,
                                    /*intrinsic_tilt*/ 0.F,
                                    /*num_axial_blocks_per_bucket*/ 1,
                                    /*num_transaxial_blocks_per_bucket*/ 1,
                                    /*num_axial_crystals_per_block*/ R,
                                    /*num_transaxial_crystals_per_block*/ N,
                                    /*num_axial_crystals_per_singles_unit*/ 1,
                                    /*num_transaxial_crystals_per_singles_unit*/ 1,
                                    /*num_detector_layers*/ 1,
                                    /*energy_resolution*/ 0.1F,
                                    /*reference_energy*/ 511.F,
                                    /*max_num_of_timing_poss*/ static_cast<short>(max_tof_bins),
                                    /*size_timing_pos*/ max_tof_bins > 0 ? 100.F : -1.F,
                                    /*timing_resolution*/ max_tof_bins > 0 ? 400.F : -1.F,
                                    geometry));
  return s;
}

inline shared_ptr<ProjDataInfo>
make_pdi(const shared_ptr<Scanner>& scanner,
         int span,
         int max_delta,
         int num_views,
         int num_tang,
         bool arc_corrected = false,
         int tof_mash = 0)
{
  shared_ptr<ProjDataInfo> p(
      ProjDataInfo::construct_proj_data_info(scanner, span, max_delta, num_views, num_tang, arc_corrected, tof_mash).release());
  return p;
}

inline shared_ptr<VoxelsOnCartesianGrid<float>>
make_image(const ProjDataInfo& pdi, float zoom = 1.F, int nxy = -1, int nz = -1, float zorigin = 0.F)
{
  shared_ptr<VoxelsOnCartesianGrid<float>> im(new VoxelsOnCartesianGrid<float>(
      pdi, zoom, CartesianCoordinate3D<float>(zorigin, 0.F, 0.F), CartesianCoordinate3D<int>(nz, nxy, nxy)));
  return im;
}

inline void
quiet()
{
  Verbosity::set(0);
}

} // namespace vh
