// C17 — shared by c17_keyparser.cxx (part 1) and c17_fuzz.cxx (part 2):
//   * header objects with their protected members exposed (ImgHdrProbe, PdfsHdrProbe);
//   * ORACLE "every table of the header object has the announced length" (image_tables_check, pdfs_tables_check);
//   * a dump of all size-giving members (for "the permuted header gives the same values as the canonical order");
//   * re-ordering of the size-giving lines of a header text (reorder_header).
#pragma once
#include "common.h"
#include "stir/IO/InterfileHeader.h"
#include <algorithm>
#include <sstream>
#include <string>
#include <vector>

namespace c17 {

struct ImgHdrProbe : public stir::InterfileImageHeader
{
  int tf() const { return num_time_frames; }
  int nds() const { return get_num_datasets(); }
  int bpp() const { return bytes_per_pixel; }
  const std::vector<double>& starts() const { return image_relative_start_times; }
  const std::vector<double>& durs() const { return image_durations; }
};

struct PdfsHdrProbe : public stir::InterfilePDFSHeader
{
  int tf() const { return num_time_frames; }
  int nds() const { return get_num_datasets(); }
  const std::vector<double>& starts() const { return image_relative_start_times; }
  const std::vector<double>& durs() const { return image_durations; }
};

template <class V>
static void
want(std::ostringstream& why, const char* what, const V& v, long n, const char* count)
{
  if (static_cast<long>(v.size()) != n)
    why << what << " has " << v.size() << " elements, '" << count << "' is " << n << "; ";
}

// tables of InterfileHeader (common part)
template <class H>
static void
base_tables_check(std::ostringstream& why, const H& h)
{
  want(why, "matrix_labels", h.matrix_labels, h.num_dimensions, "number of dimensions");
  want(why, "matrix_size", h.matrix_size, h.num_dimensions, "number of dimensions");
  want(why, "pixel_sizes", h.pixel_sizes, h.num_dimensions, "number of dimensions");
  want(why, "image_scaling_factors", h.image_scaling_factors, h.nds(), "number of data sets (time frames x data types)");
  want(why, "data_offset_each_dataset", h.data_offset_each_dataset, h.nds(), "number of data sets (time frames x data types)");
  want(why, "lower_en_window_thresholds", h.lower_en_window_thresholds, h.num_energy_windows, "number of energy windows");
  want(why, "upper_en_window_thresholds", h.upper_en_window_thresholds, h.num_energy_windows, "number of energy windows");
  // the per-frame tables are empty until 'number of time frames' has been seen (the count then still has its default 1)
  if (!(h.starts().empty() && h.durs().empty() && h.tf() == 1))
    {
      want(why, "image_relative_start_times", h.starts(), h.tf(), "number of time frames");
      want(why, "image_durations", h.durs(), h.tf(), "number of time frames");
    }
}

// "" or what is wrong; for an ACCEPTED image header (post_processing has expanded the scaling factors to one per plane)
static std::string
image_tables_check(const ImgHdrProbe& h)
{
  std::ostringstream why;
  base_tables_check(why, h);
  want(why, "first_pixel_offsets", h.first_pixel_offsets, h.num_dimensions, "number of dimensions");
  want(why, "image_data_type_description", h.image_data_type_description, h.num_image_data_types, "number of image data types");
  if (!h.matrix_size.empty() && !h.matrix_size.back().empty())
    for (std::size_t k = 0; k < h.image_scaling_factors.size(); ++k)
      if (static_cast<long>(h.image_scaling_factors[k].size()) != h.matrix_size.back()[0])
        why << "image_scaling_factors[" << k << "] has " << h.image_scaling_factors[k].size() << " elements for " << h.matrix_size.back()[0] << " planes; ";
  return why.str();
}

static std::string
pdfs_tables_check(const PdfsHdrProbe& h)
{
  std::ostringstream why;
  base_tables_check(why, h);
  want(why, "min_ring_difference", h.min_ring_difference, h.num_segments, "matrix size [4] (segments)");
  want(why, "max_ring_difference", h.max_ring_difference, h.num_segments, "matrix size [4] (segments)");
  want(why, "num_rings_per_segment", h.num_rings_per_segment, h.num_segments, "matrix size [4] (segments)");
  want(why, "segment_sequence", h.segment_sequence, h.num_segments, "matrix size [4] (segments)");
  if (!h.timing_poss_sequence.empty())
    want(why, "timing_poss_sequence", h.timing_poss_sequence, h.num_timing_poss, "matrix size [5] (TOF bins)");
  return why.str();
}

// integer-valued doubles as integers (the `hdr` operations give integer values only); `u` = double_value_not_set
static std::string
num(double v)
{
  if (v == stir::MinimalInterfileHeader::double_value_not_set)
    return "-99999999999";
  const long l = static_cast<long>(v);
  if (static_cast<double>(l) == v)
    return std::to_string(l);
  return "f" + vh::hex(v);
}

template <class T>
static std::string
ints(const std::vector<T>& l)
{
  std::ostringstream s;
  s << l.size() << ":";
  for (std::size_t k = 0; k < l.size(); ++k)
    s << (k ? "," : "") << num(static_cast<double>(l[k]));
  return s.str();
}

template <class T>
static std::string
lists(const std::vector<std::vector<T>>& l)
{
  std::ostringstream s;
  s << l.size() << ":";
  for (std::size_t k = 0; k < l.size(); ++k)
    s << (k ? ";" : "") << ints(l[k]);
  return s.str();
}

static std::string
hexstr(const std::string& s)
{
  static const char* d = "0123456789abcdef";
  std::string r = "x";
  for (unsigned char c : s)
    {
      r += d[c >> 4];
      r += d[c & 15];
    }
  return r;
}

static std::string
strs(const std::vector<std::string>& l)
{
  std::ostringstream s;
  s << l.size() << ":";
  for (std::size_t k = 0; k < l.size(); ++k)
    s << (k ? "," : "") << hexstr(l[k]);
  return s.str();
}

// every member of the image header that the Lean model has, in the order of `imageHeader0` (lean/StirVerif/C17/Model.lean)
static std::string
image_dump(const ImgHdrProbe& h)
{
  // (imaging_modality_as_string, byte_order_index and number_format_index are private: not dumped, on either side)
  std::ostringstream o;
  o << "s:" << hexstr(h.version_of_keys) << " s:" << hexstr(h.data_file_name) << " c:" << h.type_of_data_index << " i:" << h.bpp() << " i:" << h.num_dimensions << " vl:" << lists(h.matrix_size) << " vs:" << strs(h.matrix_labels)
    << " vi:" << ints(h.pixel_sizes) << " i:" << h.tf() << " vi:" << ints(h.starts()) << " vi:" << ints(h.durs()) << " vl:" << lists(h.image_scaling_factors)
    << " i:" << h.num_energy_windows << " vi:" << ints(h.lower_en_window_thresholds) << " vi:" << ints(h.upper_en_window_thresholds) << " vi:"
    << ints(h.first_pixel_offsets) << " i:" << h.num_image_data_types << " sl:" << strs(h.index_nesting_level) << " vs:" << strs(h.image_data_type_description)
    << " c:" << h.PET_data_type_index << " vi:" << ints(h.data_offset_each_dataset);
  return o.str();
}

// the size-giving members only (for the comparison "permuted order == canonical order" on library-written headers, whose other
// values are arbitrary floats)
template <class H>
static std::string
sizes_dump(const H& h)
{
  std::ostringstream o;
  o << "dims=" << h.num_dimensions << " frames=" << h.tf() << " datasets=" << h.nds() << " windows=" << h.num_energy_windows << " matrix_size=" << lists(h.matrix_size)
    << " labels=" << strs(h.matrix_labels) << " pixel_sizes=";
  for (float v : h.pixel_sizes)
    o << vh::hex(v) << ",";
  o << " starts=";
  for (double v : h.starts())
    o << vh::hex(v) << ",";
  o << " durations=";
  for (double v : h.durs())
    o << vh::hex(v) << ",";
  o << " scaling=";
  for (auto& l : h.image_scaling_factors)
    {
      for (double v : l)
        o << vh::hex(v) << ",";
      o << ";";
    }
  o << " offsets=" << ints(h.data_offset_each_dataset) << " lower=";
  for (float v : h.lower_en_window_thresholds)
    o << vh::hex(v) << ",";
  o << " upper=";
  for (float v : h.upper_en_window_thresholds)
    o << vh::hex(v) << ",";
  return o.str();
}

static std::string
image_sizes_dump(const ImgHdrProbe& h)
{
  std::ostringstream o;
  o << sizes_dump(h) << " types=" << h.num_image_data_types << " nesting=" << strs(h.index_nesting_level) << " descriptions=" << strs(h.image_data_type_description)
    << " first_pixel_offsets=";
  for (double v : h.first_pixel_offsets)
    o << vh::hex(v) << ",";
  return o.str();
}

static std::string
pdfs_sizes_dump(const PdfsHdrProbe& h)
{
  std::ostringstream o;
  o << sizes_dump(h) << " segments=" << h.num_segments << " views=" << h.num_views << " bins=" << h.num_bins << " tof=" << h.num_timing_poss << " min_rd=" << ints(h.min_ring_difference)
    << " max_rd=" << ints(h.max_ring_difference) << " rings_per_segment=" << ints(h.num_rings_per_segment) << " segment_sequence=" << ints(h.segment_sequence)
    << " tof_order=" << ints(h.timing_poss_sequence);
  return o.str();
}

// ------------------------------------------------------------------------------------------------ re-ordering
static std::string
std_key_of(const std::string& line)
{
  std::string k = line.substr(0, std::min(line.find(":="), line.find('[')));
  std::string r;
  bool prev_ws = true;
  for (char c : k)
    {
      if (c == ' ' || c == '\t' || c == '_' || c == '!')
        {
          if (!prev_ws)
            r += ' ';
          prev_ws = true;
        }
      else
        {
          r += static_cast<char>(tolower(static_cast<unsigned char>(c)));
          prev_ws = false;
        }
    }
  while (!r.empty() && r.back() == ' ')
    r.erase(r.size() - 1);
  return r;
}

static bool
is_count_key(const std::string& k)
{
  return k == "number of dimensions" || k == "number of time frames" || k == "number of energy windows" || k == "number of image data types"
         || k == "total number of data sets";
}

// keys whose value goes into a table sized by a count key, or that give sizes themselves
static bool
is_size_giving_key(const std::string& k)
{
  static const char* keys[] = { "matrix size", "matrix axis label", "scaling factor (mm/pixel)", "first pixel offset (mm)", "image duration (sec)",
                                "image relative start time (sec)", "image scaling factor", "data offset in bytes", "energy window lower level",
                                "energy window upper level", "index nesting level", "image data type description", "minimum ring difference per segment",
                                "maximum ring difference per segment", "tof bin order", "data set" };
  if (is_count_key(k))
    return true;
  for (const char* s : keys)
    if (k == s)
      return true;
  return false;
}

// A text with the same lines as `lines` in which size-giving lines (indices lo..hi-1 may move; everything else keeps its place
// relative to the other fixed lines) come in another order.  `how` is returned for the reports.
static std::vector<std::string>
reorder_header(const std::vector<std::string>& lines, vh::Rng& rng, std::string& how)
{
  std::vector<int> movable, counts;
  for (std::size_t k = 1; k + 1 < lines.size(); ++k)
    {
      const std::string key = std_key_of(lines[k]);
      if (is_size_giving_key(key))
        movable.push_back(static_cast<int>(k));
      if (is_count_key(key))
        counts.push_back(static_cast<int>(k));
    }
  std::vector<std::string> out = lines;
  if (movable.size() < 2)
    {
      how = "unchanged";
      return out;
    }
  auto move_line = [&](int from, int to) { // line `from` is taken out and re-inserted so that it ends up at index `to` of the result
    const std::string l = out[from];
    out.erase(out.begin() + from);
    out.insert(out.begin() + std::min<int>(to, static_cast<int>(out.size()) - 1), l);
  };
  const int first = movable.front(), last = movable.back();
  switch (rng.range(0, 7))
    {
    case 0:
    case 1:
      if (!counts.empty())
        { // one count key to the very end of the size-giving lines (after every table line it sizes)
          const int c = counts[rng.range(0, static_cast<int>(counts.size()) - 1)];
          how = "'" + std_key_of(lines[c]) + "' moved behind all size-giving lines";
          move_line(c, last);
          break;
        }
    case 2:
      if (!counts.empty())
        { // one count key to a random place among the size-giving lines
          const int c = counts[rng.range(0, static_cast<int>(counts.size()) - 1)];
          how = "'" + std_key_of(lines[c]) + "' moved";
          move_line(c, rng.range(first, last));
          break;
        }
    case 3:
      { // one table line to a random place
        const int c = movable[rng.range(0, static_cast<int>(movable.size()) - 1)];
        how = "'" + lines[c].substr(0, lines[c].find(":=")) + "' moved";
        move_line(c, rng.range(first, last));
        break;
      }
    case 4:
      if (counts.size() >= 2)
        { // two count keys swapped
          const int a = rng.range(0, static_cast<int>(counts.size()) - 1);
          int b = rng.range(0, static_cast<int>(counts.size()) - 2);
          if (b >= a)
            ++b;
          how = "'" + std_key_of(lines[counts[a]]) + "' and '" + std_key_of(lines[counts[b]]) + "' swapped";
          std::swap(out[counts[a]], out[counts[b]]);
          break;
        }
    case 5:
      { // all count keys behind the table lines
        how = "all count keys moved behind the size-giving lines";
        std::vector<std::string> c, rest;
        for (int k = first; k <= last; ++k)
          (is_count_key(std_key_of(out[k])) ? c : rest).push_back(out[k]);
        for (int k = static_cast<int>(c.size()) - 1; k > 0; --k)
          std::swap(c[k], c[rng.range(0, k)]);
        rest.insert(rest.end(), c.begin(), c.end());
        std::copy(rest.begin(), rest.end(), out.begin() + first);
        break;
      }
    case 6:
      { // the table lines of one key reversed among themselves / moved in front of everything
        how = "all count keys moved in front of the size-giving lines";
        std::vector<std::string> c, rest;
        for (int k = first; k <= last; ++k)
          (is_count_key(std_key_of(out[k])) ? c : rest).push_back(out[k]);
        for (int k = static_cast<int>(c.size()) - 1; k > 0; --k)
          std::swap(c[k], c[rng.range(0, k)]);
        c.insert(c.end(), rest.begin(), rest.end());
        std::copy(c.begin(), c.end(), out.begin() + first);
        break;
      }
    default:
      { // the size-giving lines shuffled among their own positions
        how = "size-giving lines shuffled";
        std::vector<std::string> m;
        for (int k : movable)
          m.push_back(out[k]);
        for (int k = static_cast<int>(m.size()) - 1; k > 0; --k)
          std::swap(m[k], m[rng.range(0, k)]);
        for (std::size_t k = 0; k < movable.size(); ++k)
          out[movable[k]] = m[k];
        break;
      }
    }
  return out;
}

// the directed re-orderings: every count key moved behind all size-giving lines / in front of them, every two count keys swapped
static std::vector<std::pair<std::string, std::vector<std::string>>>
directed_reorders(const std::vector<std::string>& lines)
{
  std::vector<std::pair<std::string, std::vector<std::string>>> out;
  std::vector<int> movable, counts;
  for (std::size_t k = 1; k + 1 < lines.size(); ++k)
    {
      const std::string key = std_key_of(lines[k]);
      if (is_size_giving_key(key))
        movable.push_back(static_cast<int>(k));
      if (is_count_key(key))
        counts.push_back(static_cast<int>(k));
    }
  if (movable.size() < 2)
    return out;
  const int first = movable.front(), last = movable.back();
  for (int c : counts)
    {
      if (c != last)
        {
          std::vector<std::string> l = lines;
          const std::string x = l[c];
          l.erase(l.begin() + c);
          l.insert(l.begin() + last, x);
          out.push_back(std::make_pair("'" + std_key_of(lines[c]) + "' moved behind all size-giving lines", l));
        }
      if (c != first)
        {
          std::vector<std::string> l = lines;
          const std::string x = l[c];
          l.erase(l.begin() + c);
          l.insert(l.begin() + first, x);
          out.push_back(std::make_pair("'" + std_key_of(lines[c]) + "' moved in front of all size-giving lines", l));
        }
    }
  for (std::size_t a = 0; a < counts.size(); ++a)
    for (std::size_t b = a + 1; b < counts.size(); ++b)
      {
        std::vector<std::string> l = lines;
        std::swap(l[counts[a]], l[counts[b]]);
        out.push_back(std::make_pair("'" + std_key_of(lines[counts[a]]) + "' and '" + std_key_of(lines[counts[b]]) + "' swapped", l));
      }
  return out;
}

} // namespace c17
