// Shared helpers for the /verif correspondence harnesses (implementation side of the line protocol).
#pragma once
#include <cstdint>
#include <cstdio>
#include <cstdlib>
#include <string>
#include <vector>
#include <sstream>
#include <fstream>
#include <iostream>

namespace vh {

// splitmix64: every random choice of a harness derives from one state seeded by VERIF_SEED
struct Rng
{
  uint64_t s;
  explicit Rng(uint64_t seed) : s(seed) {}
  uint64_t next()
  {
    uint64_t z = (s += 0x9E3779B97F4A7C15ULL);
    z = (z ^ (z >> 30)) * 0xBF58476D1CE4E5B9ULL;
    z = (z ^ (z >> 27)) * 0x94D049BB133111EBULL;
    return z ^ (z >> 31);
  }
  // uniform in [lo, hi]
  int range(int lo, int hi) { return lo + static_cast<int>(next() % static_cast<uint64_t>(hi - lo + 1)); }
  bool coin() { return next() & 1; }
  double unit() { return (next() >> 11) * (1.0 / 9007199254740992.0); }
};

inline uint64_t seed_from_env(uint64_t salt)
{
  const char* e = std::getenv("VERIF_SEED");
  uint64_t s = e ? std::strtoull(e, nullptr, 10) : 1ULL;
  return s * 0x100000001B3ULL + salt;
}

inline std::vector<std::string> split(const std::string& line)
{
  std::vector<std::string> t;
  std::istringstream is(line);
  std::string w;
  while (is >> w)
    t.push_back(w);
  return t;
}

// exact textual form of a float/double: C99 hex float
inline std::string hex(double x)
{
  char buf[64];
  std::snprintf(buf, sizeof buf, "%a", x);
  return buf;
}

} // namespace vh
