// C08 — implementation side.  "OSSPS sub-iterations follow the preconditioned relaxed update within bounds".
//
// Drives the REAL stir::OSSPSReconstruction<DiscretisedDensity<3,float>> (set_up / reconstruct(target) / update_estimate)
// on small generated problems: vh::make_scanner (8..12 detectors, 2..3 rings), ProjDataInMemory with generated counts,
// PoissonLogLikelihoodWithLinearModelForMeanAndProjData with the ray-tracing matrix (all symmetry switches varied),
// optional additive term, no prior / QuadraticPrior (default weights, 2D weights, custom weights, kappa, beta = 0) /
// a QuadraticPrior whose surrogate curvature is declared (and made) image dependent (recompute branch) /
// a prior that is not a PriorWithParabolicSurrogate (error branch); every legal number of subsets; alpha, gamma,
// upper bound, enforce_initial_positivity, start subset;
// objective function: trivial normalisation / BinNormalisationFromProjData with random factors, non-TOF / TOF data (with and without
// `use time-of-flight sensitivities`), zero_seg0_end_planes, use_subset_sensitivities on / off;
// reconstruction: `precomputed denominator` computed / 1 / read from a file (the one set_up wrote, a user supplied one, missing and
// mismatching ones), randomise_subset_order, inter-iteration filter (interval 1 or 2) and post filter (SeparableConvolutionImageFilter,
// smoothing or sharpening 3-tap kernels in x and y).
//
// Round 4: the objective function restricted to fewer segments / TOF bins than the data have (set_max_segment_num_to_process /
// keyword `maximum absolute segment number to process`, set_max_timing_pos_num_to_process; also changed between the runs of a
// history; ranges larger than the data's are refused); kappa images that are 0 in the voxels no bin of the objective function sees
// (and in some others), prior weights that are all 0 (D exactly 0 before it is made positive, with a prior present); LogcoshPrior
// (the library's other PriorWithParabolicSurrogate) with kappa / user weights: oracle (gradient, curvature, formula, bounds,
// finiteness) + `step` correspondence with its gradient and curvature as data.
//
// What is observed (no private member is touched):
//  * the explicit system matrix P (ProjMatrixByBin::get_proj_matrix_elems_for_one_bin for every bin and TOF bin, from a matrix object
//    of the harness' own with the same switches), the subset of every view/segment (detail::find_basic_vs_nums_in_subset + related
//    view/segments), the data y, additive term a, normalisation factor n and zeroed flag of every bin, for TOF data without TOF
//    sensitivities the rows of the non-TOF matrix, prior weights / kappa / penalisation factor
//                                                          -> `row`, `srow`, `weights`, `kappa`, `cfg` lines (data for the Lean model);
//  * D0 = *precomputed_denominator_ptr after set_up: read back from the file set_up writes
//    (<prefix>_precomputed_denominator.hv), and independently recomputed through the public API;
//  * every call update_estimate makes to GeneralisedObjectiveFunction::compute_sub_gradient and to
//    PriorWithParabolicSurrogate::parabolic_surrogate_curvature (recording subclasses: argument + result);
//  * the image before / after every update_estimate and after every end_of_iteration_processing (recording override), the subset
//    number used, the saved iterates (<prefix>_<k>.hv).
//
// Operations (ops file) and answers (impl file), one line each:
//   cfg …, weights …, kappa …                                 -> ok
//   row <viewgram> <subset> <segment> <TOF bin> <y> <a> <n> <zeroed> <len> (j P_bj)*   -> ok
//         (EVERY bin of the data; the model leaves out the bins outside the segment / TOF range of the cfg line)
//   srow <subset> <segment> <n> <zeroed> <len> (j P_bj)*     -> ok   (non-TOF sensitivity rows)
//   sens0                                                     -> 0/1 per voxel: sensitivity == 0 (non-identifiable)
//   setup <start> <numsubiter> <ep> | image                   -> ok | image after set_up | D0        (or `err`)
//   setupf <start> <numsubiter> <ep> | image | characteristics of the image | of the file or `missing` | file content
//                                                             -> ok | image after set_up | unobserved   (or `err`)
//   d0sync | D0                                               -> ok   (model continues from the implementation's float D0)
//   grad <subset> | x                                         -> penalised sub-gradient at x (what update_estimate obtained)
//   curv | x                                                  -> the prior's parabolic surrogate curvature at x
//   step <k> | before | g | curv or - [| subset (randomised)] -> <subset used> | image after update_estimate
//   endit <k> | image after update_estimate                   -> image after end_of_iteration_processing (only with filters)
//   rerun <start> <numsubiter>                                -> ok   (reconstruct() again WITHOUT set_up)
//   recfg …                                                   -> ok   (the SAME reconstruction object configured anew: like cfg, but the
//                                                                      model's object keeps the stored denominator of the previous run)
//   resetup / resetupf …                                      -> as setup / setupf: set_up(target) on the object that was run before
//   pardefaults                                               -> enforce_initial_positivity, upper bound, alpha, gamma as a parameter file
//                                                                that does not mention them leaves them (the model then uses its defaults)
//   endrun                                                    -> number of update_estimate calls of the run
// Property oracle (<impl>.oracle): bounds (after update_estimate; after bound preserving filters; all tests NaN-aware), every iterate /
// gradient / curvature finite, a voxel with gradient component 0 keeps its (clamped) value (D strictly positive, prior or no prior), D0 >= 0, equal to -H(1) and to the
// sum over the bins of the objective function, gradient equal to its definition with normalisation / TOF / zeroed end planes, ascent
// direction (D > 0), relaxation recovered from the update and compared with alpha/(1+gamma n), n the full-iteration number; randomised
// order: a permutation per full iteration; resume from every saved iterate with a fresh object (recomputed denominator, denominator
// from the saved file): later iterates bitwise equal; saved files equal the in-memory iterates; denominator files that do not match
// the image refused.
//
// Object re-use histories (run_history): ONE reconstruction / objective function / prior object, 2-3 consecutive set_up + reconstruct
// runs with changes in between (data, additive term, normalisation, subsets, relaxation, prior factor / object, start image,
// `precomputed denominator` mode, restart from a saved iterate; continuation of an interrupted run on the same object); every run is
// described to the model in full (recfg + rows), checked by all single-run oracle clauses with D0 of the CURRENT data, and compared
// bitwise with a fresh object configured identically (and, for continuations, with the uninterrupted run).
// Parameter files (Case::par): the objects are made by OSSPSReconstruction::initialise(<file the harness wrote>), the start image
// by get_initial_data_ptr(); one configuration leaves every OSSPS key to the parser's defaults, one writes them all; compared with the
// model and bitwise with the same configuration made through the setters.
//
// Usage: c08_ossps <seed> <quick|thorough> <opsfile> <implfile>
#include "common.h"
#include "stir_fixtures.h"
#include "stir/OSSPS/OSSPSReconstruction.h"
#include "stir/recon_buildblock/PoissonLogLikelihoodWithLinearModelForMeanAndProjData.h"
#include "stir/recon_buildblock/ProjMatrixByBinUsingRayTracing.h"
#include "stir/recon_buildblock/ProjectorByBinPairUsingProjMatrixByBin.h"
#include "stir/recon_buildblock/ProjMatrixElemsForOneBin.h"
#include "stir/recon_buildblock/QuadraticPrior.h"
#include "stir/recon_buildblock/PriorWithParabolicSurrogate.h"
#include "stir/recon_buildblock/RelativeDifferencePrior.h"
#include "stir/recon_buildblock/LogcoshPrior.h"
#include "stir/recon_buildblock/find_basic_vs_nums_in_subsets.h"
#include "stir/DataSymmetriesForViewSegmentNumbers.h"
#include "stir/ProjDataInMemory.h"
#include "stir/ProjDataInterfile.h"
#include "stir/DiscretisedDensity.h"
#include "stir/ExamInfo.h"
#include "stir/Bin.h"
#include "stir/IO/read_from_file.h"
#include "stir/IO/write_to_file.h"
#include "stir/recon_buildblock/BinNormalisationFromProjData.h"
#include "stir/recon_buildblock/TrivialBinNormalisation.h"
#include "stir/SeparableConvolutionImageFilter.h"
#include "stir/DataProcessor.h"
#include <algorithm>
#include <array>
#include <cmath>
#include <cstring>
#include <fstream>
#include <stdexcept>
#include <map>
#include <set>
#include <limits>
#include <sys/stat.h>

using namespace stir;
typedef DiscretisedDensity<3, float> T;
typedef std::vector<float> V;

// ---------------------------------------------------------------------------------------------- recording
struct StepRec
{
  int k = 0, subset = -1;
  V before, after;
  bool have_g = false;
  int g_subset = -1;
  V gx, g;
  bool have_c = false;
  V cx, c;
  int g_calls = 0, c_calls = 0;
};
static StepRec* g_cur = nullptr; // set while inside the real update_estimate

static V
flat(const T& im)
{
  V v;
  for (auto it = im.begin_all_const(); it != im.end_all_const(); ++it)
    v.push_back(*it);
  return v;
}
static void
unflat(T& im, const V& v)
{
  std::size_t i = 0;
  for (auto it = im.begin_all(); it != im.end_all(); ++it)
    *it = v[i++];
}

struct RecObj : public PoissonLogLikelihoodWithLinearModelForMeanAndProjData<T>
{
  // the one switch without public setter (parsing key `use time-of-flight sensitivities`)
  void set_use_tofsens(bool b) { this->use_tofsens = b; }
  void compute_sub_gradient(T& gradient, const T& current_estimate, const int subset_num) override
  {
    PoissonLogLikelihoodWithLinearModelForMeanAndProjData<T>::compute_sub_gradient(gradient, current_estimate, subset_num);
    if (g_cur)
      {
        g_cur->have_g = true;
        g_cur->g_calls++;
        g_cur->g_subset = subset_num;
        g_cur->gx = flat(current_estimate);
        g_cur->g = flat(gradient);
      }
  }
};

// QuadraticPrior, optionally declaring (and making) its surrogate curvature image dependent:
//   curvature_j(x) = quadratic_curvature_j * (1 + x_j^2)        (float arithmetic)
struct RecPrior : public QuadraticPrior<float>
{
  bool dep;
  RecPrior(bool only_2D, float beta, bool dep_v)
      : QuadraticPrior<float>(only_2D, beta),
        dep(dep_v)
  {}
  bool parabolic_surrogate_curvature_depends_on_argument() const override { return dep; }
  void parabolic_surrogate_curvature(DiscretisedDensity<3, float>& c, const DiscretisedDensity<3, float>& x) override
  {
    QuadraticPrior<float>::parabolic_surrogate_curvature(c, x);
    if (dep)
      {
        auto xi = x.begin_all_const();
        for (auto ci = c.begin_all(); ci != c.end_all(); ++ci, ++xi)
          {
            const float t = *xi * *xi;
            const float u = 1.F + t;
            *ci = *ci * u;
          }
      }
    if (g_cur)
      {
        g_cur->have_c = true;
        g_cur->c_calls++;
        g_cur->cx = flat(x);
        g_cur->c = flat(c);
      }
  }
};

// LogcoshPrior (the other PriorWithParabolicSurrogate of the library; declares its curvature independent of the image), recording
struct RecLogcosh : public LogcoshPrior<float>
{
  RecLogcosh(bool only_2D, float beta, float scalar)
      : LogcoshPrior<float>(only_2D, beta, scalar)
  {}
  void parabolic_surrogate_curvature(DiscretisedDensity<3, float>& c, const DiscretisedDensity<3, float>& x) override
  {
    LogcoshPrior<float>::parabolic_surrogate_curvature(c, x);
    if (g_cur)
      {
        g_cur->have_c = true;
        g_cur->c_calls++;
        g_cur->cx = flat(x);
        g_cur->c = flat(c);
      }
  }
};

struct Probe : public OSSPSReconstruction<T>
{
  std::vector<StepRec> steps;
  std::string defaults_line() const
  {
    return std::to_string(this->enforce_initial_positivity) + " " + vh::hex(static_cast<float>(this->upper_bound)) + " "
           + vh::hex(this->relaxation_parameter) + " " + vh::hex(this->relaxation_gamma) + " " + std::to_string(this->num_subsets) + " "
           + std::to_string(this->start_subset_num) + " " + std::to_string(this->num_subiterations) + " "
           + std::to_string(this->start_subiteration_num) + " " + (this->precomputed_denominator_filename == "" ? "computed" : "given");
  }
  int default_ep() const { return this->enforce_initial_positivity; }
  void use_denominator_of_ones() { this->precomputed_denominator_filename = "1"; }
  void use_denominator_file(const std::string& f) { this->precomputed_denominator_filename = f; }
  void use_denominator_computed() { this->precomputed_denominator_filename = ""; }
  // the users' path: set_defaults() + parse(parameter file), as OSSPSReconstruction(parameter_filename) does
  void init_from_par(const std::string& f) { this->initialise(f); }
  // what the no-argument reconstruct() starts from (`initial estimate`)
  shared_ptr<T> initial() const { return shared_ptr<T>(this->get_initial_data_ptr()); }
  std::string parsed_line() const
  {
    return std::to_string(this->enforce_initial_positivity) + " " + vh::hex(static_cast<float>(this->upper_bound)) + " "
           + vh::hex(this->relaxation_parameter) + " " + vh::hex(this->relaxation_gamma);
  }
  bool no_filters() const
  {
    return is_null_ptr(this->inter_iteration_filter_ptr) && this->inter_iteration_filter_interval == 0 && is_null_ptr(this->post_filter_sptr);
  }
  int parsed_write_update() const { return this->write_update_image; }
  void set_write_update(int w) { this->write_update_image = w; }
  // image after end_of_iteration_processing (inter-iteration / post filter applied) of every sub-iteration
  std::vector<V> finals;
  void end_of_iteration_processing(T& cur) override
  {
    OSSPSReconstruction<T>::end_of_iteration_processing(cur);
    finals.push_back(flat(cur));
  }
  void configure(float alpha, float gamma, double ub, int ep)
  {
    this->relaxation_parameter = alpha;
    this->relaxation_gamma = gamma;
    this->upper_bound = ub;
    this->enforce_initial_positivity = ep;
  }
  void update_estimate(T& cur) override
  {
    StepRec r;
    r.k = this->subiteration_num;
    // with a randomised order get_subset_num() draws a new permutation at the start of a full iteration: do not disturb it,
    // the subset is the one compute_sub_gradient is called with
    r.subset = this->randomise_subset_order ? -1 : this->get_subset_num();
    r.before = flat(cur);
    g_cur = &r;
    try
      {
        OSSPSReconstruction<T>::update_estimate(cur);
      }
    catch (...)
      {
        g_cur = nullptr;
        throw;
      }
    g_cur = nullptr;
    r.after = flat(cur);
    if (this->randomise_subset_order && r.have_g)
      r.subset = r.g_subset;
    if (!r.have_g && r.subset < 0)
      r.subset = 0;
    if (!r.have_g)
      {
        // update_estimate did not go through the (recorded) virtual calls — e.g. after a refactoring.  Ask the objective
        // function through its public API instead, at the image the property prescribes.
        shared_ptr<T> x(cur.get_empty_copy());
        unflat(*x, r.before);
        this->objective_function_sptr->fill_nonidentifiable_target_parameters(*x, 0);
        shared_ptr<T> g(cur.get_empty_copy());
        this->objective_function_sptr->compute_sub_gradient(*g, *x, r.subset);
        r.have_g = true;
        r.g_calls = 1;
        r.g_subset = r.subset;
        r.gx = flat(*x);
        r.g = flat(*g);
        PriorWithParabolicSurrogate<T>* pr
            = dynamic_cast<PriorWithParabolicSurrogate<T>*>(this->objective_function_sptr->get_prior_ptr());
        if (!r.have_c && pr && !this->objective_function_sptr->prior_is_zero()
            && (r.k == this->get_start_subiteration_num() || pr->parabolic_surrogate_curvature_depends_on_argument()))
          {
            shared_ptr<T> cimg(cur.get_empty_copy());
            pr->parabolic_surrogate_curvature(*cimg, *x);
            r.have_c = true;
            r.c_calls = 1;
            r.cx = r.gx;
            r.c = flat(*cimg);
          }
      }
    steps.push_back(r);
  }
};

// ---------------------------------------------------------------------------------------------- output helpers
static FILE *ops, *out, *orc;
static long oracle_checks = 0, oracle_fails = 0;
static std::set<std::string> known_emitted;
static std::string g_ctx;

static std::string
hv(const V& v)
{
  std::string s;
  for (std::size_t i = 0; i < v.size(); ++i)
    {
      if (i)
        s += ' ';
      s += vh::hex(v[i]);
    }
  return s;
}
static void
op(const std::string& o, const std::string& a)
{
  std::fprintf(ops, "%s\n", o.c_str());
  std::fprintf(out, "%s\n", a.c_str());
}
static void
ofail(const std::string& text)
{
  ++oracle_fails;
  if (oracle_fails <= 40)
    std::fprintf(orc, "ORACLE-FAIL %s [%s]\n", text.c_str(), g_ctx.c_str());
}
static void
known(const std::string& key, const std::string& text)
{
  if (known_emitted.insert(key).second)
    std::fprintf(orc, "KNOWN-CANDIDATE %s %s [first seen: %s]\n", key.c_str(), text.c_str(), g_ctx.c_str());
}
static bool
same_bits(const V& a, const V& b)
{
  return a.size() == b.size() && (a.empty() || std::memcmp(a.data(), b.data(), a.size() * sizeof(float)) == 0);
}

// ---------------------------------------------------------------------------------------------- a problem
struct Case
{
  int id = 0;
  int ndet = 8, nrings = 2, maxdelta = 1, ntang = 3, nxy = 5;
  float voxel = 40.F; // transaxial voxel size in mm (multiple of 0.25)
  bool restrict_fov = true;
  bool sym90 = true, sym180 = true, symswapseg = true, symswaps = true, symz = true;
  int nsub = 1, start_subset = 0, nsubiter = 3;
  float alpha = 1.F, gamma = 0.1F;
  double ub = std::numeric_limits<float>::max();
  int ep = 0;
  int prior = 0; // 0 none, 1 quadratic, 2 quadratic declared+made image dependent, 3 not parabolic (error), 4 log-cosh
  float beta = 0.F;
  float lc_scalar = 1.F; // `scalar` of the log-cosh prior
  bool kappa = false, additive = false;
  // kappa image: 0 positive everywhere; 1 zero in the voxels no bin of the objective function sees (what real kappa images look
  // like outside the FOV); 2 additionally zero in some voxels that are seen
  int kappa_kind = 0;
  // `maximum absolute segment number to process` / max_timing_pos_num_to_process (-1: all segments / TOF bins of the data)
  int maxseg = -1, maxtof = -1;
  bool denom_ones = false; // `precomputed denominator := 1`
  int weights_kind = 0; // 0 default 3D, 1 default 2D (only_2D), 2 custom random 3x3x3, 3 custom 1x3x3, 4 custom 3x3x3 all zero
  // --- objective function configuration
  bool norm = false;        // BinNormalisationFromProjData with random factors (non-TOF normalisation data)
  int tofbins = 0;          // 0: non-TOF scanner; otherwise max number of TOF bins of the scanner
  int tofmash = 1;
  bool tofsens = false;     // `use time-of-flight sensitivities`
  bool zero_ends = false;   // zero_seg0_end_planes
  bool subset_sens = true;  // use_subset_sensitivities
  // --- reconstruction configuration
  bool randomise = false;   // randomise_subset_order
  int filt = 0;             // inter-iteration filter: 0 none, 1 smoothing {1/4,1/2,1/4} in x and y, 2 sharpening {-1/8,5/4,-1/8} in x and y
  int filt_interval = 0;    // inter-iteration filter subiteration interval
  int postfilt = 0;         // post filter, same kinds
  // --- how the objects are made: 0 setters; 1 parameter file with every key written; 2 parameter file that leaves the OSSPS keys
  //     (relaxation parameter, relaxation gamma, upper bound, enforce initial positivity condition, write update image, filters,
  //     start at subset) to the parser's defaults
  int par = 0;
  bool write_update = false; // `write update image := 1`
  uint64_t data_seed = 1;
  std::string prefix;
};

struct Built
{
  shared_ptr<Scanner> scanner;
  shared_ptr<ProjDataInfo> pdi;
  shared_ptr<VoxelsOnCartesianGrid<float>> img;
  shared_ptr<ExamInfo> ei;
  shared_ptr<ProjDataInMemory> y, a, normdata;
  shared_ptr<T> kappa;
  Array<3, float> weights;
  V init;
  mutable std::string file_prefix; // data written to disk (parameter-file runs)
};

// the segment / TOF range of the objective function
static int
eff_maxseg(const Case& c, const ProjDataInfo& pdi)
{
  return c.maxseg < 0 ? pdi.get_max_segment_num() : c.maxseg;
}
static int
eff_maxtof(const Case& c, const ProjDataInfo& pdi)
{
  return c.maxtof < 0 ? pdi.get_max_tof_pos_num() : c.maxtof;
}
static bool
processed(const Case& c, const ProjDataInfo& pdi, int seg, int tof)
{
  return std::abs(seg) <= eff_maxseg(c, pdi) && std::abs(tof) <= eff_maxtof(c, pdi);
}

// which voxels are seen by at least one bin of the objective function (segment / TOF range to process, not in a zeroed end plane),
// from a matrix object of the harness' own with the case's switches
static std::vector<char>
seen_voxels(const Case& c, const Built& b)
{
  ProjMatrixByBinUsingRayTracing pm;
  pm.set_restrict_to_cylindrical_FOV(c.restrict_fov);
  pm.set_do_symmetry_90degrees_min_phi(c.sym90);
  pm.set_do_symmetry_180degrees_min_phi(c.sym180);
  pm.set_do_symmetry_swap_segment(c.symswapseg);
  pm.set_do_symmetry_swap_s(c.symswaps);
  pm.set_do_symmetry_shift_z(c.symz);
  pm.set_up(b.pdi, b.img);
  const int minz = b.img->get_min_index();
  const int maxz = b.img->get_max_index();
  const int miny = (*b.img)[minz].get_min_index();
  const int minx = (*b.img)[minz][miny].get_min_index();
  std::vector<char> seen(static_cast<std::size_t>(maxz - minz + 1) * c.nxy * c.nxy, 0);
  for (int s = b.pdi->get_min_segment_num(); s <= b.pdi->get_max_segment_num(); ++s)
    for (int tof = b.pdi->get_min_tof_pos_num(); tof <= b.pdi->get_max_tof_pos_num(); ++tof)
      {
        if (!processed(c, *b.pdi, s, tof))
          continue;
        for (int v = b.pdi->get_min_view_num(); v <= b.pdi->get_max_view_num(); ++v)
          for (int ax = b.pdi->get_min_axial_pos_num(s); ax <= b.pdi->get_max_axial_pos_num(s); ++ax)
            {
              if (c.zero_ends && s == 0 && (ax == b.pdi->get_min_axial_pos_num(0) || ax == b.pdi->get_max_axial_pos_num(0)))
                continue;
              for (int tp = b.pdi->get_min_tangential_pos_num(); tp <= b.pdi->get_max_tangential_pos_num(); ++tp)
                {
                  ProjMatrixElemsForOneBin row;
                  pm.get_proj_matrix_elems_for_one_bin(row, Bin(s, v, ax, tp, tof));
                  for (auto el = row.begin(); el != row.end(); ++el)
                    if (el->coord1() >= minz && el->coord1() <= maxz && el->get_value() != 0.F)
                      seen[((el->coord1() - minz) * c.nxy + (el->coord2() - miny)) * c.nxy + (el->coord3() - minx)] = 1;
                }
            }
      }
  return seen;
}

static long n_kappa_zero_unseen = 0;

// the kappa image of a case: positive multiples of 1/8; kappa_kind >= 1: exactly 0 where the objective function sees nothing
// (so that data curvature AND penalty curvature vanish there: D = 0 before it is made positive), kind 2: and in some other voxels
static void
make_kappa(const Case& c, Built& b, vh::Rng& rng)
{
  b.kappa.reset(b.img->get_empty_copy());
  for (auto it = b.kappa->begin_all(); it != b.kappa->end_all(); ++it)
    *it = static_cast<float>(rng.range(2, 24)) / 8.F;
  if (c.kappa_kind >= 1)
    {
      const std::vector<char> seen = seen_voxels(c, b);
      std::size_t j = 0;
      for (auto it = b.kappa->begin_all(); it != b.kappa->end_all(); ++it, ++j)
        {
          if (!seen[j])
            {
              *it = 0.F;
              ++n_kappa_zero_unseen;
            }
          else if (c.kappa_kind == 2 && rng.range(0, 7) == 0)
            *it = 0.F;
        }
    }
}

// user supplied prior weights (weights_kind >= 2), symmetric (w(d) = w(-d)): the property is about a penalty Phi whose gradient
// this is; kind 4: all zero (a prior object that is present, has a non-zero factor and penalises nothing)
static void
make_weights(const Case& c, Built& b, vh::Rng& rng)
{
  const int mz = c.weights_kind == 3 ? 0 : -1;
  b.weights = Array<3, float>(IndexRange3D(mz, -mz, -1, 1, -1, 1));
  for (int dz = mz; dz <= -mz; ++dz)
    for (int dy = -1; dy <= 1; ++dy)
      for (int dx = -1; dx <= 1; ++dx)
        b.weights[dz][dy][dx] = (dz == 0 && dy == 0 && dx == 0) ? 0.F : static_cast<float>(rng.range(0, 8)) / 8.F;
  for (int dz = mz; dz <= -mz; ++dz)
    for (int dy = -1; dy <= 1; ++dy)
      for (int dx = -1; dx <= 1; ++dx)
        b.weights[-dz][-dy][-dx] = b.weights[dz][dy][dx];
  if (c.weights_kind == 4)
    b.weights.fill(0.F);
}

static void
build_data(const Case& c, Built& b)
{
  b.scanner = vh::make_scanner(c.ndet, c.nrings, c.tofbins > 0 ? c.tofbins : -1);
  b.pdi = vh::make_pdi(b.scanner, 1, c.maxdelta, c.ndet / 2, c.ntang, false, c.tofbins > 0 ? c.tofmash : 0);
  // image grid as VoxelsOnCartesianGrid(proj_data_info, zoom, ...) lays it out (z: one plane per ring and per gap, x/y centred),
  // but with a transaxial voxel size that is a multiple of 0.25 mm: the Interfile header written with the saved iterates
  // keeps 6 significant digits, so only such grids are reproduced exactly by the resumed run's set_up.
  {
    const int nz = 2 * c.nrings - 1;
    const int mn = -(c.nxy / 2);
    b.img.reset(new VoxelsOnCartesianGrid<float>(IndexRange3D(0, nz - 1, mn, mn + c.nxy - 1, mn, mn + c.nxy - 1),
                                                 CartesianCoordinate3D<float>(0.F, 0.F, 0.F),
                                                 CartesianCoordinate3D<float>(b.scanner->get_ring_spacing() / 2, c.voxel, c.voxel)));
  }
  b.ei.reset(new ExamInfo);
  b.ei->imaging_modality = ImagingModality::PT;
  b.img->set_exam_info(*b.ei);
  vh::Rng rng(c.data_seed);
  b.y.reset(new ProjDataInMemory(b.ei, b.pdi));
  if (c.additive)
    b.a.reset(new ProjDataInMemory(b.ei, b.pdi));
  const int scale_kind = rng.range(0, 2);
  for (int s = b.pdi->get_min_segment_num(); s <= b.pdi->get_max_segment_num(); ++s)
   for (int tof = b.pdi->get_min_tof_pos_num(); tof <= b.pdi->get_max_tof_pos_num(); ++tof)
    for (int v = b.pdi->get_min_view_num(); v <= b.pdi->get_max_view_num(); ++v)
      {
        Viewgram<float> vg = b.y->get_empty_viewgram(v, s, false, tof);
        for (auto it = vg.begin_all(); it != vg.end_all(); ++it)
          {
            const int r = rng.range(0, 11);
            float val = r <= 2 ? 0.F : static_cast<float>(r - 2);
            if (scale_kind == 1)
              val *= 0.25F;
            else if (scale_kind == 2)
              val *= 3.F;
            *it = val;
          }
        b.y->set_viewgram(vg);
        if (c.additive)
          {
            Viewgram<float> va = b.a->get_empty_viewgram(v, s, false, tof);
            for (auto it = va.begin_all(); it != va.end_all(); ++it)
              *it = static_cast<float>(rng.range(1, 40)) / 16.F;
            b.a->set_viewgram(va);
          }
      }
  if (c.norm)
    {
      // normalisation factors in [0.5, 2.5] (multiples of 1/8), independent of the TOF bin: non-TOF normalisation data serve TOF
      // emission data and the non-TOF sensitivity alike
      shared_ptr<ProjDataInfo> npdi = b.pdi->create_non_tof_clone();
      b.normdata.reset(new ProjDataInMemory(b.ei, npdi));
      for (int s = npdi->get_min_segment_num(); s <= npdi->get_max_segment_num(); ++s)
        for (int v = npdi->get_min_view_num(); v <= npdi->get_max_view_num(); ++v)
          {
            Viewgram<float> vn = b.normdata->get_empty_viewgram(v, s);
            for (auto it = vn.begin_all(); it != vn.end_all(); ++it)
              *it = static_cast<float>(rng.range(4, 20)) / 8.F;
            b.normdata->set_viewgram(vn);
          }
    }
  // start image: mostly in (0,2], some exact zeros, rarely a negative value
  shared_ptr<T> t(b.img->get_empty_copy());
  for (auto it = t->begin_all(); it != t->end_all(); ++it)
    {
      const int r = rng.range(0, 19);
      if (r == 0)
        *it = 0.F;
      else if (r == 1 && c.ep)
        *it = -0.25F;
      else
        *it = static_cast<float>(rng.range(1, 64)) / 32.F;
    }
  b.init = flat(*t);
  if (c.kappa)
    make_kappa(c, b, rng);
  if (c.weights_kind >= 2)
    make_weights(c, b, rng);
}


// ---------------------------------------------------------------------------------------------- the property's definitions
// Evaluated directly (double precision) from the explicit system matrix, the data and the prior's parameters:
//   grad_S Phi(x)_j = sum_{b in S} P_bj ( y_b / (P x + a)_b - 1/n_b ) - (beta / N) sum_d w_d kappa_j kappa_{j+d} (x_j - x_{j+d})
//   (-H 1)_j        = sum_b P_bj (P 1)_b / (n_b^2 y_b)
//   curvature_j     = beta sum_d w_d kappa_j kappa_{j+d}
// (mean of bin b: ((P x)_b + a_b) / n_b, n_b the normalisation factor; b runs over all TOF bins; with zero_seg0_end_planes the
// bins of the first and last axial position of segment 0 are not part of the objective function)
// with the library's quotient conventions (numerator <= 1e-6 * max of its viewgram -> 0; quotient capped at 10000).
struct RowD
{
  int vg, subset;
  double y, a;
  double n = 1.;       // normalisation factor
  bool zeroed = false; // end plane of segment 0 with zero_seg0_end_planes
  std::vector<std::pair<int, double>> el;
};
struct Defs
{
  std::vector<RowD> rows;
  int nvg = 0, nsub = 1, nz = 0, ny = 0, nx = 0;
  bool have_prior = false, dep = false;
  bool logcosh = false; // log-cosh prior: psi(d) = log cosh(s d) / s^2, psi'(d) = tanh(s d) / s, surrogate curvature psi'(d) / d
  double lc_scalar = 1;
  double beta = 0;
  int wminz = 0, wmaxz = -1, wminy = 0, wmaxy = -1, wminx = 0, wmaxx = -1;
  std::vector<double> w, kappa;

  static double quotient(double small, double num, double den)
  {
    if (num <= small)
      return 0;
    if (num > 10000. * den)
      return 10000.;
    return num / den;
  }
  // value and sum of |terms| of the penalised sub-gradient
  void grad(int subset, const V& x, std::vector<double>& g, std::vector<double>& mag) const
  {
    const std::size_t n = x.size();
    g.assign(n, 0.);
    mag.assign(n, 0.);
    std::vector<double> ymax(nvg, 0.);
    for (auto& r : rows)
      if (!r.zeroed)
        ymax[r.vg] = std::max(ymax[r.vg], r.y);
    for (auto& r : rows)
      {
        if (r.subset != subset || r.zeroed)
          continue;
        double den = r.a, mden = std::fabs(r.a);
        for (auto& e : r.el)
          {
            den += e.second * x[e.first];
            mden += std::fabs(e.second * x[e.first]);
          }
        const double q = quotient(std::max(ymax[r.vg] * 1e-6, 0.), r.y, den);
        const double amp = den != 0 ? mden / std::fabs(den) : 1.;
        for (auto& e : r.el)
          {
            g[e.first] += e.second * (q - 1. / r.n);
            mag[e.first] += e.second * (q * amp + 1. / r.n);
          }
      }
    if (have_prior && beta != 0)
      for (int z = 0; z < nz; ++z)
        for (int y = 0; y < ny; ++y)
          for (int xx = 0; xx < nx; ++xx)
            {
              const int j = (z * ny + y) * nx + xx;
              double pg = 0, pm = 0;
              for (int dz = std::max(wminz, -z); dz <= std::min(wmaxz, nz - 1 - z); ++dz)
                for (int dy = std::max(wminy, -y); dy <= std::min(wmaxy, ny - 1 - y); ++dy)
                  for (int dx = std::max(wminx, -xx); dx <= std::min(wmaxx, nx - 1 - xx); ++dx)
                    {
                      const int k = ((z + dz) * ny + (y + dy)) * nx + (xx + dx);
                      const double ww = w[((dz - wminz) * (wmaxy - wminy + 1) + (dy - wminy)) * (wmaxx - wminx + 1) + (dx - wminx)];
                      const double kk = kappa.empty() ? 1. : kappa[j] * kappa[k];
                      const double diff = static_cast<double>(x[j]) - x[k];
                      pg += ww * kk * (logcosh ? std::tanh(lc_scalar * diff) / lc_scalar : diff);
                      pm += std::fabs(ww * kk) * (std::fabs(x[j]) + std::fabs(x[k]));
                    }
              g[j] -= beta * pg / nsub;
              mag[j] += std::fabs(beta) * pm / nsub;
            }
  }
  // include_zeroed: as the library computes it (the Hessian functions read the viewgrams directly)
  void d0(std::size_t n, std::vector<double>& d, bool include_zeroed = false) const
  {
    d.assign(n, 0.);
    std::vector<double> fmax(nvg, 0.), f1(rows.size(), 0.);
    for (std::size_t i = 0; i < rows.size(); ++i)
      {
        for (auto& e : rows[i].el)
          f1[i] += e.second;
        fmax[rows[i].vg] = std::max(fmax[rows[i].vg], f1[i]);
      }
    for (std::size_t i = 0; i < rows.size(); ++i)
      {
        if (rows[i].subset < 0 || rows[i].subset >= nsub)
          continue;
        if (rows[i].zeroed && !include_zeroed)
          continue;
        const double q = quotient(std::max(fmax[rows[i].vg] * 1e-6, 0.), f1[i], rows[i].y * rows[i].n * rows[i].n);
        for (auto& e : rows[i].el)
          d[e.first] += e.second * q;
      }
  }
  void curv(const V& x, std::vector<double>& c) const
  {
    c.assign(x.size(), 0.);
    if (!have_prior || beta == 0)
      return;
    for (int z = 0; z < nz; ++z)
      for (int y = 0; y < ny; ++y)
        for (int xx = 0; xx < nx; ++xx)
          {
            const int j = (z * ny + y) * nx + xx;
            double s = 0;
            for (int dz = std::max(wminz, -z); dz <= std::min(wmaxz, nz - 1 - z); ++dz)
              for (int dy = std::max(wminy, -y); dy <= std::min(wmaxy, ny - 1 - y); ++dy)
                for (int dx = std::max(wminx, -xx); dx <= std::min(wmaxx, nx - 1 - xx); ++dx)
                  {
                    const int k = ((z + dz) * ny + (y + dy)) * nx + (xx + dx);
                    const double ww = w[((dz - wminz) * (wmaxy - wminy + 1) + (dy - wminy)) * (wmaxx - wminx + 1) + (dx - wminx)];
                    double sur = 1.;
                    if (logcosh)
                      {
                        // psi'(d)/d = tanh(s d)/(s d), -> 1 for d -> 0 (the library switches to 1 - (s d)^2/3 below |s d| = 0.01)
                        const double xd = (static_cast<double>(x[j]) - x[k]) * lc_scalar;
                        sur = std::fabs(xd) < 1e-4 ? 1. - xd * xd / 3. : std::tanh(xd) / xd;
                      }
                    s += ww * sur * (kappa.empty() ? 1. : kappa[j] * kappa[k]);
                  }
            c[j] = beta * s * (dep ? 1. + static_cast<double>(x[j]) * x[j] : 1.);
          }
  }
};

struct Engine
{
  shared_ptr<ProjMatrixByBinUsingRayTracing> pm;
  shared_ptr<ProjectorByBinPair> pp;
  shared_ptr<RecObj> obj;
  shared_ptr<RecPrior> qprior;
  shared_ptr<RecLogcosh> lprior;
  shared_ptr<Probe> rec;
  // the objective function / quadratic prior actually in use (the recording subclasses above, or what the parser made)
  PoissonLogLikelihoodWithLinearModelForMeanAndProjData<T>* pl = nullptr;
  QuadraticPrior<float>* qp = nullptr;
};

// the filter kinds of Case::filt / Case::postfilt: a real SeparableConvolutionImageFilter, 3 taps in y and in x, none in z
static void
filter_taps(int kind, float& side, float& centre)
{
  side = kind == 1 ? 0.25F : -0.125F;
  centre = kind == 1 ? 0.5F : 1.25F;
}
static shared_ptr<DataProcessor<T>>
make_filter(int kind)
{
  if (kind == 0)
    return shared_ptr<DataProcessor<T>>();
  float side, centre;
  filter_taps(kind, side, centre);
  VectorWithOffset<VectorWithOffset<float>> k(3);
  k[0] = VectorWithOffset<float>(0, 0);
  k[0][0] = 1.F;
  for (int d = 1; d <= 2; ++d)
    {
      k[d] = VectorWithOffset<float>(-1, 1);
      k[d][-1] = side;
      k[d][0] = centre;
      k[d][1] = side;
    }
  return shared_ptr<DataProcessor<T>>(new SeparableConvolutionImageFilter<float>(k));
}

// ---------------------------------------------------------------------------------------------- parameter files
static std::string
fmt_float(float x)
{
  char buf[64];
  std::snprintf(buf, sizeof buf, "%.9g", static_cast<double>(x));
  return buf;
}
static std::string
fmt_double(double x)
{
  char buf[64];
  std::snprintf(buf, sizeof buf, "%.17g", x);
  return buf;
}
static int g_file_counter = 0;
static std::string g_dir;

static void
write_projdata(const ProjDataInMemory& pd, const std::string& name)
{
  ProjDataInterfile out(pd.get_exam_info_sptr(), pd.get_proj_data_info_sptr(), name);
  out.fill(pd);
}

// writes <prefix>.par: the file a user would write for this configuration.  `initfile`: `initial estimate`, `dfile`:
// `precomputed denominator` ("" = not mentioned, "1" = ones)
static std::string
write_par(const Case& c, const Built& b, int start, int ep, const std::string& prefix, const std::string& dfile, const std::string& initfile)
{
  if (b.file_prefix.empty())
    b.file_prefix = g_dir + "/data" + std::to_string(g_file_counter++);
  // (the data of a Built may be replaced in the course of a history: always write what is current)
  const std::string dp = b.file_prefix + "_" + std::to_string(g_file_counter++);
  write_projdata(*b.y, dp + "_y.hs");
  if (c.additive)
    write_projdata(*b.a, dp + "_a.hs");
  if (c.norm)
    write_projdata(*b.normdata, dp + "_n.hs");
  if (c.prior == 1 && c.kappa)
    write_to_file(dp + "_kappa", *b.kappa);
  const std::string fname = prefix + ".par";
  std::ofstream f(fname.c_str());
  f << "OSSPSParameters :=\n"
    << "objective function type := PoissonLogLikelihoodWithLinearModelForMeanAndProjData\n"
    << "PoissonLogLikelihoodWithLinearModelForMeanAndProjData Parameters :=\n"
    << "  input file := " << dp << "_y.hs\n"
    << "  zero end planes of segment 0 := " << (c.zero_ends ? 1 : 0) << "\n";
  if (c.maxseg != -1 || c.par == 1)
    f << "  maximum absolute segment number to process := " << c.maxseg << "\n";
  f
    << "  projector pair type := Matrix\n"
    << "    Projector Pair Using Matrix Parameters :=\n"
    << "      Matrix type := Ray Tracing\n"
    << "        Ray Tracing Matrix Parameters :=\n"
    << "          restrict to cylindrical FOV := " << (c.restrict_fov ? 1 : 0) << "\n"
    << "          do_symmetry_90degrees_min_phi := " << (c.sym90 ? 1 : 0) << "\n"
    << "          do_symmetry_180degrees_min_phi := " << (c.sym180 ? 1 : 0) << "\n"
    << "          do_symmetry_swap_segment := " << (c.symswapseg ? 1 : 0) << "\n"
    << "          do_symmetry_swap_s := " << (c.symswaps ? 1 : 0) << "\n"
    << "          do_symmetry_shift_z := " << (c.symz ? 1 : 0) << "\n"
    << "        End Ray Tracing Matrix Parameters :=\n"
    << "    End Projector Pair Using Matrix Parameters :=\n";
  if (c.additive)
    f << "  additive sinogram := " << dp << "_a.hs\n";
  if (c.norm)
    f << "  Bin Normalisation type := From ProjData\n"
      << "    Bin Normalisation From ProjData :=\n"
      << "      normalisation_projdata_filename := " << dp << "_n.hs\n"
      << "    End Bin Normalisation From ProjData :=\n";
  if (c.prior == 1)
    {
      f << "  prior type := Quadratic\n"
        << "    Quadratic Prior Parameters :=\n"
        << "      penalisation factor := " << fmt_float(c.beta) << "\n"
        << "      only 2D := " << (c.weights_kind == 1 ? 1 : 0) << "\n";
      if (c.kappa)
        f << "      kappa filename := " << dp << "_kappa.hv\n";
      f << "    END Quadratic Prior Parameters :=\n";
    }
  f << "  use_subset_sensitivities := " << (c.subset_sens ? 1 : 0) << "\n"
    << "End PoissonLogLikelihoodWithLinearModelForMeanAndProjData Parameters :=\n"
    << "initial estimate := " << initfile << "\n"
    << "output filename prefix := " << prefix << "\n"
    << "number of subsets := " << c.nsub << "\n"
    << "number of subiterations := " << c.nsubiter << "\n"
    << "save estimates at subiteration intervals := 1\n";
  if (start != 1 || c.par == 1)
    f << "start at subiteration number := " << start << "\n";
  if (c.par == 1)
    f << "start at subset := " << c.start_subset << "\n"
      << "relaxation parameter := " << fmt_float(c.alpha) << "\n"
      << "relaxation gamma := " << fmt_float(c.gamma) << "\n"
      << "upper bound := " << fmt_double(c.ub) << "\n"
      << "write update image := " << (c.write_update ? 1 : 0) << "\n";
  if (c.par == 1 || ep != 0)
    f << "enforce initial positivity condition := " << ep << "\n";
  if (c.denom_ones)
    f << "precomputed denominator := 1\n";
  else if (!dfile.empty())
    f << "precomputed denominator := " << dfile << "\n";
  f << "END :=\n";
  return fname;
}

// `dfile`: `precomputed denominator := <file>`; `initfile`: `initial estimate` (parameter-file mode only: an image file)
static Engine
make_engine(const Case& c, const Built& b, int start_subiter, int ep, const std::string& prefix, const std::string& dfile = "",
            const std::string& initfile = "")
{
  Engine e;
  if (c.par)
    {
      const std::string par = write_par(c, b, start_subiter, ep, prefix, dfile, initfile);
      e.rec.reset(new Probe);
      e.rec->init_from_par(par); // error() throws on a file that does not parse
      e.pl = dynamic_cast<PoissonLogLikelihoodWithLinearModelForMeanAndProjData<T>*>(e.rec->get_objective_function_sptr().get());
      if (!e.pl)
        throw std::runtime_error("parameter file did not produce the objective function");
      e.qp = dynamic_cast<QuadraticPrior<float>*>(e.pl->get_prior_ptr());
      return e;
    }
  e.pm.reset(new ProjMatrixByBinUsingRayTracing());
  e.pm->set_restrict_to_cylindrical_FOV(c.restrict_fov);
  e.pm->set_do_symmetry_90degrees_min_phi(c.sym90);
  e.pm->set_do_symmetry_180degrees_min_phi(c.sym180);
  e.pm->set_do_symmetry_swap_segment(c.symswapseg);
  e.pm->set_do_symmetry_swap_s(c.symswaps);
  e.pm->set_do_symmetry_shift_z(c.symz);
  e.pp.reset(new ProjectorByBinPairUsingProjMatrixByBin(e.pm));
  e.obj.reset(new RecObj);
  e.pl = e.obj.get();
  e.obj->set_proj_data_sptr(b.y);
  e.obj->set_projector_pair_sptr(e.pp);
  e.obj->set_use_subset_sensitivities(c.subset_sens);
  if (c.additive)
    e.obj->set_additive_proj_data_sptr(b.a);
  if (c.norm)
    e.obj->set_normalisation_sptr(shared_ptr<BinNormalisation>(new BinNormalisationFromProjData(b.normdata)));
  e.obj->set_zero_seg0_end_planes(c.zero_ends);
  e.obj->set_use_tofsens(c.tofsens);
  if (c.maxseg != -1)
    e.obj->set_max_segment_num_to_process(c.maxseg);
  if (c.maxtof != -1)
    e.obj->set_max_timing_pos_num_to_process(c.maxtof);
  if (c.prior == 4)
    {
      e.lprior.reset(new RecLogcosh(c.weights_kind == 1, c.beta, c.lc_scalar));
      if (c.kappa)
        e.lprior->set_kappa_sptr(b.kappa);
      if (c.weights_kind >= 2)
        e.lprior->set_weights(b.weights);
      e.obj->set_prior_sptr(e.lprior);
    }
  if (c.prior == 1 || c.prior == 2)
    {
      e.qprior.reset(new RecPrior(c.weights_kind == 1, c.beta, c.prior == 2));
      e.qp = e.qprior.get();
      if (c.kappa)
        e.qprior->set_kappa_sptr(b.kappa);
      if (c.weights_kind >= 2)
        e.qprior->set_weights(b.weights);
      e.obj->set_prior_sptr(e.qprior);
    }
  else if (c.prior == 3)
    {
      shared_ptr<GeneralisedPrior<T>> p(new RelativeDifferencePrior<float>(false, c.beta, 2.F, 0.1F));
      e.obj->set_prior_sptr(p);
    }
  e.rec.reset(new Probe);
  e.rec->configure(c.alpha, c.gamma, c.ub, ep);
  if (c.denom_ones)
    e.rec->use_denominator_of_ones();
  else if (!dfile.empty())
    e.rec->use_denominator_file(dfile);
  e.rec->set_write_update(c.write_update ? 1 : 0);
  e.rec->set_objective_function_sptr(e.obj);
  e.rec->set_num_subsets(c.nsub);
  e.rec->set_start_subset_num(c.start_subset);
  e.rec->set_num_subiterations(c.nsubiter);
  e.rec->set_start_subiteration_num(start_subiter);
  e.rec->set_save_interval(1);
  e.rec->set_output_filename_prefix(prefix);
  e.rec->set_randomise_subset_order(c.randomise);
  if (c.filt)
    {
      e.rec->set_inter_iteration_filter_ptr(make_filter(c.filt));
      e.rec->set_inter_iteration_filter_interval(c.filt_interval);
    }
  if (c.postfilt)
    e.rec->set_post_processor_sptr(make_filter(c.postfilt));
  return e;
}

// threshold_min_to_small_positive_value as the property needs it for D (oracle side, double)
static std::vector<double>
positive_D(const V& d0, const V* curv)
{
  std::vector<double> D(d0.size());
  double minpos = 0;
  for (std::size_t j = 0; j < d0.size(); ++j)
    {
      D[j] = static_cast<double>(d0[j]) + (curv ? 2. * (*curv)[j] : 0.);
      if (D[j] > 0 && (minpos == 0 || D[j] < minpos))
        minpos = D[j];
    }
  return D;
}

static std::string
cfg_line(const Case& c, const Built& b, int nvg)
{
  std::ostringstream s;
  const int nz = b.img->get_max_index() - b.img->get_min_index() + 1;
  const char* pk = c.prior == 0 ? "none" : c.prior == 1 ? "quad" : c.prior == 2 ? "quaddep" : c.prior == 4 ? "logcosh" : "notparabolic";
  s << "cfg " << c.id << " dims " << nz << " " << c.nxy << " " << c.nxy << " ns " << c.nsub << " ss " << c.start_subset << " alpha "
    << vh::hex(c.alpha) << " gamma " << vh::hex(c.gamma) << " ub " << vh::hex(static_cast<float>(c.ub)) << " prior " << pk
    << " beta " << vh::hex(c.beta) << " kappa " << (c.kappa ? 1 : 0) << " add " << (c.additive ? 1 : 0) << " nvg " << nvg << " dones " << (c.denom_ones ? 1 : 0)
    << " norm " << (c.norm ? 1 : 0) << " tof " << b.pdi->get_num_tof_poss() << " tofsens " << (c.tofsens ? 1 : 0) << " zero " << (c.zero_ends ? 1 : 0)
    << " subsens " << (c.subset_sens ? 1 : 0) << " rand " << (c.randomise ? 1 : 0) << " filt " << c.filt << " " << c.filt_interval << " " << c.postfilt
    << " segs " << c.maxseg << " " << b.pdi->get_max_segment_num() << " " << c.maxtof << " " << b.pdi->get_max_tof_pos_num()
    << " geom "
    << c.ndet << "," << c.nrings << "," << c.maxdelta << "," << c.ntang << "," << vh::hex(c.voxel) << "," << (c.restrict_fov ? 1 : 0) << ","
    << c.sym90 << c.sym180 << c.symswapseg << c.symswaps << c.symz << "," << c.weights_kind << "," << c.data_seed << "," << c.kappa_kind
    << "," << vh::hex(c.lc_scalar);
  return s.str();
}

// One sub-iteration of one run: correspondence lines + oracle clauses.
struct RunState
{
  std::vector<double> D; // the denominator the property talks about (oracle side), per run
  bool haveD = false;
};

static std::map<std::string, long> hist;

// `fin`: the image after end_of_iteration_processing of this sub-iteration (inter-iteration / post filter applied), or null
static void
emit_step(const Case& c, const StepRec& r, const V& d0, int start, bool levelB, bool prior_nonzero, RunState& rs, const V& sens0mask,
          const Defs& defs, const V* fin = nullptr)
{
  const std::size_t n = r.before.size();
  const float ubf = static_cast<float>(c.ub);
  std::ostringstream ctx;
  ctx << "case " << c.id << " start " << start << " k " << r.k;
  const std::string save_ctx = g_ctx;
  g_ctx = save_ctx + " " + ctx.str();

  // what update_estimate asked of the objective function / prior
  V gx = r.gx, g = r.g;
  if (!r.have_g)
    {
      // (update_estimate no longer goes through compute_sub_gradient: nothing recorded)
      ++oracle_checks;
      ofail("update_estimate did not call compute_sub_gradient of the objective function");
      g_ctx = save_ctx;
      return;
    }
  // (log-cosh prior: tanh is not in the model; gradient and curvature are checked by the oracle below and enter `step` as data)
  if (levelB && c.prior != 4)
    {
      op("grad " + std::to_string(r.g_subset) + " | " + hv(gx), hv(g));
      if (r.have_c)
        op("curv | " + hv(r.cx), hv(r.c));
    }
  // with a randomised subset order the subset is the implementation's choice (data for the model)
  op("step " + std::to_string(r.k) + " | " + hv(r.before) + " | " + hv(g) + " | " + (r.have_c ? hv(r.c) : std::string("-"))
         + (c.randomise ? " | " + std::to_string(r.subset) : std::string()),
     std::to_string(r.subset) + " | " + hv(r.after));
  if ((c.filt || c.postfilt) && fin)
    // what end_of_iteration_processing made of it (filters applied according to interval / last sub-iteration): the iterate
    op("endit " + std::to_string(r.k) + " | " + hv(r.after), hv(*fin));

  // ---- oracle: the property's statement on the implementation
  // (1) bounds
  ++oracle_checks;
  for (std::size_t j = 0; j < n; ++j)
    if (!(r.after[j] >= 0.F && r.after[j] <= ubf))
      {
        ofail("iterate outside [0, upper bound]: voxel " + std::to_string(j) + " value " + vh::hex(r.after[j]) + " ub " + vh::hex(ubf));
        break;
      }
  // (1a) every number update_estimate obtained or produced is finite (a denominator that is not strictly positive shows as 0/0 = NaN,
  //      which no comparison `v < 0 || v > ub` sees)
  {
    ++oracle_checks;
    auto finite = [](const V& v) {
      for (float x : v)
        if (!std::isfinite(x))
          return false;
      return true;
    };
    if (!finite(r.after))
      {
        long cnt = 0;
        for (float x : r.after)
          if (!std::isfinite(x))
            ++cnt;
        ofail("iterate after update_estimate has " + std::to_string(cnt) + " voxels that are not finite (denominator not strictly positive?)");
      }
    else if (!finite(g) || (r.have_c && !finite(r.c)))
      ofail("sub-gradient / surrogate curvature handed to update_estimate is not finite");
    else if (fin && !finite(*fin))
      ofail("iterate after end_of_iteration_processing is not finite");
  }
  // (1b) ... and after the inter-iteration / post filter, when these map [0, ub] into itself (non-negative taps of sum <= 1;
  //      the generated taps are dyadic, so this holds in float arithmetic too).  A sharpening filter (negative side lobes) is applied
  //      AFTER the clamp and nothing clamps again: OSSPS then hands out iterates outside the bounds — the one listed class
  //      `bounds:sharpening-filter-applied-after-clamp` (the model follows the code: Model.endOfIteration,
  //      Props.C08_in_bounds_fails_after_sharpening_filter).
  if (fin)
    {
      const bool applied_inter = c.filt && c.filt_interval > 0 && r.k % c.filt_interval == 0;
      const bool applied_post = c.postfilt && r.k == c.nsubiter;
      const bool preserving = (!applied_inter || c.filt == 1) && (!applied_post || c.postfilt == 1);
      bool inside = true;
      for (std::size_t j = 0; j < n; ++j)
        if (!((*fin)[j] >= 0.F && (*fin)[j] <= ubf))
          inside = false;
      if (preserving)
        {
          ++oracle_checks;
          if (!inside)
            ofail("iterate after the (bound preserving) inter-iteration / post filter outside [0, upper bound]");
        }
      else if (!inside)
        {
          hist["iterates_outside_bounds_after_sharpening_filter"]++;
          known("bounds:sharpening-filter-applied-after-clamp",
                "an inter-iteration / post filter with negative side lobes (SeparableConvolutionImageFilter -1/8, 5/4, -1/8 in x and y) is "
                "applied by end_of_iteration_processing AFTER threshold_upper_lower and OSSPS does not clamp again: the iterate that is "
                "saved and that the next sub-iteration starts from has voxels outside [0, upper bound] (upper bound " + vh::hex(ubf) + ")");
        }
      if (applied_inter || applied_post)
        hist["filtered_iterates"]++;
    }
  // (2) the gradient is taken at the current image (non-identifiable voxels zeroed at the start of every sub-iteration), of the
  //     subset the schedule prescribes
  ++oracle_checks;
  {
    V expect = r.before;
    for (std::size_t j = 0; j < n; ++j)
        if (sens0mask[j] != 0.F)
          expect[j] = 0.F;
    if (!same_bits(expect, gx))
      ofail("sub-gradient was not evaluated at the current image estimate");
    if ((!c.randomise && r.g_subset != r.subset) || r.g_calls != 1)
      ofail("sub-gradient evaluated for subset " + std::to_string(r.g_subset) + " (" + std::to_string(r.g_calls)
            + " calls) but the schedule gives subset " + std::to_string(r.subset));
  }
  // (2b) the gradient is the gradient of the penalised objective Phi of the property; the curvature is the prior's
  {
    ++oracle_checks;
    std::vector<double> gd, gm;
    defs.grad(r.g_subset, gx, gd, gm);
    for (std::size_t j = 0; j < n; ++j)
      if (!(std::fabs(gd[j] - g[j]) <= 1e-4 * (gm[j] + std::fabs(gd[j])) + 1e-30))
        {
          ofail("sub-gradient of voxel " + std::to_string(j) + " is not the gradient of the penalised objective: got " + vh::hex(g[j])
                + " definition " + vh::hex(gd[j]));
          break;
        }
    if (r.have_c)
      {
        ++oracle_checks;
        std::vector<double> cd;
        defs.curv(r.cx, cd);
        for (std::size_t j = 0; j < n; ++j)
          if (!(std::fabs(cd[j] - r.c[j]) <= 1e-4 * std::fabs(cd[j]) + 1e-30))
            {
              ofail("surrogate curvature of voxel " + std::to_string(j) + " is not beta sum w kappa kappa: got " + vh::hex(r.c[j])
                    + " definition " + vh::hex(cd[j]));
              break;
            }
      }
  }
  // (3) D of this run
  // (4b) "D strictly positive": a voxel whose gradient component is exactly 0 has the finite update zeta N 0 / D = 0, whatever D > 0
  //      is: it keeps its value (clamped).  In the voxels that neither the data nor the penalty see (D0 = 0, kappa = 0 or weights 0)
  //      this is what is left of the clause; the code gets there by threshold_min_to_small_positive_value, prior or no prior.
  {
    ++oracle_checks;
    for (std::size_t j = 0; j < n; ++j)
      if (g[j] == 0.F)
        {
          const float e = gx[j] > ubf ? ubf : (gx[j] < 0.F ? 0.F : gx[j]);
          if (!(r.after[j] == e))
            {
              ofail("voxel " + std::to_string(j) + " has gradient component 0 but moved from " + vh::hex(gx[j]) + " to " + vh::hex(r.after[j])
                    + " (denominator not strictly positive / not finite?)");
              break;
            }
          hist["zero_gradient_voxels_checked"]++;
        }
  }
  const bool recompute = prior_nonzero && c.prior == 2;
  if (r.k == start || recompute)
    {
      if (prior_nonzero && !r.have_c)
        {
          ++oracle_checks;
          ofail("prior surrogate curvature was not requested when the denominator had to be computed");
        }
      else
        {
          rs.D = positive_D(d0, prior_nonzero ? &r.c : nullptr);
          rs.haveD = true;
          for (double v : rs.D)
            if (v == 0)
              hist[prior_nonzero ? "voxels_with_D_exactly_0_before_thresholding_prior_present" : "voxels_with_D_exactly_0_before_thresholding_no_prior"]++;
        }
    }
  if (rs.haveD)
    {
      double dmax = 0, gmax = 0;
      for (std::size_t j = 0; j < n; ++j)
        {
          dmax = std::max(dmax, rs.D[j]);
          gmax = std::max(gmax, std::fabs(static_cast<double>(g[j])));
        }
      // (4) ascent direction: D > 0 means every voxel moves in the direction of its gradient component (or is held by a bound)
      ++oracle_checks;
      for (std::size_t j = 0; j < n; ++j)
        {
          const double d = static_cast<double>(r.after[j]) - gx[j];
          if (gx[j] >= 0.F && gx[j] <= ubf && !(d * g[j] >= 0))
            {
              ofail("voxel " + std::to_string(j) + " moved against its gradient component (D not positive?)");
              break;
            }
        }
      // (5) recover zeta from unclamped voxels:  zeta = (lambda' - lambda) D / (N grad)
      std::vector<double> z, zerr;
      for (std::size_t j = 0; j < n; ++j)
        {
          if (!(r.after[j] > 0.F && r.after[j] < ubf))
            continue;
          if (!(rs.D[j] > 1e-3 * dmax) || !(std::fabs(g[j]) > 1e-3 * gmax))
            continue;
          const double d = static_cast<double>(r.after[j]) - gx[j];
          if (d == 0)
            continue;
          const double rel = 8 * std::ldexp(1., -24) * (std::fabs(r.after[j]) + std::fabs(gx[j])) / std::fabs(d);
          if (rel > 2e-3)
            continue;
          z.push_back(d * rs.D[j] / (c.nsub * static_cast<double>(g[j])));
          zerr.push_back(rel + 1e-5);
        }
      if (!z.empty())
        {
          // reference: the voxel whose recovered value is least affected by the rounding of lambda' - lambda
          std::size_t iref = 0;
          for (std::size_t i = 1; i < z.size(); ++i)
            if (zerr[i] < zerr[iref])
              iref = i;
          const double zmed = z[iref];
          const double zmed_err = zerr[iref];
          ++oracle_checks;
          for (std::size_t i = 0; i < z.size(); ++i)
            if (std::fabs(z[i] - zmed) > std::fabs(zmed) * (zerr[i] + zmed_err + 1e-5))
              {
                ofail("update is not lambda + zeta N grad / D with one zeta for all voxels: recovered " + vh::hex(z[i]) + " vs reference "
                      + vh::hex(zmed));
                break;
              }
          // (6) relaxation schedule of the property: zeta_n = alpha / (1 + gamma n), n = full iteration number of sub-iteration k
          ++oracle_checks;
          const int n_full = (r.k - 1) / c.nsub;
          const double zdoc = static_cast<double>(c.alpha) / (1. + static_cast<double>(c.gamma) * n_full);
          if (std::fabs(zmed - zdoc) > (2e-4 + zmed_err) * zdoc)
            {
                ofail("relaxation is not alpha/(1+gamma n): recovered " + vh::hex(zmed) + " expected " + vh::hex(zdoc) + " n "
                      + std::to_string(n_full));
            }
          // (7) the full formula with the recovered zeta, every voxel
          ++oracle_checks;
          for (std::size_t j = 0; j < n; ++j)
            {
              if (!(rs.D[j] > 1e-3 * dmax))
                continue;
              const double u = zmed * c.nsub * static_cast<double>(g[j]) / rs.D[j];
              double e = static_cast<double>(gx[j]) + u;
              e = e > ubf ? ubf : (e < 0 ? 0 : e);
              const double tol = 1e-4 * (std::fabs(gx[j]) + std::fabs(u)) + 1e-30;
              if (!(std::fabs(e - r.after[j]) <= tol))
                {
                  ofail("voxel " + std::to_string(j) + " is not clamp(lambda + zeta N grad/D, 0, ub): got " + vh::hex(r.after[j])
                        + " expected " + vh::hex(e));
                  break;
                }
            }
        }
    }
  g_ctx = save_ctx;
}

static bool
file_exists(const std::string& f)
{
  struct stat st;
  return ::stat(f.c_str(), &st) == 0;
}

static int g_default_ep = 0;
static long n_cases = 0, n_steps = 0, n_restarts = 0, n_restart_equal = 0, n_setup_err = 0;

// characteristics of an image as has_same_characteristics compares them: origin (z,y,x), regular index range, grid spacing
static std::string
chars_of(const T& im)
{
  const VoxelsOnCartesianGrid<float>& v = dynamic_cast<const VoxelsOnCartesianGrid<float>&>(im);
  BasicCoordinate<3, int> lo, hi;
  v.get_index_range().get_regular_range(lo, hi);
  std::ostringstream s;
  s << vh::hex(v.get_origin()[1]) << " " << vh::hex(v.get_origin()[2]) << " " << vh::hex(v.get_origin()[3]) << " " << lo[1] << " " << hi[1] << " "
    << lo[2] << " " << hi[2] << " " << lo[3] << " " << hi[3] << " " << vh::hex(v.get_grid_spacing()[1]) << " " << vh::hex(v.get_grid_spacing()[2])
    << " " << vh::hex(v.get_grid_spacing()[3]);
  return s.str();
}

// emit the `endrun` line and check the saved files of a run against the images end_of_iteration_processing left
static void
check_saved(const Case& c, const std::string& prefix, int first_k, const std::vector<V>& finals)
{
  for (std::size_t m = 0; m < finals.size(); ++m)
    {
      const int k = first_k + static_cast<int>(m);
      const std::string f = prefix + "_" + std::to_string(k) + ".hv";
      ++oracle_checks;
      if (!file_exists(f))
        {
          ofail("iterate " + std::to_string(k) + " was not saved");
          continue;
        }
      if (!same_bits(flat(*read_from_file<T>(f)), finals[m]))
        ofail("saved iterate " + std::to_string(k) + " differs from the in-memory iterate");
    }
}

// `write update image`: <prefix>_update_<k>.hv is written iff requested (OFF by default) and is the additive update before the clamp;
// without inter-iteration / post filter end_of_iteration_processing hands out the image update_estimate left
static void
check_run_outputs(const Case& c, const std::string& prefix, const std::vector<StepRec>& steps, const std::vector<V>& finals)
{
  const float ubf = static_cast<float>(c.ub);
  for (std::size_t i = 0; i < steps.size(); ++i)
    {
      const StepRec& r = steps[i];
      const std::string f = prefix + "_update_" + std::to_string(r.k) + ".hv";
      ++oracle_checks;
      if (file_exists(f) != c.write_update)
        ofail(std::string("update image of sub-iteration ") + std::to_string(r.k) + (c.write_update ? " was not written" : " was written although `write update image` is off"));
      else if (c.write_update && r.have_g)
        {
          const V u = flat(*read_from_file<T>(f));
          hist["update_images_checked"]++;
          for (std::size_t j = 0; j < u.size() && j < r.after.size(); ++j)
            if (r.after[j] > 0.F && r.after[j] < ubf
                && !(std::fabs((static_cast<double>(r.gx[j]) + u[j]) - r.after[j]) <= 4 * std::ldexp(1., -24) * (std::fabs(r.gx[j]) + std::fabs(u[j])) + 1e-30))
              {
                ofail("update image of sub-iteration " + std::to_string(r.k) + " is not the additive update: voxel " + std::to_string(j));
                break;
              }
        }
      if (!c.filt && !c.postfilt && i < finals.size())
        {
          ++oracle_checks;
          if (!same_bits(r.after, finals[i]))
            ofail("no filter configured, but the iterate of sub-iteration " + std::to_string(r.k) + " differs from the image update_estimate left");
        }
    }
}

// with a randomised order: within every full iteration that the run covers completely the subsets used are a permutation
static void
check_permutations(const Case& c, const std::vector<StepRec>& steps)
{
  std::map<int, std::vector<int>> per_iter;
  for (auto& r : steps)
    per_iter[(r.k - 1) / c.nsub].push_back(r.subset);
  for (auto& kv : per_iter)
    {
      if (static_cast<int>(kv.second.size()) != c.nsub)
        continue;
      ++oracle_checks;
      std::vector<int> s = kv.second;
      std::sort(s.begin(), s.end());
      bool okp = true;
      for (int i = 0; i < c.nsub; ++i)
        if (s[i] != i)
          okp = false;
      if (!okp)
        ofail("randomised subset order: the subsets of full iteration " + std::to_string(kv.first) + " are not a permutation of 0.."
              + std::to_string(c.nsub - 1));
      hist["randomised_full_iterations"]++;
    }
}

// ---- describing a problem (configuration + data) to the model
struct Desc
{
  Engine q; // a matrix object of the harness' own with the same switches
  std::map<std::pair<int, int>, int> vs_subset;
  std::map<std::array<int, 3>, int> vg_id;
  int nvg = 0;
  bool balanced = true;
  Defs defs;
};

// the harness' own projection matrix, the subset of every view/segment, whether the subsets are balanced
static void
describe_begin(const Case& c, const Built& b, bool build_q, Desc& D)
{
  // ---- describe the problem to the model
  // A matrix object of our own with the same switches (the engine's own is only set up once the objective function's set_up got
  // that far): rows, symmetries, subset of every view/segment through the library's own subset assignment.
  Engine& q = D.q;
  std::map<std::pair<int, int>, int>& vs_subset = D.vs_subset;
  std::map<std::array<int, 3>, int>& vg_id = D.vg_id; // (view, segment, tof) -> viewgram id
  int& nvg = D.nvg;
  for (int s = b.pdi->get_min_segment_num(); s <= b.pdi->get_max_segment_num(); ++s)
    for (int tof = b.pdi->get_min_tof_pos_num(); tof <= b.pdi->get_max_tof_pos_num(); ++tof)
      for (int v = b.pdi->get_min_view_num(); v <= b.pdi->get_max_view_num(); ++v)
        vg_id[{ v, s, tof }] = nvg++;
  bool& balanced = D.balanced;
  balanced = true;
  if (build_q)
    {
      {
        Case cq = c;
        cq.par = 0;
        q = make_engine(cq, b, 1, c.ep, c.prefix + "_q");
      }
      q.pp->set_up(b.pdi, b.img);
      shared_ptr<DataSymmetriesForViewSegmentNumbers> sym(q.pp->get_symmetries_used()->clone());
      std::vector<int> count(c.nsub, 0);
      for (int sub = 0; sub < c.nsub; ++sub)
        {
          std::vector<ViewSegmentNumbers> basic = detail::find_basic_vs_nums_in_subset(
              *b.pdi, *sym, b.pdi->get_min_segment_num(), b.pdi->get_max_segment_num(), sub, c.nsub);
          for (auto& bv : basic)
            {
              std::vector<ViewSegmentNumbers> rel;
              sym->get_related_view_segment_numbers(rel, bv);
              for (auto& rv : rel)
                {
                  vs_subset[std::make_pair(rv.view_num(), rv.segment_num())] = sub;
                  // (the objective function counts the view/segments of its own segment range)
                  if (std::abs(rv.segment_num()) <= eff_maxseg(c, *b.pdi))
                    ++count[sub];
                }
            }
        }
      for (int sub = 1; sub < c.nsub; ++sub)
        if (count[sub] != count[0])
          balanced = false;
    }
}

// `weights`, `kappa`, `row`, `srow` lines + the property's definitions (Defs).  `prior_in_use`: the quadratic prior object of the
// objective function after set_up, or null (then the harness' own is asked); `t`: an image of the grid.
static void
describe_rest(const Case& c, const Built& b, QuadraticPrior<float>* prior_in_use, const shared_ptr<T>& t, Desc& D,
              LogcoshPrior<float>* lprior_in_use = nullptr)
{
  Engine& q = D.q;
  std::map<std::pair<int, int>, int>& vs_subset = D.vs_subset;
  std::map<std::array<int, 3>, int>& vg_id = D.vg_id;
  const int nvg = D.nvg;
  const int nz = b.img->get_max_index() - b.img->get_min_index() + 1;
  const int minz = b.img->get_min_index();
  const int miny = (*b.img)[minz].get_min_index();
  const int minx = (*b.img)[minz][miny].get_min_index();
  if (c.prior == 1 || c.prior == 2)
    {
      // weights actually used by the prior (default ones are computed lazily: force them by one gradient evaluation)
      QuadraticPrior<float>* pr = prior_in_use ? prior_in_use : static_cast<QuadraticPrior<float>*>(q.qprior.get());
      if (!prior_in_use)
        pr->set_up(t);
      {
        shared_ptr<T> tmp(t->get_empty_copy());
        if (c.beta != 0)
          pr->compute_gradient(*tmp, *t);
      }
      Array<3, float> w = pr->get_weights();
      if (w.get_length() > 0)
        {
          std::ostringstream s;
          s << "weights " << w.get_min_index() << " " << w.get_max_index() << " " << w[w.get_min_index()].get_min_index() << " "
            << w[w.get_min_index()].get_max_index() << " " << w[w.get_min_index()][w[w.get_min_index()].get_min_index()].get_min_index()
            << " " << w[w.get_min_index()][w[w.get_min_index()].get_min_index()].get_max_index() << " |";
          for (auto it = w.begin_all(); it != w.end_all(); ++it)
            s << " " << vh::hex(*it);
          op(s.str(), "ok");
        }
      if (c.kappa)
        op("kappa | " + hv(flat(*b.kappa)), "ok");
    }
  Defs& defs = D.defs;
  defs = Defs();
  defs.nvg = nvg;
  defs.nsub = c.nsub;
  defs.nz = nz;
  defs.ny = defs.nx = c.nxy;
  if (c.prior == 4)
    {
      // log-cosh prior: oracle only (weights as the prior object in use has them; default ones are computed lazily)
      LogcoshPrior<float>* pr = lprior_in_use ? lprior_in_use : static_cast<LogcoshPrior<float>*>(q.lprior.get());
      if (!lprior_in_use)
        pr->set_up(t);
      {
        shared_ptr<T> tmp(t->get_empty_copy());
        if (c.beta != 0)
          pr->compute_gradient(*tmp, *t);
      }
      defs.have_prior = true;
      defs.logcosh = true;
      defs.lc_scalar = c.lc_scalar;
      defs.beta = c.beta;
      Array<3, float> w = pr->get_weights();
      if (w.get_length() > 0)
        {
          defs.wminz = w.get_min_index();
          defs.wmaxz = w.get_max_index();
          defs.wminy = w[defs.wminz].get_min_index();
          defs.wmaxy = w[defs.wminz].get_max_index();
          defs.wminx = w[defs.wminz][defs.wminy].get_min_index();
          defs.wmaxx = w[defs.wminz][defs.wminy].get_max_index();
          for (auto it = w.begin_all(); it != w.end_all(); ++it)
            defs.w.push_back(*it);
        }
      if (c.kappa)
        for (auto it = b.kappa->begin_all_const(); it != b.kappa->end_all_const(); ++it)
          defs.kappa.push_back(*it);
      hist["logcosh_prior_cases"]++;
    }
  if (c.prior == 1 || c.prior == 2)
    {
      QuadraticPrior<float>* pr = prior_in_use ? prior_in_use : static_cast<QuadraticPrior<float>*>(q.qprior.get());
      defs.have_prior = true;
      defs.dep = c.prior == 2;
      defs.beta = c.beta;
      Array<3, float> w = pr->get_weights();
      if (w.get_length() > 0)
        {
          defs.wminz = w.get_min_index();
          defs.wmaxz = w.get_max_index();
          defs.wminy = w[defs.wminz].get_min_index();
          defs.wmaxy = w[defs.wminz].get_max_index();
          defs.wminx = w[defs.wminz][defs.wminy].get_min_index();
          defs.wmaxx = w[defs.wminz][defs.wminy].get_max_index();
          for (auto it = w.begin_all(); it != w.end_all(); ++it)
            defs.w.push_back(*it);
        }
      if (c.kappa)
        for (auto it = b.kappa->begin_all_const(); it != b.kappa->end_all_const(); ++it)
          defs.kappa.push_back(*it);
    }
  long nrows = 0, nelems = 0;
  for (int s = b.pdi->get_min_segment_num(); s <= b.pdi->get_max_segment_num(); ++s)
    for (int tof = b.pdi->get_min_tof_pos_num(); tof <= b.pdi->get_max_tof_pos_num(); ++tof)
      for (int v = b.pdi->get_min_view_num(); v <= b.pdi->get_max_view_num(); ++v)
        {
          const Viewgram<float> yv = b.y->get_viewgram(v, s, false, tof);
          Viewgram<float> av = b.y->get_empty_viewgram(v, s, false, tof);
          if (c.additive)
            av = b.a->get_viewgram(v, s, false, tof);
          Viewgram<float> nv = b.y->get_empty_viewgram(v, s, false, tof);
          nv.fill(1.F);
          if (c.norm)
            {
              const Viewgram<float> nn = b.normdata->get_viewgram(v, s);
              for (int ax = nv.get_min_axial_pos_num(); ax <= nv.get_max_axial_pos_num(); ++ax)
                for (int tp = nv.get_min_tangential_pos_num(); tp <= nv.get_max_tangential_pos_num(); ++tp)
                  nv[ax][tp] = nn[ax][tp];
            }
          auto itsub = vs_subset.find(std::make_pair(v, s));
          const int sub = itsub == vs_subset.end() ? -1 : itsub->second;
          const int vgid = vg_id[{ v, s, tof }];
          for (int ax = b.pdi->get_min_axial_pos_num(s); ax <= b.pdi->get_max_axial_pos_num(s); ++ax)
            for (int tp = b.pdi->get_min_tangential_pos_num(); tp <= b.pdi->get_max_tangential_pos_num(); ++tp)
              {
                ProjMatrixElemsForOneBin row;
                q.pm->get_proj_matrix_elems_for_one_bin(row, Bin(s, v, ax, tp, tof));
                std::ostringstream l;
                RowD rd;
                rd.vg = vgid;
                // (the textbook definitions: a bin outside the segment / TOF range to process is not part of the objective function)
                rd.subset = processed(c, *b.pdi, s, tof) ? sub : -1;
                if (!processed(c, *b.pdi, s, tof))
                  hist["bins_outside_segment_or_TOF_range_to_process"]++;
                rd.y = yv[ax][tp];
                rd.a = av[ax][tp];
                rd.n = nv[ax][tp];
                rd.zeroed = c.zero_ends && s == 0 && (ax == b.pdi->get_min_axial_pos_num(0) || ax == b.pdi->get_max_axial_pos_num(0));
                if (rd.zeroed)
                  hist["bins_in_zeroed_end_planes"]++;
                int nin = 0;
                for (auto el = row.begin(); el != row.end(); ++el)
                  if (el->coord1() >= minz && el->coord1() <= b.img->get_max_index())
                    ++nin;
                l << "row " << vgid << " " << sub << " " << s << " " << tof << " " << vh::hex(yv[ax][tp]) << " " << vh::hex(av[ax][tp]) << " " << vh::hex(nv[ax][tp]) << " "
                  << (rd.zeroed ? 1 : 0) << " " << nin;
                for (auto el = row.begin(); el != row.end(); ++el)
                  {
                    // ProjMatrixElemsForOneBin::forward_project / back_project skip elements outside the image's plane range
                    if (el->coord1() < minz || el->coord1() > b.img->get_max_index())
                      {
                        hist["matrix_elements_outside_image_planes"]++;
                        continue;
                      }
                    const int j = ((el->coord1() - minz) * c.nxy + (el->coord2() - miny)) * c.nxy + (el->coord3() - minx);
                    l << " " << j << " " << vh::hex(el->get_value());
                    rd.el.push_back(std::make_pair(j, static_cast<double>(el->get_value())));
                    ++nelems;
                  }
                defs.rows.push_back(rd);
                op(l.str(), "ok");
                ++nrows;
              }
        }
  hist["rows"] += nrows;
  hist["matrix_elements"] += nelems;
  // TOF data without `use time-of-flight sensitivities`: the sensitivity (hence the set of non-identifiable voxels) comes from a
  // clone of the back projector set up on the non-TOF geometry
  if (b.pdi->is_tof_data() && !c.tofsens)
    {
      shared_ptr<ProjDataInfo> npdi = b.pdi->create_non_tof_clone();
      Case cqs = c;
      cqs.par = 0;
      Engine qs = make_engine(cqs, b, 1, c.ep, c.prefix + "_qs");
      qs.pm->set_up(npdi, b.img);
      for (int s = npdi->get_min_segment_num(); s <= npdi->get_max_segment_num(); ++s)
        for (int v = npdi->get_min_view_num(); v <= npdi->get_max_view_num(); ++v)
          {
            auto itsub = vs_subset.find(std::make_pair(v, s));
            const int sub = itsub == vs_subset.end() ? -1 : itsub->second;
            for (int ax = npdi->get_min_axial_pos_num(s); ax <= npdi->get_max_axial_pos_num(s); ++ax)
              for (int tp = npdi->get_min_tangential_pos_num(); tp <= npdi->get_max_tangential_pos_num(); ++tp)
                {
                  ProjMatrixElemsForOneBin row;
                  qs.pm->get_proj_matrix_elems_for_one_bin(row, Bin(s, v, ax, tp));
                  const bool zeroed
                      = c.zero_ends && s == 0 && (ax == npdi->get_min_axial_pos_num(0) || ax == npdi->get_max_axial_pos_num(0));
                  float nf = 1.F;
                  if (c.norm)
                    nf = b.normdata->get_viewgram(v, s)[ax][tp];
                  std::ostringstream l;
                  int nin = 0;
                  for (auto el = row.begin(); el != row.end(); ++el)
                    if (el->coord1() >= minz && el->coord1() <= b.img->get_max_index())
                      ++nin;
                  l << "srow " << sub << " " << s << " " << vh::hex(nf) << " " << (zeroed ? 1 : 0) << " " << nin;
                  for (auto el = row.begin(); el != row.end(); ++el)
                    {
                      if (el->coord1() < minz || el->coord1() > b.img->get_max_index())
                        continue;
                      const int j = ((el->coord1() - minz) * c.nxy + (el->coord2() - miny)) * c.nxy + (el->coord3() - minx);
                      l << " " << j << " " << vh::hex(el->get_value());
                    }
                  op(l.str(), "ok");
                  hist["sensitivity_rows_nonTOF"]++;
                }
          }
    }
}

// (always returns true: a refusal by set_up is either expected and emitted, or an oracle failure)
static bool
run_case(Case c, bool levelB, bool restarts, bool expect_err)
{
  Built b;
  build_data(c, b);
  shared_ptr<T> t(b.img->get_empty_copy());
  unflat(*t, b.init);
  {
    std::ostringstream s;
    s << "seed-case " << c.id;
    g_ctx = s.str();
  }
  std::string initfile;
  if (c.par)
    {
      write_to_file(c.prefix + "_init", *t);
      initfile = c.prefix + "_init.hv";
    }
  Engine e;
  try
    {
      e = make_engine(c, b, 1, c.ep, c.prefix, "", initfile);
      if (c.par)
        t = e.rec->initial(); // what the no-argument reconstruct() would start from
    }
  catch (std::exception& ex)
    {
      ++oracle_checks;
      ofail(std::string("parameter file of a configuration the property quantifies over was refused: ") + ex.what());
      return true;
    }
  if (c.par)
    {
      ++oracle_checks;
      if (!same_bits(flat(*t), b.init))
        ofail("`initial estimate` read back differs from the image written");
    }
  std::remove((c.prefix + "_precomputed_denominator.hv").c_str());
  bool ok = false;
  try
    {
      ok = e.rec->set_up(t) == Succeeded::yes;
    }
  catch (...)
    {
      ok = false;
    }
  Desc D;
  describe_begin(c, b, ok || !expect_err, D);
  const bool balanced = D.balanced;
  const int nvg = D.nvg;
  if (!ok && !expect_err && (c.subset_sens || balanced))
    {
      // the only legitimate refusal of a generated configuration: use_subset_sensitivities = false with unbalanced subsets
      ++oracle_checks;
      ofail("set_up refused a configuration the property quantifies over (subsets " + std::string(balanced ? "balanced" : "unbalanced")
            + ", use_subset_sensitivities " + (c.subset_sens ? "on" : "off") + ")");
      return true;
    }
  op(cfg_line(c, b, nvg), "ok");
  if (!ok && expect_err)
    {
      // error branch: set_up refuses
      op("setup 1 " + std::to_string(c.nsubiter) + " " + std::to_string(c.ep) + " | " + hv(b.init), "err");
      ++n_setup_err;
      return true;
    }
  if (c.par == 2)
    {
      // the OSSPS keys were not in the parameter file: what the parser left must be what the model's Params.default says
      op("pardefaults", e.rec->parsed_line());
      ++oracle_checks;
      if (!e.rec->no_filters() || e.rec->parsed_write_update() != 0)
        ofail("a parameter file that mentions no filter and no `write update image` produced an object with filters / update images");
      hist["parameter_file_cases_with_defaults"]++;
    }
  else if (c.par == 1)
    hist["parameter_file_cases_explicit"]++;
  describe_rest(c, b, ok ? e.qp : nullptr, t, D, ok ? e.lprior.get() : nullptr);
  const Defs& defs = D.defs;
  const int nz = b.img->get_max_index() - b.img->get_min_index() + 1;
  if (!ok)
    {
      // refused because the subsets are unbalanced and subset sensitivities are switched off
      op("setup 1 " + std::to_string(c.nsubiter) + " " + std::to_string(c.ep) + " | " + hv(b.init), "err");
      ++n_setup_err;
      hist["refused_unbalanced_without_subset_sensitivities"]++;
      return true;
    }
  ++n_cases;
  if (!c.subset_sens)
    {
      // accepted without subset sensitivities: the subsets must be balanced (correspondence: the model refuses otherwise)
      hist["use_subset_sensitivities_off"]++;
    }
  const bool prior_nonzero = !e.pl->prior_is_zero();

  // sensitivity == 0 mask
  V sens0mask;
  {
    std::string m;
    for (auto it = e.pl->get_sensitivity().begin_all_const(); it != e.pl->get_sensitivity().end_all_const(); ++it)
      {
        sens0mask.push_back(*it == 0 ? 1.F : 0.F);
        m += (*it == 0 ? '1' : '0');
      }
    op("sens0", m);
    hist["nonidentifiable_voxels"] += std::count(m.begin(), m.end(), '1');
  }
  // D0 as set_up left it
  const std::string d0file = c.prefix + "_precomputed_denominator.hv";
  V d0;
  ++oracle_checks;
  if (c.denom_ones)
    {
      // `precomputed denominator := 1`: nothing is written; the denominator (ones) is only observed through the updates
      d0.assign(b.init.size(), 1.F);
      op("setup 1 " + std::to_string(c.nsubiter) + " " + std::to_string(c.ep) + " | " + hv(b.init), "ok | " + hv(flat(*t)) + " | unobserved");
    }
  else
    {
      if (!file_exists(d0file))
        {
          ofail("set_up did not write the precomputed denominator");
          return true;
        }
      d0 = flat(*read_from_file<T>(d0file));
      op("setup 1 " + std::to_string(c.nsubiter) + " " + std::to_string(c.ep) + " | " + hv(b.init), "ok | " + hv(flat(*t)) + " | " + hv(d0));
      op("d0sync | " + hv(d0), "ok");
    }
  // oracle: D0 = -(approximate Hessian of the log-likelihood applied to the uniform image), non-negative
  if (!c.denom_ones)
  {
    ++oracle_checks;
    shared_ptr<T> ones(t->get_empty_copy());
    ones->fill(1.F);
    shared_ptr<T> h(t->get_empty_copy());
    e.pl->add_multiplication_with_approximate_Hessian_without_penalty(*h, *ones);
    V hvv = flat(*h);
    bool okd = hvv.size() == d0.size();
    for (std::size_t j = 0; okd && j < d0.size(); ++j)
      if (!(d0[j] == -hvv[j]))
        okd = false;
    if (!okd)
      ofail("precomputed denominator is not minus the approximate Hessian (without penalty) applied to the uniform image");
    ++oracle_checks;
    {
      std::vector<double> dd;
      defs.d0(d0.size(), dd);
      for (std::size_t j = 0; j < d0.size(); ++j)
        if (!(std::fabs(dd[j] - d0[j]) <= 1e-4 * std::fabs(dd[j]) + 1e-30))
          {
            // the one listed class: with zero_seg0_end_planes the Hessian functions read the viewgrams directly and keep the end
            // planes of segment 0, which the objective function (value, gradient, sensitivity) excludes
            bool is_known = false;
            if (c.zero_ends)
              {
                std::vector<double> di;
                defs.d0(d0.size(), di, true);
                is_known = true;
                for (std::size_t i = 0; i < d0.size(); ++i)
                  if (!(std::fabs(di[i] - d0[i]) <= 1e-4 * std::fabs(di[i]) + 1e-30))
                    is_known = false;
              }
            if (is_known)
              known("denominator:includes-zeroed-seg0-end-planes",
                    "with zero_seg0_end_planes = true the precomputed denominator (minus the approximate Hessian on the uniform image) "
                    "contains the bins of the first and last axial position of segment 0, which the objective function excludes: voxel "
                        + std::to_string(j) + " got " + vh::hex(d0[j]) + ", sum over the bins of the objective function " + vh::hex(dd[j]));
            else
              ofail("data part of the denominator of voxel " + std::to_string(j) + " is not sum_b P_bj (P 1)_b / (n_b^2 y_b): got "
                    + vh::hex(d0[j]) + " definition " + vh::hex(dd[j]));
            break;
          }
    }
    ++oracle_checks;
    for (std::size_t j = 0; j < d0.size(); ++j)
      if (!(d0[j] >= 0.F))
        {
          ofail("data part of the denominator is negative at voxel " + std::to_string(j) + ": " + vh::hex(d0[j]));
          break;
        }
  }

  // ---- the uninterrupted run
  // (IterativeReconstruction::set_up seeds rand() from the clock when the subset order is randomised: re-seed it from the case)
  std::srand(static_cast<unsigned>(c.data_seed % 1000003ULL));
  try
    {
      e.rec->reconstruct(t);
    }
  catch (std::exception& ex)
    {
      ++oracle_checks;
      ofail(std::string("reconstruct threw: ") + ex.what());
      return true;
    }
  std::vector<StepRec> full = e.rec->steps;
  std::vector<V> full_final = e.rec->finals;
  {
    RunState rs;
    for (std::size_t i = 0; i < full.size(); ++i)
      {
        emit_step(c, full[i], d0, 1, levelB, prior_nonzero, rs, sens0mask, defs, i < full_final.size() ? &full_final[i] : nullptr);
        ++n_steps;
        // the next sub-iteration starts from the iterate end_of_iteration_processing left
        if (i > 0)
          {
            ++oracle_checks;
            if (!same_bits(full[i].before, full_final[i - 1]))
              ofail("sub-iteration " + std::to_string(full[i].k) + " does not start from the previous iterate");
          }
      }
    op("endrun", std::to_string(full.size()));
    ++oracle_checks;
    if (static_cast<int>(full.size()) != c.nsubiter || full_final.size() != full.size())
      ofail("number of sub-iterations performed " + std::to_string(full.size()) + " != " + std::to_string(c.nsubiter));
    else
      {
        check_saved(c, c.prefix, 1, full_final);
        check_run_outputs(c, c.prefix, full, full_final);
      }
    if (c.randomise)
      check_permutations(c, full);
  }
  if (static_cast<int>(full.size()) != c.nsubiter || full_final.size() != full.size())
    return true;

  // ---- parameter-file run: the same configuration made with the setters gives the same iterates
  if (c.par)
    {
      Case cm = c;
      cm.par = 0;
      cm.prefix = c.prefix + "_mem";
      Engine m = make_engine(cm, b, 1, c.ep, cm.prefix);
      shared_ptr<T> tm(b.img->get_empty_copy());
      unflat(*tm, b.init);
      bool okm = false;
      try
        {
          okm = m.rec->set_up(tm) == Succeeded::yes;
          if (okm)
            m.rec->reconstruct(tm);
        }
      catch (...)
        {
          okm = false;
        }
      ++oracle_checks;
      bool equal = okm && m.rec->finals.size() == full_final.size();
      for (std::size_t i = 0; equal && i < full_final.size(); ++i)
        equal = same_bits(m.rec->finals[i], full_final[i]);
      if (!equal)
        ofail("the run configured by parameter file differs from the run configured identically through the setters");
      else
        hist["parameter_file_runs_equal_setter_runs"]++;
    }

  // ---- a second reconstruct() on the same object WITHOUT set_up (the documented trap: D was modified);
  //      right after the uninterrupted run: the model continues with the denominator that run left
  if (restarts && c.id % 3 == 0)
    {
      shared_ptr<T> t2(b.img->get_empty_copy());
      unflat(*t2, b.init);
      e.rec->steps.clear();
      e.rec->finals.clear();
      e.rec->set_output_filename_prefix(c.prefix + "_rerun");
      op("rerun 1 " + std::to_string(c.nsubiter), "ok");
      try
        {
          std::srand(static_cast<unsigned>((c.data_seed + 31ULL) % 1000003ULL));
          e.rec->reconstruct(t2);
          RunState rs; // the property says nothing about this run: correspondence only
          for (std::size_t i = 0; i < e.rec->steps.size(); ++i)
            {
              const StepRec& r = e.rec->steps[i];
              if (!r.have_g)
                continue;
              op("step " + std::to_string(r.k) + " | " + hv(r.before) + " | " + hv(r.g) + " | " + (r.have_c ? hv(r.c) : std::string("-"))
                     + (c.randomise ? " | " + std::to_string(r.subset) : std::string()),
                 std::to_string(r.subset) + " | " + hv(r.after));
              if ((c.filt || c.postfilt) && i < e.rec->finals.size())
                op("endit " + std::to_string(r.k) + " | " + hv(r.after), hv(e.rec->finals[i]));
            }
          op("endrun", std::to_string(e.rec->steps.size()));
          hist["rerun_without_setup"]++;
        }
      catch (...)
        {
          op("endrun", "exception");
        }
    }

  // ---- resume from every saved iterate with fresh objects
  //      variant 0 / 1: enforce_initial_positivity off / on, denominator recomputed;
  //      variant 2: `precomputed denominator := <the file the uninterrupted run's set_up wrote>`;
  //      variant 3 (after sub-iteration 1 only): a user supplied denominator 2 D0 + 1 from file (no reproduction expected: correspondence
  //                 and formula clauses with that denominator)
  const std::string tchars = chars_of(*b.img);
  if (restarts)
    for (int k = 1; k < c.nsubiter; ++k)
      for (int variant = 0; variant <= 3; ++variant)
        {
          if (variant >= 2 && c.denom_ones)
            continue;
          if (variant == 3 && k != 1)
            continue;
          const int ep2 = variant == 1 ? 1 : 0;
          const std::string pfx2 = c.prefix + "_r" + std::to_string(k) + "v" + std::to_string(variant);
          std::string dfile;
          V dfile_v;
          std::string fchars;
          if (variant == 2)
            dfile = d0file;
          else if (variant == 3)
            {
              shared_ptr<T> du(b.img->get_empty_copy());
              V dv(d0.size());
              for (std::size_t j = 0; j < d0.size(); ++j)
                dv[j] = 2.F * d0[j] + 1.F;
              unflat(*du, dv);
              dfile = pfx2 + "_userdenominator";
              write_to_file(dfile, *du);
              dfile += ".hv";
            }
          if (variant >= 2)
            {
              shared_ptr<T> rd = read_from_file<T>(dfile);
              dfile_v = flat(*rd);
              fchars = chars_of(*rd);
            }
          // (parameter-file mode: `start at subiteration number`, `initial estimate := <saved iterate>`, `precomputed denominator`)
          const std::string savedfile = c.prefix + "_" + std::to_string(k) + ".hv";
          Engine e2;
          shared_ptr<T> saved;
          try
            {
              e2 = make_engine(c, b, k + 1, ep2, pfx2, dfile, savedfile);
              saved = c.par ? e2.rec->initial() : read_from_file<T>(savedfile);
            }
          catch (std::exception& ex)
            {
              ++oracle_checks;
              ofail(std::string("parameter file of a resumed run was refused: ") + ex.what());
              continue;
            }
          if (!c.par)
            saved->set_exam_info(*b.ei);
          const V saved_v = flat(*saved);
          const std::string saved_chars = chars_of(*saved); // the target of this set_up is the image as read back
          bool ok2 = false;
          try
            {
              ok2 = e2.rec->set_up(saved) == Succeeded::yes;
            }
          catch (...)
            {}
          ++oracle_checks;
          if (!ok2)
            {
              ofail("set_up of the resumed run failed at k=" + std::to_string(k) + " variant " + std::to_string(variant));
              continue;
            }
          V d02;
          if (variant >= 2)
            {
              d02 = dfile_v;
              op("setupf " + std::to_string(k + 1) + " " + std::to_string(c.nsubiter) + " " + std::to_string(ep2) + " | " + hv(saved_v) + " | "
                     + saved_chars + " | " + fchars + " | " + hv(dfile_v),
                 "ok | " + hv(flat(*saved)) + " | unobserved");
              ++oracle_checks;
              if (file_exists(pfx2 + "_precomputed_denominator.hv"))
                ofail("a denominator was precomputed although `precomputed denominator` names a file");
              hist[variant == 2 ? "resumes_with_saved_denominator_file" : "runs_with_user_denominator_file"]++;
            }
          else if (c.denom_ones)
            {
              d02.assign(saved_v.size(), 1.F);
              op("setup " + std::to_string(k + 1) + " " + std::to_string(c.nsubiter) + " " + std::to_string(ep2) + " | " + hv(saved_v),
                 "ok | " + hv(flat(*saved)) + " | unobserved");
            }
          else
            {
              d02 = flat(*read_from_file<T>(pfx2 + "_precomputed_denominator.hv"));
              op("setup " + std::to_string(k + 1) + " " + std::to_string(c.nsubiter) + " " + std::to_string(ep2) + " | " + hv(saved_v),
                 "ok | " + hv(flat(*saved)) + " | " + hv(d02));
              op("d0sync | " + hv(d02), "ok");
            }
          std::srand(static_cast<unsigned>((c.data_seed + 7919ULL * k) % 1000003ULL));
          e2.rec->reconstruct(saved);
          RunState rs;
          for (std::size_t i = 0; i < e2.rec->steps.size(); ++i)
            emit_step(c, e2.rec->steps[i], d02, k + 1, false, prior_nonzero, rs, sens0mask, defs,
                      i < e2.rec->finals.size() ? &e2.rec->finals[i] : nullptr);
          op("endrun", std::to_string(e2.rec->steps.size()));
          if (c.randomise)
            check_permutations(c, e2.rec->steps);
          if (variant == 3)
            continue;
          ++n_restarts;
          // ORACLE: resuming reproduces the uninterrupted run, bitwise
          bool all_positive = true, nonident_nonzero = false;
          for (std::size_t j = 0; j < saved_v.size(); ++j)
            {
              if (!(saved_v[j] > 0.F))
                all_positive = false;
              if (sens0mask[j] != 0.F && saved_v[j] != 0.F)
                nonident_nonzero = true;
            }
          bool equal = static_cast<int>(e2.rec->finals.size()) == c.nsubiter - k;
          int first_diff = -1;
          for (int m = 0; equal && m < c.nsubiter - k; ++m)
            if (!same_bits(e2.rec->finals[m], full_final[k + m]))
              {
                equal = false;
                first_diff = k + 1 + m;
              }
          std::ostringstream ctx;
          ctx << "seed-case " << c.id << " resume-after " << k << " variant " << variant;
          const std::string save_ctx = g_ctx;
          g_ctx = ctx.str();
          if (c.randomise && c.nsub > 1)
            {
              // the random subset order is not part of the saved state (and seeded from the clock): nothing to reproduce
              hist[equal ? "resume_equal_although_randomised" : "resume_differs_randomised_subset_order"]++;
              g_ctx = save_ctx;
              continue;
            }
          if (c.prior == 4)
            {
              // the restart clause is for no prior / a quadratic prior.  (LogcoshPrior declares its surrogate curvature independent
              // of the image although it is not: the run keeps the curvature of its first image, a resumed run takes the saved one's.)
              hist[equal ? "resume_equal_logcosh" : "resume_differs_logcosh_curvature_of_first_image_kept"]++;
              g_ctx = save_ctx;
              continue;
            }
          ++oracle_checks;
          if (equal)
            ++n_restart_equal;
          else if (ep2 == 1 && !all_positive)
            {
              // exact zeros produced by the clamp are lifted by set_up of the resumed run
              if (g_default_ep != 0)
                known("restart:enforce-initial-positivity-lifts-exact-zeros",
                      "with the DEFAULT enforce_initial_positivity (on) the set_up of a resumed OSSPS run replaces the exact zeros that "
                      "threshold_upper_lower produced by small positive values, so the resumed run differs from the uninterrupted one "
                      "(first differing sub-iteration "
                          + std::to_string(first_diff) + ")");
              else
                // requested explicitly by the user (OFF by default in OSSPS): not a violation of the property as stated
                hist["resume_differs_because_enforce_initial_positivity_requested"]++;
            }
          else
            ofail("resumed run differs from the uninterrupted run at sub-iteration " + std::to_string(first_diff));
          g_ctx = save_ctx;
        }

  // ---- `precomputed denominator := <file>` that set_up must refuse (or accept within has_same_characteristics' tolerances)
  if (restarts && !c.denom_ones)
    for (int rep = 0; rep < 2; ++rep)
      {
        const int kind = (c.id + 3 * rep) % 6;
        const std::string pfx2 = c.prefix + "_f" + std::to_string(kind);
        std::string dfile = pfx2 + "_denominator";
        std::string fchars = "missing";
        V dfile_v;
        if (kind != 0)
          {
            // 1: one voxel more in x and y; 2: origin 0.5 mm off; 3: origin 0.004 mm off (inside the tolerance 0.01 mm);
            // 4: voxels 1.5 times as large; 5: voxel size 2^-16 relative off (inside the tolerance 1e-4)
            const int mn = -(c.nxy / 2);
            const int nxy2 = c.nxy + (kind == 1 ? 1 : 0);
            CartesianCoordinate3D<float> org = b.img->get_origin();
            CartesianCoordinate3D<float> sp = b.img->get_grid_spacing();
            if (kind == 2)
              org[2] += 0.5F;
            if (kind == 3)
              org[3] += 0.00390625F;
            if (kind == 4)
              sp[2] *= 1.5F, sp[3] *= 1.5F;
            if (kind == 5)
              sp[2] *= 1.F + 1.52587890625e-5F, sp[3] *= 1.F + 1.52587890625e-5F;
            VoxelsOnCartesianGrid<float> dimg(IndexRange3D(0, nz - 1, mn, mn + nxy2 - 1, mn, mn + nxy2 - 1), org, sp);
            dimg.set_exam_info(*b.ei);
            dimg.fill(1.F);
            write_to_file(dfile, dimg);
            dfile += ".hv";
            shared_ptr<T> rd = read_from_file<T>(dfile);
            dfile_v = flat(*rd);
            fchars = chars_of(*rd);
          }
        else
          dfile += "_does_not_exist.hv";
        shared_ptr<T> t2(b.img->get_empty_copy());
        unflat(*t2, b.init);
        bool ok2 = false;
        try
          {
            Engine e2 = make_engine(c, b, 1, 0, pfx2, dfile, initfile);
            if (c.par)
              t2 = e2.rec->initial();
            ok2 = e2.rec->set_up(t2) == Succeeded::yes;
          }
        catch (...)
          {}
        op("setupf 1 " + std::to_string(c.nsubiter) + " 0 | " + hv(b.init) + " | " + tchars + " | " + fchars + " | " + (dfile_v.empty() ? std::string("-") : hv(dfile_v)),
           ok2 ? "ok | " + hv(flat(*t2)) + " | unobserved" : std::string("err"));
        hist[std::string("denominator_file_") + (ok2 ? "accepted" : "refused")]++;
        // the property's side: a denominator that does not belong to the image grid (kinds 0,1,2,4) must not be used
        ++oracle_checks;
        if (ok2 && (kind == 0 || kind == 1 || kind == 2 || kind == 4))
          ofail("set_up accepted a precomputed denominator file that does not match the image (kind " + std::to_string(kind) + ")");
      }

  return true;
}

// ---------------------------------------------------------------------------------------------- object re-use histories
// ONE OSSPSReconstruction object, ONE objective function object and (unless replaced on purpose) ONE prior object go through several
// set_up(target) -> reconstruct(target) runs; between the runs the user changes something through the public setters.

// new content for parts of the data (same ProjDataInfo / ExamInfo objects)
enum
{
  CH_DATA = 1,
  CH_ADD = 2,
  CH_NORM = 4,
  CH_NSUB = 8,
  CH_RELAX = 16,
  CH_BETA = 32,
  CH_PRIOROBJ = 64,
  CH_INIT = 128,
  CH_DMODE = 256,
  CH_RESTART = 512,
  CH_SEGS = 1024 // `maximum absolute segment number to process` (set_max_segment_num_to_process)
};

static void
regen(const Case& c, Built& b, uint64_t seed, unsigned what)
{
  vh::Rng rng(seed);
  if (what & CH_DATA)
    {
      b.y.reset(new ProjDataInMemory(b.ei, b.pdi));
      const int scale_kind = rng.range(0, 2);
      for (int s = b.pdi->get_min_segment_num(); s <= b.pdi->get_max_segment_num(); ++s)
        for (int tof = b.pdi->get_min_tof_pos_num(); tof <= b.pdi->get_max_tof_pos_num(); ++tof)
          for (int v = b.pdi->get_min_view_num(); v <= b.pdi->get_max_view_num(); ++v)
            {
              Viewgram<float> vg = b.y->get_empty_viewgram(v, s, false, tof);
              for (auto it = vg.begin_all(); it != vg.end_all(); ++it)
                {
                  const int r = rng.range(0, 11);
                  float val = r <= 2 ? 0.F : static_cast<float>(r - 2);
                  *it = scale_kind == 1 ? val * 0.5F : (scale_kind == 2 ? val * 5.F : val);
                }
              b.y->set_viewgram(vg);
            }
    }
  if (what & CH_ADD)
    {
      b.a.reset();
      if (c.additive)
        {
          b.a.reset(new ProjDataInMemory(b.ei, b.pdi));
          for (int s = b.pdi->get_min_segment_num(); s <= b.pdi->get_max_segment_num(); ++s)
            for (int tof = b.pdi->get_min_tof_pos_num(); tof <= b.pdi->get_max_tof_pos_num(); ++tof)
              for (int v = b.pdi->get_min_view_num(); v <= b.pdi->get_max_view_num(); ++v)
                {
                  Viewgram<float> va = b.a->get_empty_viewgram(v, s, false, tof);
                  for (auto it = va.begin_all(); it != va.end_all(); ++it)
                    *it = static_cast<float>(rng.range(1, 64)) / 16.F;
                  b.a->set_viewgram(va);
                }
        }
    }
  if (what & CH_NORM)
    {
      b.normdata.reset();
      if (c.norm)
        {
          shared_ptr<ProjDataInfo> npdi = b.pdi->create_non_tof_clone();
          b.normdata.reset(new ProjDataInMemory(b.ei, npdi));
          for (int s = npdi->get_min_segment_num(); s <= npdi->get_max_segment_num(); ++s)
            for (int v = npdi->get_min_view_num(); v <= npdi->get_max_view_num(); ++v)
              {
                Viewgram<float> vn = b.normdata->get_empty_viewgram(v, s);
                for (auto it = vn.begin_all(); it != vn.end_all(); ++it)
                  *it = static_cast<float>(rng.range(4, 24)) / 8.F;
                b.normdata->set_viewgram(vn);
              }
        }
    }
  if (what & CH_INIT)
    {
      shared_ptr<T> t(b.img->get_empty_copy());
      for (auto it = t->begin_all(); it != t->end_all(); ++it)
        *it = rng.range(0, 15) == 0 ? 0.F : static_cast<float>(rng.range(1, 96)) / 32.F;
      b.init = flat(*t);
    }
  if (what & CH_PRIOROBJ)
    {
      b.kappa.reset();
      if (c.kappa)
        make_kappa(c, b, rng);
      if (c.weights_kind >= 2)
        make_weights(c, b, rng);
    }
}

static const float h_alphas[] = { 1.F, 0.5F, 1.75F, 2.F, 0.75F };
static const float h_gammas[] = { 0.1F, 0.F, 0.5F, 1.F, 0.25F };
static const double h_ubs[] = { static_cast<double>(std::numeric_limits<float>::max()), 1.5, 3., 0.75, 8. };

static long n_hist = 0, n_hist_runs = 0, n_hist_equal_fresh = 0;

// kind 0: the same configuration and start image again and again;
// kind 1: every run changes something (data, additive term, normalisation, subsets, relaxation, prior factor / object, start image,
//         `precomputed denominator` mode, restart from a saved iterate of the previous run);
// kind 2: an interrupted run continued by re-using the object (start_subiteration_num = k+1, start image = saved iterate k or the
//         image object of the previous run itself), compared with the uninterrupted run of a fresh object.
// `script` (kind 1): for run r >= 1 the set of changes and the `precomputed denominator` mode instead of random ones
static void
run_history(Case c0, int kind, int nruns, const std::vector<std::pair<unsigned, int>>* script = nullptr)
{
  vh::Rng hr(c0.data_seed * 6364136223846793005ULL + 1442695040888963407ULL + static_cast<uint64_t>(kind));
  c0.randomise = false; // (the random order is seeded from the clock by set_up)
  if (kind == 2)
    {
      c0.ep = 0;
      c0.postfilt = 0;
      if (c0.filt == 2)
        c0.filt = 1;
    }
  Built b;
  build_data(c0, b);
  const int V_ = c0.ndet / 2;
  std::vector<int> legal_nsub;
  for (int ns = 1; ns <= V_; ++ns)
    {
      bool legal = c0.subset_sens;
      if (!legal)
        {
          // without subset sensitivities STIR insists on balanced subsets
          Case cc = c0;
          cc.nsub = ns;
          cc.start_subset = 0;
          Desc d;
          describe_begin(cc, b, true, d);
          legal = d.balanced;
        }
      if (legal)
        legal_nsub.push_back(ns);
    }
  if (std::find(legal_nsub.begin(), legal_nsub.end(), c0.nsub) == legal_nsub.end())
    {
      c0.nsub = legal_nsub[hr.range(0, static_cast<int>(legal_nsub.size()) - 1)];
      c0.start_subset = hr.range(0, c0.nsub - 1);
    }
  const std::string hp = c0.prefix;
  ++n_hist;
  hist[std::string("histories_kind") + std::to_string(kind)]++;

  // kind 2: the uninterrupted run, fresh object
  const int total = kind == 2 ? std::max(3, c0.nsubiter) : 0;
  std::vector<V> uninterrupted;
  if (kind == 2)
    {
      Case cu = c0;
      cu.par = 0;
      cu.nsubiter = total;
      Engine u = make_engine(cu, b, 1, 0, hp + "_hfull");
      shared_ptr<T> tu(b.img->get_empty_copy());
      unflat(*tu, b.init);
      bool oku = false;
      try
        {
          oku = u.rec->set_up(tu) == Succeeded::yes;
          if (oku)
            u.rec->reconstruct(tu);
        }
      catch (...)
        {
          oku = false;
        }
      ++oracle_checks;
      if (!oku)
        {
          ofail("set_up refused a configuration the property quantifies over (uninterrupted run of a history)");
          return;
        }
      uninterrupted = u.rec->finals;
    }

  Engine e;
  Case c = c0;
  shared_ptr<T> t_prev;
  std::string prev_prefix;
  int prev_start = 1, prev_last = 0;
  std::string valid_d0file; // written by an earlier set_up of this object for the data part (y, normalisation) still current
  std::string any_d0file;
  for (int r = 0; r < nruns; ++r)
    {
      const std::string pfx = hp + "_h" + std::to_string(r);
      std::ostringstream ctx;
      ctx << "seed-case " << c0.id << " history kind " << kind << " run " << r;
      g_ctx = ctx.str();
      unsigned changed = 0;
      int start = 1, last = c.nsubiter;
      int init_kind = 0, init_k = 0; // 0: b.init; 1: saved iterate init_k of the previous run (file); 2: the previous run's image object
      int dmode = c.denom_ones ? 1 : 0;
      std::string dfile;
      if (kind == 2)
        {
          if (r == 0)
            last = hr.range(1, total - 1);
          else
            {
              if (prev_last >= total)
                break;
              init_k = hr.range(prev_start, prev_last);
              init_kind = (init_k == prev_last && hr.coin()) ? 2 : 1;
              start = init_k + 1;
              last = r == nruns - 1 ? total : hr.range(start, total);
            }
          c.nsubiter = last;
        }
      else if (kind == 1 && r > 0)
        {
          const bool scripted = script && r - 1 < static_cast<int>(script->size());
          if (scripted)
            changed = (*script)[r - 1].first;
          while (changed == 0)
            for (unsigned bit = 1; bit <= CH_RESTART; bit <<= 1)
              if (hr.range(0, 3) == 0)
                changed |= bit;
          if (c.par)
            changed &= ~static_cast<unsigned>(CH_PRIOROBJ); // (keep the parsed prior object)
          if (c.prior == 0 || c.prior == 3)
            changed &= ~static_cast<unsigned>(CH_BETA);
          if (changed == 0)
            changed = CH_DATA;
          // the segment range of the objective function: restricted <-> all segments of the data (-1), through the setter
          if (b.pdi->get_max_segment_num() >= 1 && (scripted ? ((*script)[r - 1].first & CH_SEGS) != 0 : hr.range(0, 2) == 0))
            {
              changed |= CH_SEGS;
              c.maxseg = c.maxseg == -1 ? hr.range(0, b.pdi->get_max_segment_num() - 1) : (hr.coin() ? -1 : b.pdi->get_max_segment_num());
            }
          else
            changed &= ~static_cast<unsigned>(CH_SEGS);
          if (changed & CH_ADD)
            c.additive = c.additive ? hr.coin() : true;
          if (changed & CH_NORM)
            c.norm = c.norm ? hr.coin() : true;
          if (changed & CH_NSUB)
            {
              c.nsub = legal_nsub[hr.range(0, static_cast<int>(legal_nsub.size()) - 1)];
              c.start_subset = hr.range(0, c.nsub - 1);
            }
          if (changed & CH_RELAX)
            {
              c.alpha = h_alphas[hr.range(0, 4)];
              c.gamma = h_gammas[hr.range(0, 4)];
              c.ub = h_ubs[hr.range(0, 4)];
            }
          if (changed & CH_BETA)
            c.beta = hr.range(0, 5) == 0 ? 0.F : static_cast<float>(hr.range(1, 48)) / 16.F;
          if (changed & CH_PRIOROBJ)
            {
              const int pk = hr.range(0, 5);
              c.prior = pk == 0 ? 0 : (pk <= 3 ? 1 : 2);
              c.beta = c.prior ? static_cast<float>(hr.range(1, 40)) / 16.F : 0.F;
              c.kappa = c.prior && hr.coin();
              c.weights_kind = c.prior ? hr.range(0, 3) : 0;
            }
          regen(c, b, hr.next(), changed & (CH_DATA | CH_ADD | CH_NORM | CH_INIT | CH_PRIOROBJ));
          if (changed & (CH_DATA | CH_NORM | CH_SEGS))
            valid_d0file.clear();
          if (changed & CH_DMODE)
            {
              dmode = scripted ? (*script)[r - 1].second : hr.range(0, 3);
              if (dmode == 2 && valid_d0file.empty())
                dmode = any_d0file.empty() ? 0 : 3;
              if (dmode == 3 && any_d0file.empty())
                dmode = 1;
            }
          else if (dmode != 1)
            dmode = 0;
          c.denom_ones = dmode == 1;
          if ((changed & CH_RESTART) && prev_last >= 1)
            {
              init_k = hr.range(prev_start, prev_last);
              init_kind = 1;
              start = init_k + 1;
              last = start + hr.range(0, 2);
            }
          else
            last = hr.range(2, 4);
          c.nsubiter = last;
        }
      if (dmode == 2)
        dfile = valid_d0file;
      else if (dmode == 3)
        {
          // a user supplied denominator: 2 * (a denominator file written earlier) + 1
          shared_ptr<T> du = read_from_file<T>(any_d0file);
          for (auto it = du->begin_all(); it != du->end_all(); ++it)
            *it = 2.F * *it + 1.F;
          dfile = pfx + "_userdenominator";
          write_to_file(dfile, *du);
          dfile += ".hv";
        }
      c.prefix = pfx;

      // ---- the start image
      shared_ptr<T> t;
      std::string initfile;
      if (init_kind == 0)
        {
          t.reset(b.img->get_empty_copy());
          unflat(*t, b.init);
        }
      else if (init_kind == 1)
        {
          initfile = prev_prefix + "_" + std::to_string(init_k) + ".hv";
          t = read_from_file<T>(initfile);
          t->set_exam_info(*b.ei);
        }
      else
        t = t_prev;
      const V init_v = flat(*t);
      const std::string init_chars = chars_of(*t);

      // ---- configure the ONE object
      try
        {
          if (r == 0)
            {
              if (c.par)
                {
                  write_to_file(pfx + "_init", *t);
                  initfile = pfx + "_init.hv";
                }
              e = make_engine(c, b, start, c.ep, pfx, dfile, initfile);
              if (c.par)
                t = e.rec->initial();
            }
          else
            {
              if (changed & CH_DATA)
                e.pl->set_proj_data_sptr(b.y);
              if (changed & CH_ADD)
                e.pl->set_additive_proj_data_sptr(c.additive ? shared_ptr<ExamData>(b.a) : shared_ptr<ExamData>());
              if (changed & CH_NORM)
                e.pl->set_normalisation_sptr(c.norm ? shared_ptr<BinNormalisation>(new BinNormalisationFromProjData(b.normdata))
                                                    : shared_ptr<BinNormalisation>(new TrivialBinNormalisation));
              if (changed & CH_NSUB)
                {
                  e.rec->set_num_subsets(c.nsub);
                  e.rec->set_start_subset_num(c.start_subset);
                }
              if (changed & CH_SEGS)
                e.pl->set_max_segment_num_to_process(c.maxseg);
              if (changed & CH_RELAX)
                e.rec->configure(c.alpha, c.gamma, c.ub, c.ep);
              if (changed & CH_PRIOROBJ)
                {
                  e.qprior.reset();
                  e.qp = nullptr;
                  if (c.prior == 1 || c.prior == 2)
                    {
                      e.qprior.reset(new RecPrior(c.weights_kind == 1, c.beta, c.prior == 2));
                      e.qp = e.qprior.get();
                      if (c.kappa)
                        e.qprior->set_kappa_sptr(b.kappa);
                      if (c.weights_kind >= 2)
                        e.qprior->set_weights(b.weights);
                    }
                  e.pl->set_prior_sptr(e.qprior);
                }
              else if (changed & CH_BETA)
                e.qp->set_penalisation_factor(c.beta);
              e.rec->set_num_subiterations(last);
              e.rec->set_start_subiteration_num(start);
              e.rec->set_output_filename_prefix(pfx);
              if (dmode == 0)
                e.rec->use_denominator_computed();
              else if (dmode == 1)
                e.rec->use_denominator_of_ones();
              else
                e.rec->use_denominator_file(dfile);
            }
        }
      catch (std::exception& ex)
        {
          ++oracle_checks;
          ofail(std::string("configuring the object threw: ") + ex.what());
          return;
        }
      e.rec->steps.clear();
      e.rec->finals.clear();
      const std::string d0file = pfx + "_precomputed_denominator.hv";
      std::remove(d0file.c_str());
      Desc D;
      describe_begin(c, b, true, D);
      bool ok = false;
      try
        {
          ok = e.rec->set_up(t) == Succeeded::yes;
        }
      catch (...)
        {}
      if (!ok)
        {
          if (!c.subset_sens && !D.balanced)
            hist["history_refused_unbalanced"]++;
          else
            {
              ++oracle_checks;
              ofail("set_up of the re-used object refused a configuration the property quantifies over");
            }
          return;
        }
      op(std::string(r == 0 ? "cfg" : "recfg") + cfg_line(c, b, D.nvg).substr(3), "ok");
      describe_rest(c, b, e.qp, t, D);
      const Defs& defs = D.defs;
      const bool prior_nonzero = !e.pl->prior_is_zero();
      V sens0mask;
      {
        std::string m;
        for (auto it = e.pl->get_sensitivity().begin_all_const(); it != e.pl->get_sensitivity().end_all_const(); ++it)
          {
            sens0mask.push_back(*it == 0 ? 1.F : 0.F);
            m += (*it == 0 ? '1' : '0');
          }
        op("sens0", m);
      }
      // ---- the denominator set_up left
      const std::string word = r == 0 ? "setup" : "resetup";
      const std::string head = " " + std::to_string(start) + " " + std::to_string(last) + " " + std::to_string(c.ep) + " | " + hv(init_v);
      V d0;
      if (dmode == 1)
        {
          d0.assign(init_v.size(), 1.F);
          op(word + head, "ok | " + hv(flat(*t)) + " | unobserved");
        }
      else if (dmode >= 2)
        {
          shared_ptr<T> rd = read_from_file<T>(dfile);
          d0 = flat(*rd);
          op(word + "f" + head + " | " + init_chars + " | " + chars_of(*rd) + " | " + hv(d0), "ok | " + hv(flat(*t)) + " | unobserved");
          ++oracle_checks;
          if (file_exists(d0file))
            ofail("a denominator was precomputed although `precomputed denominator` names a file");
          hist[dmode == 2 ? "history_runs_with_saved_denominator_file" : "history_runs_with_user_denominator_file"]++;
        }
      else
        {
          // what the property says D0 is for the CURRENT data, through the public API of the objective function
          shared_ptr<T> ones(t->get_empty_copy());
          ones->fill(1.F);
          shared_ptr<T> h(t->get_empty_copy());
          e.pl->add_multiplication_with_approximate_Hessian_without_penalty(*h, *ones);
          V api = flat(*h);
          for (auto& x : api)
            x = -x;
          ++oracle_checks;
          if (!file_exists(d0file))
            {
              ofail("set_up of the re-used object did not recompute (write) the precomputed denominator");
              d0 = api;
            }
          else
            {
              d0 = flat(*read_from_file<T>(d0file));
              if (!same_bits(d0, api))
                ofail("precomputed denominator written by set_up of the re-used object is not minus the approximate Hessian of the "
                      "current objective function on the uniform image");
              valid_d0file = d0file;
              any_d0file = d0file;
            }
          op(word + head, "ok | " + hv(flat(*t)) + " | " + hv(d0));
          op("d0sync | " + hv(d0), "ok");
          ++oracle_checks;
          {
            std::vector<double> dd;
            defs.d0(d0.size(), dd);
            for (std::size_t j = 0; j < d0.size(); ++j)
              if (!(std::fabs(dd[j] - d0[j]) <= 1e-4 * std::fabs(dd[j]) + 1e-30))
                {
                  ofail("re-used object: data part of the denominator of voxel " + std::to_string(j)
                        + " is not sum_b P_bj (P 1)_b / (n_b^2 y_b) for the current data: got " + vh::hex(d0[j]) + " definition " + vh::hex(dd[j]));
                  break;
                }
          }
        }
      // ---- the run
      try
        {
          e.rec->reconstruct(t);
        }
      catch (std::exception& ex)
        {
          ++oracle_checks;
          ofail(std::string("reconstruct of the re-used object threw: ") + ex.what());
          return;
        }
      const std::vector<StepRec> steps = e.rec->steps;
      const std::vector<V> finals = e.rec->finals;
      {
        RunState rs;
        for (std::size_t i = 0; i < steps.size(); ++i)
          {
            emit_step(c, steps[i], d0, start, true, prior_nonzero, rs, sens0mask, defs, i < finals.size() ? &finals[i] : nullptr);
            ++n_steps;
          }
        op("endrun", std::to_string(steps.size()));
        ++oracle_checks;
        if (static_cast<int>(steps.size()) != last - start + 1 || finals.size() != steps.size())
          {
            ofail("re-used object: number of sub-iterations performed " + std::to_string(steps.size()) + " != " + std::to_string(last - start + 1));
            return;
          }
        check_saved(c, pfx, start, finals);
        check_run_outputs(c, pfx, steps, finals);
      }
      ++n_hist_runs;
      hist["history_runs"]++;
      {
        static const char* const names[] = { "data", "additive", "normalisation", "subsets", "relaxation", "prior_factor", "prior_object",
                                             "start_image", "denominator_mode", "restart_from_saved_iterate", "segment_range" };
        int i = 0;
        for (unsigned bit = 1; bit <= CH_SEGS; bit <<= 1, ++i)
          if (changed & bit)
            hist[std::string("history_change_") + names[i]]++;
      }

      // ---- a FRESH object (objective function, prior, reconstruction) configured identically
      {
        Case cf = c;
        cf.par = 0;
        cf.prefix = pfx + "_fresh";
        Engine f = make_engine(cf, b, start, c.ep, cf.prefix, dfile);
        shared_ptr<T> tf;
        if (init_kind == 1)
          {
            tf = read_from_file<T>(initfile);
            tf->set_exam_info(*b.ei);
          }
        else
          {
            tf.reset(b.img->get_empty_copy());
            unflat(*tf, init_v);
          }
        bool okf = false;
        try
          {
            okf = f.rec->set_up(tf) == Succeeded::yes;
            if (okf)
              f.rec->reconstruct(tf);
          }
        catch (...)
          {
            okf = false;
          }
        ++oracle_checks;
        if (!okf)
          ofail("a fresh object refused the configuration the re-used object accepted");
        else
          {
            bool equal = f.rec->finals.size() == finals.size() && f.rec->steps.size() == steps.size();
            int first_diff = -1;
            for (std::size_t i = 0; equal && i < finals.size(); ++i)
              if (!same_bits(f.rec->finals[i], finals[i]) || !same_bits(f.rec->steps[i].after, steps[i].after))
                {
                  equal = false;
                  first_diff = steps[i].k;
                }
            if (equal)
              ++n_hist_equal_fresh;
            else
              ofail("run " + std::to_string(r) + " of the re-used object differs from a fresh object configured identically (first differing "
                    "sub-iteration " + std::to_string(first_diff) + ")");
            if (dmode == 0 && file_exists(d0file) && file_exists(cf.prefix + "_precomputed_denominator.hv"))
              {
                ++oracle_checks;
                if (!same_bits(flat(*read_from_file<T>(d0file)), flat(*read_from_file<T>(cf.prefix + "_precomputed_denominator.hv"))))
                  ofail("run " + std::to_string(r) + ": the precomputed denominator of the re-used object differs from the one of a fresh object");
              }
          }
      }
      // ---- kind 2: the continuation reproduces the uninterrupted run
      if (kind == 2)
        {
          ++oracle_checks;
          bool equal = true;
          int first_diff = -1;
          for (std::size_t i = 0; equal && i < finals.size(); ++i)
            if (start - 1 + static_cast<int>(i) >= static_cast<int>(uninterrupted.size())
                || !same_bits(finals[i], uninterrupted[start - 1 + i]))
              {
                equal = false;
                first_diff = start + static_cast<int>(i);
              }
          if (equal)
            hist["history_resume_by_reuse_equal"]++;
          else
            ofail("run continued by re-using the object differs from the uninterrupted run at sub-iteration " + std::to_string(first_diff)
                  + " (resumed after " + std::to_string(start - 1) + ")");
        }
      t_prev = t;
      prev_prefix = pfx;
      prev_start = start;
      prev_last = last;
    }
}

int
main(int argc, char** argv)
{
  if (argc < 5)
    return 2;
  vh::quiet();
  const uint64_t seed = std::strtoull(argv[1], nullptr, 10);
  vh::Rng rng(seed * 1315423911ULL + 8);
  const bool thorough = std::string(argv[2]) == "thorough";
  ops = std::fopen(argv[3], "w");
  out = std::fopen(argv[4], "w");
  orc = std::fopen((std::string(argv[4]) + ".oracle").c_str(), "w");
  if (!ops || !out || !orc)
    return 2;
  // scratch directory for the files STIR writes (denominator, saved iterates)
  std::string dir = argv[4];
  {
    const std::size_t p = dir.find_last_of('/');
    dir = (p == std::string::npos ? std::string(".") : dir.substr(0, p)) + "/c08";
    ::mkdir(dir.c_str(), 0777);
    dir += std::string("/") + argv[2] + "_" + argv[1];
    ::mkdir(dir.c_str(), 0777);
  }

  const float alphas[] = { 1.F, 0.5F, 1.75F, 2.F, 1.F };
  const float gammas[] = { 0.1F, 0.F, 0.5F, 1.F, 0.25F };
  const double ubs[] = { static_cast<double>(std::numeric_limits<float>::max()), 1.5, 3., 0.75, 8. };

  // what a freshly constructed object is set to (set_defaults)
  {
    Probe fresh;
    g_default_ep = fresh.default_ep();
    op("defaults", fresh.defaults_line());
  }
  const int ngeoms = thorough ? 40 : 6;
  int id = 0;
  std::vector<Case> geoms;
  g_dir = dir;
  // ---- a fixed small case (independent of the seed): 8 detectors x 2 rings, 5x5x3 image of 40 mm voxels whose corners lie
  //      outside the cylindrical FOV (zero sensitivity), 2 subsets, gamma = 0.5, quadratic prior beta = 1, default everything else.
  //      It is the minimal reproduction of the two known candidates (relaxation off by one sub-iteration; resume with prior and
  //      non-identifiable voxels).
  {
    Case c;
    c.id = ++id;
    c.ndet = 8;
    c.nrings = 2;
    c.maxdelta = 1;
    c.ntang = 3;
    c.nxy = 5;
    c.voxel = 40.F;
    c.restrict_fov = true;
    c.nsub = 2;
    c.start_subset = 0;
    c.nsubiter = 4;
    c.alpha = 1.F;
    c.gamma = 0.5F;
    c.ep = 0;
    c.prior = 1;
    c.beta = 1.F;
    c.data_seed = 20260928;
    c.prefix = dir + "/c" + std::to_string(c.id);
    if (!run_case(c, true, true, false))
      {
        ++oracle_checks;
        ofail("the fixed minimal case was refused by set_up");
      }
  }
  for (int gidx = 0; gidx < ngeoms; ++gidx)
    {
      Case g;
      g.ndet = 8 + 2 * rng.range(0, 2);
      g.nrings = rng.range(2, 3);
      g.maxdelta = rng.range(0, g.nrings - 1);
      if (gidx <= 2)
        g.maxdelta = std::max(1, g.maxdelta); // always geometries with more than one segment (restricted segment ranges)
      g.ntang = std::max(3, g.ndet / 2 - 1 - 2 * rng.range(0, 1));
      g.nxy = rng.range(5, 7);
      g.restrict_fov = rng.range(0, 3) != 0;
      // ring radius ~102 mm: image half-width between 0.5 and 1.1 radii
      float half = (0.5F + 0.6F * static_cast<float>(rng.unit())) * 102.F;
      if (gidx == 0)
        {
          g.restrict_fov = true; // always one geometry with non-identifiable corner voxels
          half = 1.05F * 102.F;
        }
      if (gidx == 1)
        {
          g.restrict_fov = false; // and one where every voxel is seen
          half = 0.45F * 102.F;
        }
      g.voxel = 0.25F * static_cast<float>(static_cast<int>(4.F * 2.F * half / g.nxy));
      g.sym90 = rng.coin();
      g.sym180 = rng.coin();
      g.symswapseg = rng.coin();
      g.symswaps = rng.coin();
      g.symz = rng.coin();
      // time of flight: geometry 2 always, others now and then (8 detectors, 5 TOF bins unmashed or 9 mashed by 3)
      if (gidx == 2 || rng.range(0, 5) == 0)
        {
          g.ndet = 8;
          g.ntang = 3;
          g.tofbins = rng.coin() ? 5 : 9;
          g.tofmash = g.tofbins == 9 ? 3 : 1;
        }
      geoms.push_back(g);
      const int V_ = g.ndet / 2;
      // every number of subsets that STIR accepts for this geometry
      for (int ns = 1; ns <= V_; ++ns)
        {
          if (!thorough && ns > 1 && ns < V_ && V_ % ns != 0 && rng.range(0, 1))
            continue;
          const int nvariants = (thorough || (gidx == 0 && ns == 1)) ? 3 : (ns <= 2 ? 2 : 1);
          for (int var = 0; var < nvariants; ++var)
            {
              Case c = g;
              c.id = ++id;
              c.nsub = ns;
              c.start_subset = rng.range(0, ns - 1);
              c.nsubiter = std::min(2 * ns + 1, thorough ? 9 : 6);
              if (ns == 1)
                c.nsubiter = 3;
              const int pi = rng.range(0, 4);
              c.alpha = alphas[pi];
              c.gamma = gammas[rng.range(0, 4)];
              if (var == 0 && c.gamma == 0.F)
                c.gamma = 0.5F;
              c.ub = ubs[rng.range(0, 4)];
              c.ep = rng.range(0, 3) == 0;
              const int pk = rng.range(0, 8);
              c.prior = pk <= 1 ? 0 : (pk <= 5 ? 1 : (pk == 6 ? 2 : (pk == 7 ? 4 : 1)));
              c.beta = c.prior ? static_cast<float>(rng.range(1, 40)) / 16.F : 0.F;
              if (c.prior == 1 && rng.range(0, 9) == 0)
                c.beta = 0.F; // a prior object with penalisation factor 0: prior_is_zero()
              c.kappa = c.prior && rng.coin();
              c.kappa_kind = c.kappa ? rng.range(0, 2) : 0;
              c.weights_kind = c.prior ? rng.range(0, 3) : 0;
              if (c.prior && rng.range(0, 11) == 0)
                c.weights_kind = 4;
              c.lc_scalar = c.prior == 4 ? static_cast<float>(rng.range(1, 12)) / 4.F : 1.F;
              // objective function restricted to fewer segments / TOF bins than the data have
              if (c.maxdelta >= 1 && rng.range(0, 2) == 0)
                c.maxseg = rng.range(0, c.maxdelta - (rng.range(0, 3) == 0 ? 0 : 1));
              if (c.tofbins > 0 && rng.range(0, 2) == 0)
                c.maxtof = rng.range(0, (c.tofbins / c.tofmash) / 2 - (rng.range(0, 3) == 0 ? 0 : 1));
              c.additive = rng.coin();
              c.denom_ones = rng.range(0, 7) == 0 || (gidx == 1 && ns == 2 && var == 0);
              // objective function: normalisation, zeroed end planes, subset sensitivities (TOF is a property of the geometry)
              c.norm = rng.range(0, 2) != 0;
              c.zero_ends = rng.range(0, 2) == 0;
              c.subset_sens = rng.coin();
              c.tofsens = c.tofbins > 0 && rng.coin();
              // reconstruction: filters, randomised subset order
              if (rng.range(0, 3) == 0)
                {
                  c.filt = rng.range(0, 3) == 0 ? 2 : 1;
                  c.filt_interval = rng.range(1, 2);
                }
              if (rng.range(0, 5) == 0)
                c.postfilt = rng.range(0, 2) == 0 ? 2 : 1;
              c.randomise = ns > 1 && rng.range(0, 5) == 0;
              // every run has at least one case of each new kind, whatever the seed
              if (gidx == 0 && ns == 1 && var == 0)
                c.norm = true, c.zero_ends = true, c.subset_sens = false;
              if (gidx == 0 && ns == 2 && var == 1)
                c.randomise = true;
              if (gidx == 1 && ns == 1 && var == 0)
                c.filt = 1, c.filt_interval = 1, c.postfilt = 1;
              if (gidx == 2 && ns == 1 && var == 0)
                c.norm = true, c.tofsens = false;
              if (gidx == 2 && ns == 1 && var == 1)
                c.tofsens = true, c.zero_ends = true;
              if (gidx == 3 && ns == 1 && var == 0)
                c.filt = 2, c.filt_interval = 2, c.postfilt = 0;
              // -- restricted segment range: without prior (D0 / gradient / sensitivity alone) and with a quadratic prior
              if (gidx == 0 && ns == 2 && var == 0)
                c.maxseg = c.maxdelta - 1, c.prior = 0, c.beta = 0.F, c.kappa = false, c.weights_kind = 0, c.denom_ones = false, c.subset_sens = true;
              if (gidx == 1 && ns == 2 && var == 1)
                c.maxseg = 0, c.prior = 1, c.beta = 1.5F, c.denom_ones = false, c.subset_sens = true;
              // -- restricted TOF range: with `use time-of-flight sensitivities` off (the code switches it on) and on
              if (gidx == 2 && ns == 2 && var == 0)
                c.maxtof = 0, c.tofsens = false, c.denom_ones = false, c.subset_sens = true;
              if (gidx == 2 && ns == 2 && var == 1)
                c.maxtof = (c.tofbins / c.tofmash) / 2 - 1, c.maxseg = 0, c.tofsens = true, c.denom_ones = false, c.subset_sens = true;
              // -- voxels that neither the data nor the penalty see (geometry 0 has corner voxels outside the FOV): D = 0 before it
              //    is made positive, with a prior present
              if (gidx == 0 && ns == 1 && var == 1)
                {
                  // quadratic prior, default 3D neighbourhood, kappa differs from voxel to voxel (and plane to plane), 0 outside the FOV
                  c.prior = 1, c.beta = 1.25F, c.kappa = true, c.kappa_kind = 1, c.weights_kind = 0, c.denom_ones = false;
                  c.maxseg = 0;
                }
              if (gidx == 0 && ns == 1 && var == 2)
                // a prior that is present (factor != 0) and penalises nothing: all weights 0
                c.prior = 1, c.beta = 2.F, c.kappa = false, c.kappa_kind = 0, c.weights_kind = 4, c.denom_ones = false, c.maxseg = -1;
              if (gidx == 0 && ns == 2 && var == 1)
                // log-cosh prior, kappa 0 outside the FOV (and in a few other voxels)
                c.prior = 4, c.beta = 1.F, c.lc_scalar = 2.F, c.kappa = true, c.kappa_kind = 2, c.weights_kind = 0, c.denom_ones = false;
              if (gidx == 0 && ns == V_ && var == 0)
                // user weights combined with kappa (zeros outside the FOV), image dependent curvature (recomputed every sub-iteration)
                c.prior = (c.id % 2) ? 1 : 2, c.beta = 0.75F, c.kappa = true, c.kappa_kind = 1, c.weights_kind = 2, c.denom_ones = false,
                c.subset_sens = true;
              c.data_seed = rng.next();
              c.prefix = dir + "/c" + std::to_string(c.id);
              const bool levelB = true;
              const bool restarts = true;
              if (!run_case(c, levelB, restarts, false))
                {
                  --id;
                  hist["rejected_by_stir_ns=" + std::to_string(ns)]++;
                  break;
                }
              hist["ns=" + std::to_string(ns)]++;
              if (c.denom_ones)
                hist["denominator_of_ones"]++;
              hist[std::string("prior=") + (c.prior == 0 ? "none" : c.prior == 1 ? (c.beta == 0 ? "quad-beta0" : "quad") : c.prior == 4 ? "logcosh" : "quaddep")]++;
              if (c.maxseg >= 0 && c.maxseg < c.maxdelta)
                hist["cases_with_restricted_segment_range"]++;
              if (c.maxtof >= 0 && c.tofbins > 0 && c.maxtof < (c.tofbins / c.tofmash) / 2)
                hist["cases_with_restricted_TOF_range"]++;
              if (c.kappa && c.kappa_kind >= 1)
                hist["cases_with_kappa_zero_in_unseen_voxels"]++;
              if (c.prior && c.weights_kind == 4)
                hist["cases_with_all_prior_weights_zero"]++;
            }
        }
    }
  // ---- object re-use histories and parameter files (a random stream of their own: the cases above do not depend on them)
  {
    vh::Rng hrng(seed * 2862933555777941757ULL + 3037000493ULL);
    auto config = [&](const Case& g, bool for_par) {
      Case c = g;
      c.id = ++id;
      const int V_ = c.ndet / 2;
      c.subset_sens = hrng.range(0, 2) != 0;
      std::vector<int> legal;
      for (int ns = 1; ns <= V_; ++ns)
        if (c.subset_sens || V_ % ns == 0)
          legal.push_back(ns);
      c.nsub = legal[hrng.range(0, static_cast<int>(legal.size()) - 1)];
      c.start_subset = hrng.range(0, c.nsub - 1);
      c.nsubiter = hrng.range(2, 4);
      c.alpha = h_alphas[hrng.range(0, 4)];
      c.gamma = h_gammas[hrng.range(0, 4)];
      c.ub = h_ubs[hrng.range(0, 4)];
      c.ep = hrng.range(0, 4) == 0;
      const int pk = hrng.range(0, 7);
      c.prior = pk <= 1 ? 0 : (pk <= 6 ? 1 : 2);
      c.beta = c.prior ? static_cast<float>(hrng.range(1, 40)) / 16.F : 0.F;
      c.kappa = c.prior && hrng.coin();
      c.kappa_kind = c.kappa ? hrng.range(0, 2) : 0;
      c.weights_kind = c.prior ? hrng.range(0, 3) : 0;
      c.maxseg = (c.maxdelta >= 1 && hrng.range(0, 2) == 0) ? hrng.range(0, c.maxdelta - 1) : -1;
      c.maxtof = (c.tofbins > 0 && hrng.range(0, 2) == 0) ? hrng.range(0, (c.tofbins / c.tofmash) / 2 - 1) : -1;
      c.additive = hrng.coin();
      c.denom_ones = hrng.range(0, 9) == 0;
      c.norm = hrng.coin();
      c.zero_ends = hrng.range(0, 3) == 0;
      c.tofsens = c.tofbins > 0 && hrng.coin();
      if (hrng.range(0, 5) == 0)
        {
          c.filt = 1;
          c.filt_interval = hrng.range(1, 2);
        }
      if (for_par)
        {
          // what a parameter file can say (no test doubles, no TOF switch without setter)
          c.tofbins = 0;
          c.tofmash = 1;
          c.tofsens = false;
          c.maxtof = -1;
          if (c.prior == 2)
            c.prior = 1;
          if (c.weights_kind >= 2)
            c.weights_kind = hrng.range(0, 1);
          c.filt = c.postfilt = 0;
          c.filt_interval = 0;
        }
      c.data_seed = hrng.next();
      c.prefix = dir + "/c" + std::to_string(c.id);
      return c;
    };
    const int nh = static_cast<int>(geoms.size());
    // whatever the seed: the denominator file of the first set_up read back by the second run (`precomputed denominator := <file>`)
    // with other relaxation parameters and prior factor, then back to a computed denominator for NEW data;
    // data + normalisation + additive term replaced, then subsets + prior object + start image
    {
      const std::vector<std::pair<unsigned, int>> s1 = { { CH_RELAX | CH_BETA | CH_DMODE, 2 }, { CH_DATA | CH_DMODE, 0 } };
      const std::vector<std::pair<unsigned, int>> s2 = { { CH_DATA | CH_NORM | CH_ADD, 0 }, { CH_NSUB | CH_PRIOROBJ | CH_INIT, 0 } };
      Case c = config(geoms[0], false);
      c.prior = 1, c.beta = 1.25F, c.denom_ones = false;
      run_history(c, 1, 3, &s1);
      c = config(geoms[1 % nh], false);
      c.prior = 1, c.beta = 0.5F, c.denom_ones = false;
      run_history(c, 1, 3, &s2);
      // all segments -> restricted range (the denominator must be recomputed for the restricted objective function, the file of the
      // first set_up is no longer its denominator) -> another range with new data
      const std::vector<std::pair<unsigned, int>> s3 = { { CH_SEGS, 0 }, { CH_SEGS | CH_DATA, 0 } };
      c = config(geoms[0], false);
      c.prior = 1, c.beta = 1.F, c.denom_ones = false, c.maxseg = -1;
      run_history(c, 1, 3, &s3);
      hist["scripted_histories"] += 3;
    }
    for (int gi = 0; gi < nh; ++gi)
     for (int rep = 0; rep < 2; ++rep)
      for (int kind = 0; kind <= 2; ++kind)
        {
          Case c = config(geoms[gi], false);
          if (rep == 1)
            {
              int nruns = kind == 0 ? 2 : (kind == 1 ? 2 + hrng.range(0, 1) : 2 + hrng.range(0, 1));
              run_history(c, kind, nruns);
              continue;
            }
          int nruns = kind == 0 ? 2 + (gi % 2) : (kind == 1 ? 3 - (gi % 2) : 2 + hrng.range(0, 1));
          if (gi == 0 && kind == 0)
            {
              // whatever the seed: three runs of the same configuration with a quadratic prior (the curvature must enter D once)
              c.prior = 1;
              c.beta = 1.5F;
              c.denom_ones = false;
              nruns = 3;
            }
          if (gi == 1 && kind == 1)
            c.prior = 1, c.beta = 0.75F, nruns = 3;
          if (gi == 1 && kind == 2)
            c.prior = 1, c.beta = 2.F, c.denom_ones = false, nruns = 3;
          if (gi == 2 && kind == 2)
            c.prior = 0, c.beta = 0.F;
          if (gi == 3 && kind == 0)
            c.prior = 1, c.beta = 1.F, c.denom_ones = true; // `precomputed denominator := 1` again and again, with a prior
          run_history(c, kind, nruns);
        }
    // ---- the users' path: parameter file -> parse -> set_up -> reconstruct, one configuration per run kind
    //      (uninterrupted run, second reconstruct() without set_up, resumed runs by parameter file with `start at subiteration
    //      number`, `initial estimate := <saved iterate>`, `precomputed denominator := <file>`, refused denominator files; histories)
    for (int pk = 0; pk < (thorough ? 8 : 3); ++pk)
      {
        Case c = config(geoms[pk % nh], true);
        c.par = pk % 2 == 0 ? 2 : 1;
        if (c.par == 2)
          {
            // everything OSSPS specific left to the parser's defaults
            c.alpha = 1.F;
            c.gamma = 0.1F;
            c.ub = static_cast<double>(std::numeric_limits<float>::max());
            c.ep = 0;
            c.start_subset = 0;
            c.denom_ones = false;
            if (pk == 0)
              c.prior = 0, c.beta = 0.F, c.kappa = false, c.nsub = 2, c.nsubiter = 4, c.subset_sens = true,
              c.maxseg = 0; // `maximum absolute segment number to process := 0` on data with more segments
          }
        else
          {
            c.write_update = true;
            if (pk == 1)
              // quadratic prior with a kappa file that has zeros, restricted segment range
              c.prior = 1, c.beta = 1.25F, c.denom_ones = false, c.kappa = true, c.kappa_kind = 2, c.maxseg = c.maxdelta - 1;
          }
        while (pk < 2 && c.id % 3 != 0) // (the second reconstruct() without set_up is run for id % 3 == 0)
          c.id = ++id, c.prefix = dir + "/c" + std::to_string(c.id);
        run_case(c, true, true, false);
        hist["parameter_file_cases"]++;
      }
    for (int pk = 0; pk < (thorough ? 6 : 2); ++pk)
      {
        Case c = config(geoms[(pk + 1) % nh], true);
        c.par = pk % 2 == 0 ? 1 : 2;
        if (c.par == 2)
          {
            c.alpha = 1.F;
            c.gamma = 0.1F;
            c.ub = static_cast<double>(std::numeric_limits<float>::max());
            c.ep = 0;
            c.start_subset = 0;
          }
        if (pk == 0)
          c.prior = 1, c.beta = 1.F, c.denom_ones = false;
        run_history(c, pk % 2 == 0 ? 0 : 1, pk % 2 == 0 ? 2 : 3);
        hist["parameter_file_histories"]++;
      }
  }

  // ---- malformed stream: configurations set_up must refuse
  for (int m = 0; m < 6; ++m)
    {
      Case c;
      c.id = ++id;
      c.ndet = 8;
      c.nrings = 2;
      c.maxdelta = 1;
      c.ntang = 3;
      c.nxy = 5;
      c.voxel = 32.F;
      c.nsub = 1;
      c.nsubiter = 2;
      c.data_seed = rng.next();
      c.prefix = dir + "/c" + std::to_string(c.id);
      if (m == 0)
        c.alpha = 0.F;
      else if (m == 1)
        c.alpha = -1.F;
      else if (m == 2)
        c.gamma = -0.5F;
      else if (m == 3)
        {
          c.prior = 3;
          c.beta = 1.F;
        }
      else if (m == 4)
        c.maxseg = c.maxdelta + 1; // more segments than the data have
      else
        {
          c.tofbins = 5;
          c.maxtof = 3; // more TOF bins than the data have
        }
      run_case(c, false, false, true);
    }

  std::fprintf(orc, "INFO cases=%ld steps=%ld resumes=%ld resumes_bitwise_equal=%ld setup_refused=%ld histories=%ld history_runs_compared=%ld "
                    "history_runs_equal_fresh_object=%ld",
               n_cases, n_steps, n_restarts, n_restart_equal, n_setup_err, n_hist, n_hist_runs, n_hist_equal_fresh);
  for (auto& kv : hist)
    std::fprintf(orc, " %s=%ld", kv.first.c_str(), kv.second);
  std::fprintf(orc, "\n");
  std::fprintf(orc, "ORACLE-DONE checks=%ld fails=%ld\n", oracle_checks, oracle_fails);
  std::fclose(ops);
  std::fclose(out);
  std::fclose(orc);
  return 0;
}
