// C01 — implementation side: detector pairs <-> bins, ring pairs <-> (segment, axial position)
// on the real ProjDataInfoCylindricalNoArcCorr / ProjDataInfoBlocksOnCylindricalNoArcCorr / ProjDataInfoGenericNoArcCorr
// built by ProjDataInfo::construct_proj_data_info (ProjDataInfoCTI) and ProjDataInfo::ProjDataInfoGE, and on the same
// objects after their sampling was changed (reduce_segment_range, set_min/max_ring_difference,
// set_min/max_axial_pos_num, set_min/max_tangential_pos_num, set_num_tangential_poss, set_num_views, clone).
// Usage: c01_geometry <seed> <quick|thorough> <opsfile> <implfile>
#include "stir_fixtures.h"
#include "common.h"
#include "stir/Bin.h"
#include "stir/DetectionPositionPair.h"
#include "stir/ProjDataInfoCylindricalNoArcCorr.h"
#include "stir/ProjDataInfoGenericNoArcCorr.h"
#include "stir/ProjDataInfoBlocksOnCylindricalNoArcCorr.h"
#include "stir/Succeeded.h"
#include <algorithm>
#include <cmath>
#include <cstdarg>
#include <map>
#include <set>
#include <tuple>

using namespace stir;

struct Cfg
{
  int N, R, span, max_delta, views, tof_mash, tof_bins;
  std::string scanner_name; // empty: generated
  std::string geometry;     // "" = Cylindrical, "BlocksOnCylindrical", "Generic"
  bool ge = false;          // ProjDataInfo::ProjDataInfoGE instead of ProjDataInfoCTI
  // generated block scanners: transaxial buckets x blocks per bucket x crystals per block, axial blocks x crystals
  int tb = 0, tbl = 0, tc = 0, ab = 0, ac = 0;
  float gap = 0.F;
};

static FILE *ops, *out, *orc;
static long oracle_checks = 0, oracle_fails = 0;
static std::string scratch; // prefix for scratch files (crystal maps)

static void
oracle_fail(const char* fmt, ...)
{
  ++oracle_fails;
  static long printed = 0; // KNOWN-CANDIDATE lines are counted in oracle_fails too: they must not use up this budget
  if (++printed > 40)
    return;
  va_list ap;
  va_start(ap, fmt);
  std::fprintf(orc, "ORACLE-FAIL ");
  std::vfprintf(orc, fmt, ap);
  std::fprintf(orc, "\n");
  va_end(ap);
}

static std::string
bin_str(const Bin& b)
{
  std::ostringstream s;
  s << b.segment_num() << " " << b.view_num() << " " << b.axial_pos_num() << " " << b.tangential_pos_num() << " "
    << b.timing_pos_num();
  return s.str();
}

typedef std::tuple<int, int, int, int, int> DP;
static std::string
dps_str(std::vector<DP> v)
{
  std::sort(v.begin(), v.end());
  std::ostringstream s;
  for (std::size_t i = 0; i < v.size(); ++i)
    s << (i ? " " : "") << std::get<0>(v[i]) << "," << std::get<1>(v[i]) << "," << std::get<2>(v[i]) << "," << std::get<3>(v[i])
      << "," << std::get<4>(v[i]);
  return s.str();
}

// the Generic/Blocks classes have the same API without the `ignore_non_spatial_dimensions` argument
static void
all_pairs(const ProjDataInfoCylindricalNoArcCorr& p, std::vector<DetectionPositionPair<>>& v, const Bin& b, bool ignore)
{
  p.get_all_det_pos_pairs_for_bin(v, b, ignore);
}
static void
all_pairs(const ProjDataInfoGenericNoArcCorr& p, std::vector<DetectionPositionPair<>>& v, const Bin& b, bool)
{
  p.get_all_det_pos_pairs_for_bin(v, b);
}
static unsigned
num_pairs(const ProjDataInfoCylindricalNoArcCorr& p, const Bin& b, bool ignore)
{
  return p.get_num_det_pos_pairs_for_bin(b, ignore);
}
static unsigned
num_pairs(const ProjDataInfoGenericNoArcCorr& p, const Bin& b, bool)
{
  return p.get_num_det_pos_pairs_for_bin(b);
}
static bool
has_ignore_flag(const ProjDataInfoCylindricalNoArcCorr&)
{
  return true;
}
static bool
has_ignore_flag(const ProjDataInfoGenericNoArcCorr&)
{
  return false;
}

template <class PDI>
static void
emit_segs(PDI* pdi)
{
  std::ostringstream s;
  s << "segs " << pdi->get_min_segment_num() << " :";
  for (int sg = pdi->get_min_segment_num(); sg <= pdi->get_max_segment_num(); ++sg)
    s << " " << pdi->get_min_ring_difference(sg) << "," << pdi->get_max_ring_difference(sg) << "," << pdi->get_num_axial_poss(sg);
  std::fprintf(out, "%s\n", s.str().c_str());
}

// ---- transaxial tables: (view,tang) -> detectors for all entries, all ordered detector pairs -> (view,tang,flag)
template <class PDI>
static void
emit_transaxial(PDI* pdi, int N, bool thorough)
{
  const int mash = pdi->get_view_mashing_factor();
  const int dstride = (N > 128 && !thorough) ? 7 : (N > 400 ? 3 : 1);
  for (int v = 0; v < N / 2; v += dstride)
    for (int tp = -(N / 2) + 1; tp <= N / 2; tp += dstride)
      {
        int d1, d2;
        pdi->get_det_num_pair_for_view_tangential_pos_num(d1, d2, v, tp);
        std::fprintf(ops, "vt %d %d\n", v, tp);
        std::fprintf(out, "%d %d\n", d1, d2);
      }
  // all ordered detector pairs (strided for the largest rings): oracle on the transaxial partition
  std::map<std::pair<int, int>, int> vt_count;
  for (int d1 = 0; d1 < N; d1 += dstride)
    for (int d2 = 0; d2 < N; ++d2)
      {
        if (d1 == d2)
          continue;
        int v, tp;
        const bool keep = pdi->get_view_tangential_pos_num_for_det_num_pair(v, tp, d1, d2);
        if ((d2 % dstride) == 0)
          {
            std::fprintf(ops, "dv %d %d\n", d1, d2);
            std::fprintf(out, "%d %d %d\n", v, tp, keep ? 1 : 0);
          }
        // ORACLE: exchanging the detectors gives the same (view,tang) with the opposite flag
        int v2, tp2;
        const bool keep2 = pdi->get_view_tangential_pos_num_for_det_num_pair(v2, tp2, d2, d1);
        ++oracle_checks;
        if (v != v2 || tp != tp2 || keep == keep2 || v < 0 || v >= N / 2 / mash || tp <= -(N / 2) || tp > N / 2)
          oracle_fail("swap/range N=%d mash=%d d1=%d d2=%d -> (%d,%d,%d) vs (%d,%d,%d)", N, mash, d1, d2, v, tp, keep, v2, tp2, keep2);
        if (keep && dstride == 1)
          vt_count[std::make_pair(v, tp)]++;
      }
  if (dstride == 1)
    {
      // ORACLE: each (view,tang) with |tang| < N/2 receives exactly `mash` unswapped detector pairs
      for (int v = 0; v < N / 2 / mash; ++v)
        for (int tp = -(N / 2) + 1; tp < N / 2; ++tp)
          {
            ++oracle_checks;
            if (vt_count[std::make_pair(v, tp)] != mash)
              oracle_fail("transaxial count N=%d mash=%d view=%d tang=%d count=%d", N, mash, v, tp, vt_count[std::make_pair(v, tp)]);
          }
    }
}

struct AxialResult
{
  bool mismatch = false;       // listed ring pairs != assigned ring pairs for some in-range (segment, axial position)
  bool out_of_range = false;   // a covered ring pair is assigned to an axial position outside the segment's range
  std::set<int> bad_segments;  // segments with a mismatch
  std::set<int> oor_segments;  // segments with an out-of-range assignment
};

// ---- axial tables: every ring pair, every (segment, axial position) of the current sampling
template <class PDI>
static AxialResult
emit_axial(PDI* pdi, int R)
{
  AxialResult res;
  std::map<std::pair<int, int>, std::set<std::pair<int, int>>> assigned;
  for (int r1 = 0; r1 < R; ++r1)
    for (int r2 = 0; r2 < R; ++r2)
      {
        int s, a;
        const bool ok = pdi->get_segment_axial_pos_num_for_ring_pair(s, a, r1, r2) == Succeeded::yes;
        std::fprintf(ops, "rp2sa %d %d\n", r1, r2);
        if (ok)
          {
            std::fprintf(out, "%d %d\n", s, a);
            assigned[std::make_pair(s, a)].insert(std::make_pair(r1, r2));
          }
        else
          std::fprintf(out, "none\n");
        // ORACLE: a ring pair is assigned iff its ring difference is covered by a segment
        ++oracle_checks;
        bool covered = false;
        for (int sg = pdi->get_min_segment_num(); sg <= pdi->get_max_segment_num(); ++sg)
          if (r2 - r1 >= pdi->get_min_ring_difference(sg) && r2 - r1 <= pdi->get_max_ring_difference(sg))
            {
              covered = true;
              // ... and to that segment
              if (ok && s != sg)
                oracle_fail("ring pair (%d,%d) of ring difference %d assigned to segment %d, covered by segment %d", r1, r2, r2 - r1, s, sg);
              break;
            }
        if (covered != ok)
          oracle_fail("ring pair (%d,%d) covered=%d assigned=%d", r1, r2, covered, ok);
      }
  for (int s = pdi->get_min_segment_num(); s <= pdi->get_max_segment_num(); ++s)
    for (int a = pdi->get_min_axial_pos_num(s); a <= pdi->get_max_axial_pos_num(s); ++a)
      {
        const ProjDataInfoCylindrical::RingNumPairs& rps = pdi->get_all_ring_pairs_for_segment_axial_pos_num(s, a);
        std::vector<std::pair<int, int>> v(rps.begin(), rps.end());
        std::sort(v.begin(), v.end());
        std::ostringstream os;
        for (std::size_t i = 0; i < v.size(); ++i)
          os << (i ? " " : "") << v[i].first << "," << v[i].second;
        std::fprintf(ops, "sa2rps %d %d\n", s, a);
        std::fprintf(out, "%s\n", os.str().c_str());
        // ORACLE: listed set == assigned set, no duplicates, count
        ++oracle_checks;
        std::set<std::pair<int, int>> listed(v.begin(), v.end());
        if (listed.size() != v.size() || listed != assigned[std::make_pair(s, a)]
            || pdi->get_num_ring_pairs_for_segment_axial_pos_num(s, a) != v.size())
          {
            res.mismatch = true;
            res.bad_segments.insert(s);
          }
      }
  // ring pairs assigned to an axial position outside the segment's range
  for (auto& kv : assigned)
    {
      const int s = kv.first.first, a = kv.first.second;
      ++oracle_checks;
      if (a < pdi->get_min_axial_pos_num(s) || a > pdi->get_max_axial_pos_num(s))
        {
          res.out_of_range = true;
          res.oor_segments.insert(s);
        }
    }
  return res;
}

// ---- full bins: a seeded sample of detector-position pairs and of the bins they fall into
template <class PDI>
static void
emit_bins(PDI* pdi, vh::Rng& rng, int N, int R, int nsample, bool skip_lists, bool history, long list_budget)
{
  const int mash = pdi->get_view_mashing_factor();
  const int min_t = pdi->get_min_tof_pos_num(), max_t = pdi->get_max_tof_pos_num();
  const int tofm = pdi->get_tof_mash_factor();
  for (int k = 0; k < nsample; ++k)
    {
      DetectionPositionPair<> dp;
      int d1 = rng.range(0, N - 1), d2 = rng.range(0, N - 1);
      if (d1 == d2)
        d2 = (d2 + 1 + rng.range(0, N - 2)) % N;
      const int r1 = rng.range(0, R - 1), r2 = rng.range(0, R - 1);
      const int t = tofm == 0 ? 0 : rng.range(min_t * tofm - tofm / 2, max_t * tofm + tofm / 2);
      dp.pos1().tangential_coord() = d1;
      dp.pos1().axial_coord() = r1;
      dp.pos2().tangential_coord() = d2;
      dp.pos2().axial_coord() = r2;
      dp.timing_pos() = t;
      Bin b;
      const bool ok = pdi->get_bin_for_det_pos_pair(b, dp) == Succeeded::yes;
      std::fprintf(ops, "d2b %d %d %d %d %d\n", d1, r1, d2, r2, t);
      std::fprintf(out, "%s\n", ok ? bin_str(b).c_str() : "none");
      if (!ok)
        continue;
      const bool in_range = b.segment_num() >= pdi->get_min_segment_num() && b.segment_num() <= pdi->get_max_segment_num()
                            && b.axial_pos_num() >= pdi->get_min_axial_pos_num(b.segment_num())
                            && b.axial_pos_num() <= pdi->get_max_axial_pos_num(b.segment_num())
                            && b.tangential_pos_num() >= pdi->get_min_tangential_pos_num()
                            && b.tangential_pos_num() <= pdi->get_max_tangential_pos_num() && b.view_num() >= pdi->get_min_view_num()
                            && b.view_num() <= pdi->get_max_view_num();
      if (history)
        {
          std::fprintf(ops, "inr %s\n", bin_str(b).c_str());
          std::fprintf(out, "%d\n", in_range ? 1 : 0);
        }
      if (skip_lists)
        continue;
      // ORACLE: exchanging the two detectors gives the same spatial bin with the TOF index negated
      DetectionPositionPair<> dps(dp);
      dps.pos1() = dp.pos2();
      dps.pos2() = dp.pos1();
      dps.timing_pos() = -t;
      Bin bs;
      ++oracle_checks;
      if (pdi->get_bin_for_det_pos_pair(bs, dps) != Succeeded::yes || !(bs == b))
        oracle_fail("swapped pair gives another bin: %d %d %d %d %d", d1, r1, d2, r2, t);
      if (!in_range)
        continue;
      // the bin's own list
      const unsigned reported = num_pairs(*pdi, b, false);
      if (tofm > 0 && tofm % 2 == 0)
        {
          // even TOF mashing factor: the unchanged get_all_det_pos_pairs_for_bin(.., false) writes tofm+1 timing positions
          // per spatial pair into a vector sized for tofm (only an assert guards it), so it is called only when the
          // library reports tofm-1 timing positions for the central TOF bin (i.e. follows get_bin_for_det_pos_pair);
          // the reported count is compared with the number of unmashed timing positions that are assigned to the bin
          const unsigned reported0 = num_pairs(*pdi, b, true);
          std::set<int> assigned_ts;
          for (int tt = t - 2 * tofm; tt <= t + 2 * tofm; ++tt)
            {
              DetectionPositionPair<> q(dp);
              q.timing_pos() = tt;
              Bin bq;
              if (pdi->get_bin_for_det_pos_pair(bq, q) == Succeeded::yes && bq == b)
                assigned_ts.insert(tt);
            }
          ++oracle_checks;
          if (reported0 == 0 || reported != reported0 * assigned_ts.size())
            {
              ++oracle_fails;
              static int shown = 0;
              if (shown++ < 3)
                std::fprintf(orc, "KNOWN-CANDIDATE tofmash:even-factor even TOF mashing factor %d: get_num_det_pos_pairs_for_bin reports %u unmashed timing positions per spatial pair for TOF bin %d while get_bin_for_det_pos_pair (round half away from zero) assigns %zu to it; get_all_det_pos_pairs_for_bin is not called: it would write factor+1 entries per spatial pair into a vector sized for factor (guarded by an assert only)\n",
                             tofm, reported0 ? reported / reported0 : 0, b.timing_pos_num(), assigned_ts.size());
              continue;
            }
          Bin b0(b);
          b0.timing_pos_num() = 0;
          if (num_pairs(*pdi, b0, false) != num_pairs(*pdi, b0, true) * (unsigned)(tofm - 1))
            continue;
          // ORACLE only (the Lean model transcribes the unchanged code): the list is exactly spatial pairs x assigned timing positions
          std::vector<DetectionPositionPair<>> all, all0;
          all_pairs(*pdi, all, b, false);
          all_pairs(*pdi, all0, b, true);
          std::set<DP> got, want;
          for (auto& q : all)
            got.insert(DP(q.pos1().tangential_coord(), q.pos1().axial_coord(), q.pos2().tangential_coord(), q.pos2().axial_coord(), q.timing_pos()));
          const bool dp_listed_as_is = [&] {
            for (auto& q : all0)
              if (q.pos1() == dp.pos1() && q.pos2() == dp.pos2())
                return true;
            return false;
          }();
          for (auto& q : all0)
            for (int tt : assigned_ts)
              want.insert(DP(q.pos1().tangential_coord(), q.pos1().axial_coord(), q.pos2().tangential_coord(), q.pos2().axial_coord(), dp_listed_as_is ? tt : -tt));
          ++oracle_checks;
          if (got != want || all.size() != reported || got.size() != all.size())
            oracle_fail("even TOF mashing factor %d: bin list inexact (n=%zu distinct=%zu expected=%zu reported=%u) bin %s", tofm, all.size(), got.size(), want.size(), reported,
                        bin_str(b).c_str());
          continue;
        }
      if (reported > list_budget)
        continue;
      list_budget -= reported;
      if (has_ignore_flag(*pdi))
        {
          // the list function sizes its output with the reported count: check the count before calling it
          ++oracle_checks;
          if ((long)num_pairs(*pdi, b, true) * std::max(1, tofm) != (long)reported)
            {
              oracle_fail("reported counts inconsistent: %u with TOF, %u spatial, TOF mashing factor %d, bin %s", reported, num_pairs(*pdi, b, true), tofm, bin_str(b).c_str());
              continue;
            }
        }
      std::vector<DetectionPositionPair<>> all;
      all_pairs(*pdi, all, b, false);
      std::vector<DP> lst;
      bool found = false, sound = true;
      for (auto& q : all)
        {
          lst.push_back(DP(q.pos1().tangential_coord(), q.pos1().axial_coord(), q.pos2().tangential_coord(), q.pos2().axial_coord(), q.timing_pos()));
          Bin bq;
          if (pdi->get_bin_for_det_pos_pair(bq, q) != Succeeded::yes || !(bq == b))
            sound = false;
          if ((q.pos1() == dp.pos1() && q.pos2() == dp.pos2() && q.timing_pos() == t)
              || (q.pos1() == dp.pos2() && q.pos2() == dp.pos1() && q.timing_pos() == -t))
            found = true;
        }
      std::fprintf(ops, "pairs %s\n", bin_str(b).c_str());
      std::fprintf(out, "%u | %s\n", reported, dps_str(lst).c_str());
      ++oracle_checks;
      std::set<DP> uniq(lst.begin(), lst.end());
      if (!found || !sound || uniq.size() != lst.size() || lst.size() != reported)
        oracle_fail("bin list inexact (found=%d sound=%d n=%zu reported=%u) for pair %d %d %d %d %d bin %s", found, sound, lst.size(),
                    reported, d1, r1, d2, r2, t, bin_str(b).c_str());
      // the spatial list (ignore_non_spatial_dimensions = true): one entry per unmashed view and ring pair, with its own count
      if (has_ignore_flag(*pdi))
        {
          const unsigned reported0 = num_pairs(*pdi, b, true);
          std::vector<DetectionPositionPair<>> all0;
          all_pairs(*pdi, all0, b, true);
          std::vector<DP> lst0;
          std::set<std::tuple<int, int, int, int>> spatial0, spatial;
          bool sound0 = true;
          for (auto& q : all0)
            {
              lst0.push_back(DP(q.pos1().tangential_coord(), q.pos1().axial_coord(), q.pos2().tangential_coord(), q.pos2().axial_coord(), q.timing_pos()));
              spatial0.insert(std::make_tuple((int)q.pos1().tangential_coord(), (int)q.pos1().axial_coord(), (int)q.pos2().tangential_coord(), (int)q.pos2().axial_coord()));
              Bin bq;
              if (pdi->get_bin_for_det_pos_pair(bq, q) != Succeeded::yes || bq.segment_num() != b.segment_num() || bq.view_num() != b.view_num()
                  || bq.axial_pos_num() != b.axial_pos_num() || bq.tangential_pos_num() != b.tangential_pos_num())
                sound0 = false;
            }
          for (auto& q : lst)
            spatial.insert(std::make_tuple(std::get<0>(q), std::get<1>(q), std::get<2>(q), std::get<3>(q)));
          std::fprintf(ops, "pairs0 %s\n", bin_str(b).c_str());
          std::fprintf(out, "%u | %s\n", reported0, dps_str(lst0).c_str());
          // ORACLE: reported spatial count = size of the spatial list = number of distinct spatial pairs of the full list;
          // full count = spatial count x TOF mashing factor; the spatial parts agree; every entry falls into the bin's spatial part
          ++oracle_checks;
          if (lst0.size() != reported0 || spatial0.size() != lst0.size() || spatial0 != spatial || !sound0
              || (long)reported0 * std::max(1, tofm) != (long)reported)
            oracle_fail("spatial bin list inexact (n0=%zu reported0=%u distinct0=%zu distinct=%zu reported=%u tofmash=%d sound=%d) bin %s", lst0.size(),
                        reported0, spatial0.size(), spatial.size(), reported, tofm, sound0, bin_str(b).c_str());
        }
      // uncompressed: bin -> pair -> bin
      if (pdi->get_min_ring_difference(b.segment_num()) == pdi->get_max_ring_difference(b.segment_num()) && mash == 1 && tofm <= 1)
        {
          DetectionPositionPair<> back;
          pdi->get_det_pos_pair_for_bin(back, b);
          Bin b2;
          std::fprintf(ops, "b2d %s\n", bin_str(b).c_str());
          std::fprintf(out, "%d %d %d %d %d\n", (int)back.pos1().tangential_coord(), (int)back.pos1().axial_coord(), (int)back.pos2().tangential_coord(),
                       (int)back.pos2().axial_coord(), (int)back.timing_pos());
          ++oracle_checks;
          if (pdi->get_bin_for_det_pos_pair(b2, back) != Succeeded::yes || !(b2 == b))
            oracle_fail("uncompressed bin->pair->bin not identity for bin %s", bin_str(b).c_str());
        }
    }
}

// user-defined scanner made of blocks: tb transaxial buckets of tbl blocks of tc crystals, one axial bucket of ab blocks of ac crystals
static shared_ptr<Scanner>
make_block_scanner(const Cfg& c, const std::string& geometry, const std::string& crystal_map)
{
  const int N = c.tb * c.tbl * c.tc, R = c.ab * c.ac;
  const float cs = 2.F;                                     // crystal spacing
  const float tbs = c.tc * cs + c.gap, abs_ = c.ac * cs + c.gap; // block spacings
  // the blocks of one bucket form one side of a regular polygon with tb sides around the inner radius
  const float side = tbs * c.tbl;
  const float radius = static_cast<float>(side / (2 * std::tan(_PI / c.tb)));
  shared_ptr<Scanner> s(new Scanner(Scanner::User_defined_scanner,
                                    std::string("verif_blocks"),
                                    N,
                                    R,
                                    std::max(1, N / 2 - 1),
                                    std::max(1, N / 2 - 1),
                                    radius,
                                    /*average_depth_of_interaction*/ 1.F,
                                    /*ring_spacing*/ abs_ * c.ab / R,
                                    /*bin_size*/ 1.F,
                                    /*intrinsic_tilt*/ 0.F,
                                    c.ab,
                                    c.tbl,
                                    c.ac,
                                    c.tc,
                                    1,
                                    1,
                                    1,
                                    0.1F,
                                    511.F,
                                    /*max_num_of_timing_poss*/ static_cast<short>(1),
                                    0.F,
                                    0.F,
                                    geometry,
                                    /*axial_crystal_spacing*/ cs,
                                    /*transaxial_crystal_spacing*/ cs,
                                    /*axial_block_spacing*/ abs_,
                                    /*transaxial_block_spacing*/ tbs,
                                    crystal_map));
  return s;
}

static shared_ptr<Scanner>
make_cfg_scanner(const Cfg& c, bool& refused)
{
  refused = false;
  shared_ptr<Scanner> scanner;
  if (c.tb > 0)
    {
      // generated block scanner; "Generic": the same detector positions read back from a crystal map file
      scanner = make_block_scanner(c, "BlocksOnCylindrical", "");
      if (c.geometry == "Generic")
        {
          const std::string fn = scratch + ".crystalmap";
          {
            std::ofstream f(fn.c_str());
            f << "# ax,tang,z,y,x\n";
            for (int a = 0; a < scanner->get_num_rings(); ++a)
              for (int t = 0; t < scanner->get_num_detectors_per_ring(); ++t)
                {
                  const CartesianCoordinate3D<float> p = scanner->get_coordinate_for_det_pos(DetectionPosition<>(t, a, 0));
                  char buf[200];
                  std::snprintf(buf, sizeof buf, "%d,%d,%.6f,%.6f,%.6f\n", a, t, p.z(), p.y(), p.x());
                  f << buf;
                }
          }
          scanner = make_block_scanner(c, "Generic", fn);
        }
      return scanner;
    }
  if (!c.scanner_name.empty())
    scanner.reset(Scanner::get_scanner_from_name(c.scanner_name));
  else
    scanner = vh::make_scanner(c.N, c.R, c.tof_bins);
  if (!c.geometry.empty())
    {
      try
        {
          scanner->set_scanner_geometry(c.geometry);
          scanner->set_up();
        }
      catch (...)
        {
          // a predefined cylindrical scanner without block spacings: Scanner::check_consistency documents the refusal
          // ("BlocksOnCylindrical geometry needs the block and bucket info to be set" / "inconsistent ... spacing")
          refused = true;
        }
    }
  return scanner;
}

static shared_ptr<ProjDataInfo>
construct(const Cfg& c, const shared_ptr<Scanner>& scanner, int num_tang)
{
  if (c.ge)
    return shared_ptr<ProjDataInfo>(ProjDataInfo::ProjDataInfoGE(scanner, c.max_delta, c.views, num_tang, false, c.tof_mash));
  return vh::make_pdi(scanner, c.span, c.max_delta, c.views, num_tang, false, c.tof_mash);
}

static void
emit_cfg(const Cfg& c, int N, int R)
{
  if (c.ge)
    std::fprintf(ops, "cfgge %d %d %d %d %d\n", N, R, c.max_delta, c.views, c.tof_mash);
  else
    std::fprintf(ops, "cfg %d %d %d %d %d %d\n", N, R, c.span, c.max_delta, c.views, c.tof_mash);
}

// class of the known finding: only outermost segments, clipped by max_delta to ONE ring difference d
// while span > 1, with (num_rings - 1 - |d|) odd
template <class PDI>
static bool
in_known_class(const Cfg& c, PDI* pdi, int R, const std::set<int>& bad_segments, int max_seg_at_construction)
{
  bool in_class = c.span > 1 && !c.ge;
  for (int s : bad_segments)
    {
      const int d = pdi->get_min_ring_difference(s);
      if (!(std::abs(s) == max_seg_at_construction && pdi->get_min_ring_difference(s) == pdi->get_max_ring_difference(s)
            && std::abs(d) == c.max_delta && (R - 1 - std::abs(d)) % 2 != 0))
        in_class = false;
    }
  return in_class;
}

template <class PDI>
static void run_cfg_t(const Cfg& c, vh::Rng& rng, bool thorough, PDI* pdi, int N, int R);

static void
run_cfg(const Cfg& c, vh::Rng& rng, bool thorough)
{
  bool refused;
  shared_ptr<Scanner> scanner = make_cfg_scanner(c, refused);
  if (refused)
    {
      // only a cylindrical scanner without block information may be refused
      ++oracle_checks;
      if (c.scanner_name != "ECAT 953")
        oracle_fail("scanner %s refused geometry %s", c.scanner_name.c_str(), c.geometry.c_str());
      return;
    }
  const int N = scanner->get_num_detectors_per_ring();
  const int R = scanner->get_num_rings();
  emit_cfg(c, N, R);
  shared_ptr<ProjDataInfo> pdi0;
  const int num_tang = std::max(1, std::min(N / 2 - 1, scanner->get_max_num_non_arccorrected_bins()));
  try
    {
      pdi0 = construct(c, scanner, num_tang);
    }
  catch (...)
    {
      std::fprintf(out, "err\n");
      return;
    }
  if (auto* cyl = dynamic_cast<ProjDataInfoCylindricalNoArcCorr*>(pdi0.get()))
    {
      if (!c.geometry.empty())
        oracle_fail("geometry %s gave a ProjDataInfoCylindricalNoArcCorr", c.geometry.c_str());
      run_cfg_t(c, rng, thorough, cyl, N, R);
    }
  else if (auto* gen = dynamic_cast<ProjDataInfoGenericNoArcCorr*>(pdi0.get()))
    {
      ++oracle_checks;
      const bool is_blocks = dynamic_cast<ProjDataInfoBlocksOnCylindricalNoArcCorr*>(pdi0.get()) != 0;
      if ((c.geometry == "BlocksOnCylindrical") != is_blocks)
        oracle_fail("geometry %s gave the wrong ProjDataInfo class", c.geometry.c_str());
      run_cfg_t(c, rng, thorough, gen, N, R);
      // view mashing is documented as unsupported by these classes: the constructor must refuse it
      if (N % 4 == 0)
        {
          ++oracle_checks;
          bool threw = false;
          try
            {
              Cfg c2(c);
              c2.views = N / 4;
              construct(c2, scanner, num_tang);
            }
          catch (...)
            {
              threw = true;
            }
          if (!threw)
            oracle_fail("Blocks/Generic ProjDataInfo accepted view mashing (N=%d views=%d)", N, N / 4);
        }
    }
  else
    std::fprintf(out, "err\n");
}

template <class PDI>
static void
run_cfg_t(const Cfg& c, vh::Rng& rng, bool thorough, PDI* pdi, int N, int R)
{
  emit_segs(pdi);
  std::fprintf(ops, "ntang %d\n", pdi->get_num_tangential_poss());
  std::fprintf(out, "%d %d\n", pdi->get_min_tangential_pos_num(), pdi->get_max_tangential_pos_num());
  emit_transaxial(pdi, N, thorough);
  const AxialResult ax = emit_axial(pdi, R);
  const bool axial_mismatch = ax.mismatch || ax.out_of_range;
  std::fprintf(ops, "wf\n");
  std::fprintf(out, "%d\n", axial_mismatch ? 0 : 1);
  if (axial_mismatch)
    {
      ++oracle_fails;
      std::set<int> bad(ax.bad_segments);
      bad.insert(ax.oor_segments.begin(), ax.oor_segments.end());
      if (in_known_class(c, pdi, R, bad, pdi->get_max_segment_num()))
        std::fprintf(orc, "KNOWN-CANDIDATE ringpairs:outermost-segment-clipped-to-single-ring-difference-of-odd-parity ring pairs of the clipped outermost segment are assigned to axial positions by truncating division while get_all_ring_pairs_for_segment_axial_pos_num lists none (first seen: rings=%d span=%d max_delta=%d)\n",
                     R, c.span, c.max_delta);
      else
        std::fprintf(orc, "KNOWN-CANDIDATE ringpairs:R=%d:span=%d:maxdelta=%d:ge=%d ring pairs assigned to (segment,axial pos) differ from the lists reported by get_all_ring_pairs_for_segment_axial_pos_num\n",
                     R, c.span, c.max_delta, c.ge ? 1 : 0);
    }
  emit_bins(pdi, rng, N, R, thorough ? 3000 : 600, axial_mismatch, false, thorough ? 400000 : 60000);
}

// ---- history: the lazily built tables must follow the sampling, whatever was in force when they were built
struct History
{
  const Cfg& c;
  vh::Rng& rng;
  int N, R;
  int max_seg0;            // largest segment number at construction
  std::set<int> touched;   // segments whose ring differences / axial range were changed by a setter
  bool clipped = false;    // an axial range was shortened, or ring differences were added: ring pairs may fall outside the axial range

  void emit_state(ProjDataInfoCylindricalNoArcCorr& q)
  {
    std::ostringstream s;
    s << q.get_min_segment_num() << " :";
    for (int sg = q.get_min_segment_num(); sg <= q.get_max_segment_num(); ++sg)
      s << " " << q.get_min_ring_difference(sg) << "," << q.get_max_ring_difference(sg) << "," << q.get_min_axial_pos_num(sg) << ","
        << q.get_max_axial_pos_num(sg);
    s << " | tang " << q.get_min_tangential_pos_num() << " " << q.get_max_tangential_pos_num() << " | mash " << q.get_view_mashing_factor();
    std::fprintf(ops, "state\n");
    std::fprintf(out, "%s\n", s.str().c_str());
  }

  // does the rebuild of the lazy tables succeed?
  bool emit_init(ProjDataInfoCylindricalNoArcCorr& q)
  {
    bool ok = true;
    try
      {
        (void)q.get_m(Bin(q.get_min_segment_num(), 0, 0, 0));
      }
    catch (...)
      {
        ok = false;
      }
    std::fprintf(ops, "init\n");
    std::fprintf(out, "%s\n", ok ? "ok" : "err");
    return ok;
  }

  // the tables cannot be built: ring pairs outside the outermost ring differences are still answered, the others raise the error
  void probe_error_state(ProjDataInfoCylindricalNoArcCorr& q)
  {
    for (int k = 0; k < 12; ++k)
      {
        const int r1 = rng.range(0, R - 1), r2 = rng.range(0, R - 1);
        std::fprintf(ops, "rp2sa %d %d\n", r1, r2);
        try
          {
            int s, a;
            if (q.get_segment_axial_pos_num_for_ring_pair(s, a, r1, r2) == Succeeded::yes)
              std::fprintf(out, "%d %d\n", s, a);
            else
              std::fprintf(out, "none\n");
          }
        catch (...)
          {
            std::fprintf(out, "err\n");
          }
      }
  }

  // all ordered detector pairs: (view,tang,flag), and every in-range (view,tang) collects `mash` unswapped pairs, each listed by its bin
  void check_transaxial(ProjDataInfoCylindricalNoArcCorr& q)
  {
    const int mash = q.get_view_mashing_factor();
    std::map<std::pair<int, int>, int> vt_count;
    const int stride = N > 48 ? 5 : 1;
    for (int d1 = 0; d1 < N; ++d1)
      for (int d2 = 0; d2 < N; ++d2)
        {
          if (d1 == d2)
            continue;
          int v, tp;
          const bool keep = q.get_view_tangential_pos_num_for_det_num_pair(v, tp, d1, d2);
          if ((d1 * N + d2) % 7 == 0)
            {
              std::fprintf(ops, "dv %d %d\n", d1, d2);
              std::fprintf(out, "%d %d %d\n", v, tp, keep ? 1 : 0);
            }
          ++oracle_checks;
          if (v < 0 || v >= q.get_num_views() || tp <= -(N / 2) || tp > N / 2)
            {
              oracle_fail("after changing the sampling (views=%d) detector pair (%d,%d) has view %d tang %d", q.get_num_views(), d1, d2, v, tp);
              continue;
            }
          if (keep)
            vt_count[std::make_pair(v, tp)]++;
          if (tp < q.get_min_tangential_pos_num() || tp > q.get_max_tangential_pos_num() || ((d1 + d2) % stride) != 0)
            continue;
          // ORACLE: the bin found for a pair lists that pair (or its exchange) among its own pairs
          DetectionPositionPair<> dp;
          dp.pos1().tangential_coord() = d1;
          dp.pos2().tangential_coord() = d2;
          dp.pos1().axial_coord() = 0;
          dp.pos2().axial_coord() = 0;
          dp.timing_pos() = 0;
          Bin b;
          if (q.get_bin_for_det_pos_pair(b, dp) != Succeeded::yes || b.segment_num() < q.get_min_segment_num() || b.segment_num() > q.get_max_segment_num()
              || b.axial_pos_num() < q.get_min_axial_pos_num(b.segment_num()) || b.axial_pos_num() > q.get_max_axial_pos_num(b.segment_num()))
            continue;
          std::vector<DetectionPositionPair<>> all;
          q.get_all_det_pos_pairs_for_bin(all, b, true);
          bool found = false;
          for (auto& x : all)
            if ((x.pos1() == dp.pos1() && x.pos2() == dp.pos2()) || (x.pos1() == dp.pos2() && x.pos2() == dp.pos1()))
              found = true;
          ++oracle_checks;
          if (!found && !touched.count(b.segment_num()))
            oracle_fail("after changing the sampling (views=%d tang=%d..%d) the bin %s of detector pair (%d,%d) in ring 0 does not list the pair", q.get_num_views(),
                        q.get_min_tangential_pos_num(), q.get_max_tangential_pos_num(), bin_str(b).c_str(), d1, d2);
        }
    for (int v = 0; v < q.get_num_views(); ++v)
      for (int tp = std::max(q.get_min_tangential_pos_num(), -(N / 2) + 1); tp <= std::min(q.get_max_tangential_pos_num(), N / 2 - 1); ++tp)
        {
          ++oracle_checks;
          if (vt_count[std::make_pair(v, tp)] != mash)
            oracle_fail("after changing the sampling: transaxial count N=%d mash=%d view=%d tang=%d count=%d", N, mash, v, tp, vt_count[std::make_pair(v, tp)]);
        }
  }

  // everything the property states, on the current sampling of q
  void check(ProjDataInfoCylindricalNoArcCorr& q, int nbins)
  {
    emit_state(q);
    if (!emit_init(q))
      {
        oracle_fail("the lazy tables cannot be built for a sampling the generator considers legal");
        return;
      }
    check_transaxial(q);
    const AxialResult ax = emit_axial(&q, R);
    std::fprintf(ops, "wfh\n");
    std::fprintf(out, "%d\n", ax.mismatch ? 0 : 1);
    // out-of-range assignments are what shortening an axial range means; for segments no setter touched they are a defect
    std::set<int> bad(ax.bad_segments);
    if (!clipped)
      bad.insert(ax.oor_segments.begin(), ax.oor_segments.end());
    else
      for (int s : ax.oor_segments)
        if (!touched.count(s))
          bad.insert(s);
    if (!bad.empty())
      {
        ++oracle_fails;
        bool untouched = true, parity = true;
        for (int s : bad)
          {
            if (touched.count(s))
              untouched = false;
            // the library's own "LORs shifted with respect to the physical rings" condition
            const int d = q.get_min_ring_difference(s);
            const int off = (R - 1) - (q.get_max_axial_pos_num(s) + q.get_min_axial_pos_num(s));
            if (!(d == q.get_max_ring_difference(s) && (d - off) % 2 != 0))
              parity = false;
          }
        if (untouched && in_known_class(c, &q, R, bad, max_seg0))
          std::fprintf(orc, "KNOWN-CANDIDATE ringpairs:outermost-segment-clipped-to-single-ring-difference-of-odd-parity ring pairs of the clipped outermost segment are assigned to axial positions by truncating division while get_all_ring_pairs_for_segment_axial_pos_num lists none (first seen: rings=%d span=%d max_delta=%d, after changing the sampling)\n",
                       R, c.span, c.max_delta);
        else if (!untouched && parity)
          std::fprintf(orc, "KNOWN-CANDIDATE ringpairs:setters-leave-single-ring-difference-segment-with-axial-range-of-odd-parity after set_min/max_axial_pos_num or set_min/max_ring_difference a segment consists of ONE ring difference d with (d - (num_rings-1) + min_axial_pos+max_axial_pos) odd: ring pairs are assigned to axial positions by truncating division while get_all_ring_pairs_for_segment_axial_pos_num lists none (library only warns 'LORs shifted') (first seen: rings=%d span=%d max_delta=%d ge=%d)\n",
                       R, c.span, c.max_delta, c.ge ? 1 : 0);
        else
          {
            std::ostringstream s;
            for (int x : bad)
              s << " " << x << "[" << q.get_min_ring_difference(x) << "," << q.get_max_ring_difference(x) << ";" << q.get_min_axial_pos_num(x) << ","
                << q.get_max_axial_pos_num(x) << "]";
            std::fprintf(orc, "ORACLE-FAIL after changing the sampling the ring pairs assigned to (segment, axial pos) differ from the lists of get_all_ring_pairs_for_segment_axial_pos_num: rings=%d span=%d max_delta=%d ge=%d segments%s\n",
                         R, c.span, c.max_delta, c.ge ? 1 : 0, s.str().c_str());
          }
      }
    emit_bins(&q, rng, N, R, nbins, !bad.empty() || ax.mismatch, true, 4000);
  }

  // how to undo a setter call
  struct Undo
  {
    int kind = 0; // 1 min_rd, 2 max_rd, 3 min_ax, 4 max_ax
    int s = 0, old = 0;
  };

  void apply_undo(ProjDataInfoCylindricalNoArcCorr& q, const Undo& u)
  {
    const char* names[] = { "", "setminrd", "setmaxrd", "setminax", "setmaxax" };
    switch (u.kind)
      {
      case 1:
        q.set_min_ring_difference(u.old, u.s);
        break;
      case 2:
        q.set_max_ring_difference(u.old, u.s);
        break;
      case 3:
        q.set_min_axial_pos_num(u.old, u.s);
        break;
      case 4:
        q.set_max_axial_pos_num(u.old, u.s);
        break;
      default:
        return;
      }
    std::fprintf(ops, "%s %d %d\n", names[u.kind], u.s, u.old);
    std::fprintf(out, "ok\n");
  }

  // one random change of the sampling (sorted, disjoint ring-difference ranges are kept); returns false when nothing was changed
  bool mutate(ProjDataInfoCylindricalNoArcCorr& q, Undo& undo)
  {
    const int lo = q.get_min_segment_num(), hi = q.get_max_segment_num();
    const int kind = rng.range(0, 9);
    if (kind <= 1)
      {
        // set_num_views: all view counts that divide N/2
        std::vector<int> vs;
        for (int d = 1; d <= N / 2; ++d)
          if ((N / 2) % d == 0)
            vs.push_back(N / 2 / d);
        const int nv = vs[rng.range(0, (int)vs.size() - 1)];
        q.set_num_views(nv);
        std::fprintf(ops, "setviews %d\n", nv);
        std::fprintf(out, "ok\n");
        return true;
      }
    if (kind == 2)
      {
        if (lo == hi)
          return false;
        // reduce_segment_range: mostly symmetric (what the utilities do), sometimes any sub-range
        int a, b;
        if (rng.range(0, 2) != 0 && -lo == hi)
          {
            b = rng.range(0, hi - 1);
            a = -b;
          }
        else
          {
            a = rng.range(lo, hi);
            b = rng.range(a, hi);
          }
        q.reduce_segment_range(a, b);
        std::fprintf(ops, "redseg %d %d\n", a, b);
        std::fprintf(out, "ok\n");
        return true;
      }
    if (kind <= 5)
      {
        // ring differences of one segment: shrink, or grow into ring differences no segment covers
        const int s = rng.range(lo, hi);
        const int mn = q.get_min_ring_difference(s), mx = q.get_max_ring_difference(s);
        const bool upper = rng.coin();
        int v;
        if (rng.range(0, 3) == 0)
          {
            v = upper ? mx + 1 : mn - 1;
            const int limit = upper ? (s < hi ? q.get_min_ring_difference(s + 1) - 1 : R - 1) : (s > lo ? q.get_max_ring_difference(s - 1) + 1 : -(R - 1));
            if (upper ? v > limit : v < limit)
              return false;
            clipped = true;
          }
        else
          v = rng.range(mn, mx);
        undo.kind = upper ? 2 : 1;
        undo.s = s;
        undo.old = upper ? mx : mn;
        if (upper)
          q.set_max_ring_difference(v, s);
        else
          q.set_min_ring_difference(v, s);
        std::fprintf(ops, "%s %d %d\n", upper ? "setmaxrd" : "setminrd", s, v);
        std::fprintf(out, "ok\n");
        touched.insert(s);
        return true;
      }
    if (kind <= 7)
      {
        // axial range of one segment
        const int s = rng.range(lo, hi);
        const int mn = q.get_min_axial_pos_num(s), mx = q.get_max_axial_pos_num(s);
        const bool upper = rng.coin();
        const int v = upper ? mx - rng.range(-1, 2) : mn + rng.range(-1, 2);
        if (upper ? v < mn : v > mx)
          return false;
        undo.kind = upper ? 4 : 3;
        undo.s = s;
        undo.old = upper ? mx : mn;
        if (upper)
          q.set_max_axial_pos_num(v, s);
        else
          q.set_min_axial_pos_num(v, s);
        std::fprintf(ops, "%s %d %d\n", upper ? "setmaxax" : "setminax", s, v);
        std::fprintf(out, "ok\n");
        touched.insert(s);
        clipped = true;
        return true;
      }
    if (kind == 8 && rng.coin())
      {
        // a change that must be refused when the tables are rebuilt: min_ring_difference > max_ring_difference
        const int s = rng.range(lo, hi);
        undo.kind = 1;
        undo.s = s;
        undo.old = q.get_min_ring_difference(s);
        const int v = q.get_max_ring_difference(s) + 1;
        q.set_min_ring_difference(v, s);
        std::fprintf(ops, "setminrd %d %d\n", s, v);
        std::fprintf(out, "ok\n");
        return true;
      }
    // tangential range (the detector tables cover -(N/2)+1 .. N/2)
    const int which = rng.range(0, 2);
    if (which == 0)
      {
        const int n = rng.range(1, N - 1);
        q.set_num_tangential_poss(n);
        std::fprintf(ops, "ntang %d\n", n);
      }
    else if (which == 1)
      {
        const int v = rng.range(-(N / 2) + 1, q.get_max_tangential_pos_num());
        q.set_min_tangential_pos_num(v);
        std::fprintf(ops, "setmintang %d\n", v);
      }
    else
      {
        const int v = rng.range(q.get_min_tangential_pos_num(), N / 2);
        q.set_max_tangential_pos_num(v);
        std::fprintf(ops, "setmaxtang %d\n", v);
      }
    std::fprintf(out, "%d %d\n", q.get_min_tangential_pos_num(), q.get_max_tangential_pos_num());
    return true;
  }

  // one step of the history on q: change the sampling; when the library must refuse the new sampling (documented:
  // "min_ring_difference is larger than max_ring_difference", "the axial positions do not correspond to the usual
  // locations between physical rings") check that it does, undo the change (the tables must be rebuilt from the
  // repaired sampling); then evaluate the property
  void step(ProjDataInfoCylindricalNoArcCorr& q, int nbins)
  {
    Undo undo;
    const std::set<int> touched0(touched);
    const bool clipped0 = clipped;
    if (!mutate(q, undo))
      return;
    bool must_refuse = false;
    for (int s = q.get_min_segment_num(); s <= q.get_max_segment_num(); ++s)
      {
        if (q.get_min_ring_difference(s) > q.get_max_ring_difference(s))
          must_refuse = true;
        else if (q.get_min_ring_difference(s) != q.get_max_ring_difference(s) && (q.get_min_axial_pos_num(s) + q.get_max_axial_pos_num(s)) % 2 != 0)
          must_refuse = true;
      }
    if (must_refuse)
      {
        emit_state(q);
        ++oracle_checks;
        if (emit_init(q))
          oracle_fail("a sampling that must be refused was accepted when the tables were rebuilt (rings=%d span=%d max_delta=%d ge=%d)", R, c.span, c.max_delta, c.ge ? 1 : 0);
        probe_error_state(q);
        apply_undo(q, undo);
        touched = touched0;
        clipped = clipped0;
      }
    check(q, nbins);
  }
};

static void
run_history(const Cfg& c, vh::Rng& rng, bool thorough)
{
  if (!c.scanner_name.empty() || !c.geometry.empty() || c.tb > 0)
    return;
  shared_ptr<Scanner> scanner = vh::make_scanner(c.N, c.R, c.tof_bins);
  const int N = c.N;
  shared_ptr<ProjDataInfo> pdi0;
  try
    {
      pdi0 = construct(c, scanner, std::max(1, N / 2 - 1));
    }
  catch (...)
    {
      return;
    }
  shared_ptr<ProjDataInfoCylindricalNoArcCorr> pdi = dynamic_pointer_cast<ProjDataInfoCylindricalNoArcCorr>(pdi0);
  if (!pdi)
    return;
  emit_cfg(c, N, c.R);
  emit_segs(pdi.get());
  std::fprintf(ops, "ntang %d\n", pdi->get_num_tangential_poss());
  std::fprintf(out, "%d %d\n", pdi->get_min_tangential_pos_num(), pdi->get_max_tangential_pos_num());
  History h{ c, rng, N, c.R, pdi->get_max_segment_num() };
  h.check(*pdi, 10); // builds all lazy tables with the original sampling
  const int nsteps = thorough ? 10 : 8;
  for (int step = 0; step < nsteps; ++step)
    {
      if (rng.range(0, 3) == 0)
        {
          // change a clone: the clone follows its own sampling, the original is untouched
          shared_ptr<ProjDataInfoCylindricalNoArcCorr> cl(dynamic_cast<ProjDataInfoCylindricalNoArcCorr*>(pdi->clone()));
          History hc(h);
          std::fprintf(ops, "save\n");
          std::fprintf(out, "ok\n");
          hc.step(*cl, 12);
          std::fprintf(ops, "restore\n");
          std::fprintf(out, "ok\n");
          h.check(*pdi, 8);
        }
      else
        h.step(*pdi, 16);
    }
}

int
main(int argc, char** argv)
{
  if (argc < 5)
    return 2;
  vh::quiet();
  vh::Rng rng(std::strtoull(argv[1], nullptr, 10) * 2654435761ULL + 1);
  const bool thorough = std::string(argv[2]) == "thorough";
  ops = std::fopen(argv[3], "w");
  out = std::fopen(argv[4], "w");
  orc = std::fopen((std::string(argv[4]) + ".oracle").c_str(), "w");
  scratch = argv[4];
  std::vector<Cfg> cfgs;
  // fixed regression configurations (truncated last segment with odd/even parity)
  cfgs.push_back({ 16, 4, 3, 2, 8, 0, -1, "" });
  cfgs.push_back({ 16, 5, 3, 2, 8, 0, -1, "" });
  cfgs.push_back({ 12, 6, 5, 3, 3, 0, -1, "" });
  // generated small scanners
  const int ngen = thorough ? 600 : 60;
  for (int k = 0; k < ngen; ++k)
    {
      Cfg c;
      c.N = 2 * rng.range(2, thorough ? 40 : 20);
      c.R = rng.range(1, 9);
      const int kind = rng.range(0, 11);
      c.span = kind < 4 ? 1 : (kind < 8 ? 2 * rng.range(1, 4) + 1 : 2 * rng.range(1, 3));
      c.max_delta = rng.range(0, c.R - 1);
      if (rng.range(0, 2) == 0)
        c.max_delta = c.R - 1;
      if (kind >= 10)
        {
          // ProjDataInfoGE: segment 0 = ring differences -1..1, the others one ring difference each;
          // max_delta 1 .. R-1, sometimes R (a last segment without axial positions) or 0 (refused)
          c.ge = true;
          c.span = 3;
          c.max_delta = rng.range(0, 7) == 0 ? rng.range(0, 1) * c.R : rng.range(1, std::max(1, c.R - 1));
        }
      // views: N/2 divided by a divisor
      std::vector<int> divs;
      for (int d = 1; d <= c.N / 2; ++d)
        if ((c.N / 2) % d == 0)
          divs.push_back(d);
      c.views = c.N / 2 / divs[rng.range(0, (int)divs.size() - 1)];
      const bool tof = rng.range(0, 2) == 0;
      c.tof_bins = tof ? 2 * rng.range(1, 6) + 1 : -1;
      c.tof_mash = 0;
      if (tof)
        {
          std::vector<int> od;
          for (int d = 1; d <= c.tof_bins; d += 2)
            if (c.tof_bins % d == 0)
              od.push_back(d);
          c.tof_mash = od[rng.range(0, (int)od.size() - 1)];
          if (rng.range(0, 5) == 0)
            {
              // an even number of timing positions with an even mashing factor leaving an odd number of TOF bins
              // (accepted by the constructor, e.g. STIR's test_scanner: 410 timing positions mashed by 2, 10 or 82)
              c.tof_bins *= 2;
              c.tof_mash *= 2;
            }
        }
      cfgs.push_back(c);
    }
  // the same formulas are copied into the Generic / BlocksOnCylindrical classes (no TOF, no view mashing there):
  // generated block scanners, every span / max_delta
  const int nblk = thorough ? 120 : 18;
  for (int k = 0; k < nblk; ++k)
    {
      Cfg c;
      c.tb = rng.range(3, 8);
      c.tbl = rng.range(1, 2);
      c.tc = rng.range(1, 4);
      if ((c.tb * c.tbl * c.tc) % 2 != 0)
        c.tc += 1;
      c.ab = rng.range(1, 3);
      c.ac = rng.range(1, 3);
      c.gap = rng.coin() ? 0.F : 0.5F;
      c.N = c.tb * c.tbl * c.tc;
      c.R = c.ab * c.ac;
      c.geometry = (k % 3 == 2) ? "Generic" : "BlocksOnCylindrical";
      const int kind = rng.range(0, 9);
      c.span = kind < 3 ? 1 : (kind < 8 ? 2 * rng.range(1, 3) + 1 : 2 * rng.range(1, 2));
      c.max_delta = rng.coin() ? c.R - 1 : rng.range(0, c.R - 1);
      c.views = c.N / 2;
      c.tof_mash = 0;
      c.tof_bins = -1;
      cfgs.push_back(c);
    }
  {
    // predefined block scanner; a predefined cylindrical scanner switched to blocks (refused by Scanner::check_consistency)
    const char* bnames[] = { "SAFIRDualRingPrototype", "ECAT 953" };
    for (int k = 0; k < 2; ++k)
      {
        shared_ptr<Scanner> s(Scanner::get_scanner_from_name(bnames[k]));
        if (!s || s->get_type() == Scanner::Unknown_scanner)
          continue;
        Cfg c;
        c.scanner_name = bnames[k];
        c.geometry = "BlocksOnCylindrical";
        c.N = s->get_num_detectors_per_ring();
        c.R = s->get_num_rings();
        c.span = 2 * rng.range(0, 3) + 1;
        c.max_delta = rng.range(c.span / 2, c.R - 1);
        c.views = c.N / 2;
        c.tof_mash = 0;
        c.tof_bins = -1;
        cfgs.push_back(c);
      }
  }
  // predefined scanners: seeded span / max_delta / view mashing / TOF mashing
  const char* names_quick[] = { "ECAT 953", "ECAT 931", "GE Advance", "Siemens mMR", "GE Discovery 690", "GE Signa PET/MR" };
  const char* names_thorough[] = { "ECAT 953", "ECAT 931", "ECAT 962", "GE Advance", "Siemens mMR", "GE Discovery 690", "ECAT HRRT", "GE Signa PET/MR", "Siemens mCT", "GE Discovery MI 3 rings", "GE Discovery STE", "ECAT EXACT3D" };
  const char** names = thorough ? names_thorough : names_quick;
  const int nn = thorough ? 12 : 6;
  for (int rep = 0; rep < (thorough ? 4 : 1); ++rep)
    for (int k = 0; k < nn; ++k)
      {
        shared_ptr<Scanner> s(Scanner::get_scanner_from_name(names[k]));
        if (!s || s->get_type() == Scanner::Unknown_scanner)
          continue;
        Cfg c;
        c.scanner_name = names[k];
        c.N = s->get_num_detectors_per_ring();
        c.R = s->get_num_rings();
        const int kind = rng.range(0, 9);
        c.span = kind < 2 ? 1 : (kind < 8 ? 2 * rng.range(1, 5) + 1 : 2 * rng.range(1, 3));
        c.span = std::min(c.span, 2 * c.R - 1);
        c.max_delta = rng.range(0, 2) == 0 ? c.R - 1 : rng.range(c.span / 2, c.R - 1);
        if (kind == 9)
          {
            c.ge = true;
            c.max_delta = rng.range(1, c.R - 1);
          }
        // view mashing: a small divisor of N/2
        std::vector<int> divs;
        for (int d = 1; d <= 8; ++d)
          if ((c.N / 2) % d == 0)
            divs.push_back(d);
        c.views = c.N / 2 / divs[rng.range(0, (int)divs.size() - 1)];
        c.tof_mash = 0;
        c.tof_bins = -1;
        if (s->is_tof_ready())
          {
            // odd TOF mashing factors that leave an odd number of TOF bins (the constructor refuses an even number);
            // the factor need not divide the scanner's number of timing positions
            const int mx = s->get_max_num_timing_poss();
            std::vector<int> ms;
            ms.push_back(0); // non-TOF data of a TOF scanner
            for (int m = 1; m <= mx; m += 2)
              if ((mx / m) % 2 == 1)
                ms.push_back(m);
            c.tof_mash = ms[rng.range(0, (int)ms.size() - 1)];
            c.tof_bins = mx;
          }
        cfgs.push_back(c);
      }
  for (auto& c : cfgs)
    {
      try
        {
          run_cfg(c, rng, thorough);
          run_history(c, rng, thorough);
        }
      catch (std::exception& e)
        {
          std::fprintf(orc, "ORACLE-FAIL exception in configuration N=%d R=%d span=%d maxdelta=%d views=%d ge=%d geometry=%s: %s\n", c.N, c.R, c.span, c.max_delta, c.views,
                       c.ge ? 1 : 0, c.geometry.c_str(), e.what());
          ++oracle_fails;
        }
      catch (...)
        {
          std::fprintf(orc, "ORACLE-FAIL exception in configuration N=%d R=%d span=%d maxdelta=%d views=%d ge=%d geometry=%s\n", c.N, c.R, c.span, c.max_delta, c.views, c.ge ? 1 : 0,
                       c.geometry.c_str());
          ++oracle_fails;
        }
    }
  std::fprintf(orc, "ORACLE-DONE checks=%ld fails=%ld\n", oracle_checks, oracle_fails);
  std::fclose(ops);
  std::fclose(out);
  std::fclose(orc);
  std::remove((scratch + ".crystalmap").c_str());
  return 0;
}
