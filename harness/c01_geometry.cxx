// C01 — implementation side: detector pairs <-> bins, ring pairs <-> (segment, axial position)
// on the real ProjDataInfoCylindricalNoArcCorr built by ProjDataInfo::construct_proj_data_info.
// Usage: c01_geometry <seed> <quick|thorough> <opsfile> <implfile>
#include "stir_fixtures.h"
#include "common.h"
#include "stir/Bin.h"
#include "stir/DetectionPositionPair.h"
#include "stir/ProjDataInfoCylindricalNoArcCorr.h"
#include "stir/Succeeded.h"
#include <algorithm>
#include <map>
#include <set>
#include <tuple>

using namespace stir;

struct Cfg
{
  int N, R, span, max_delta, views, tof_mash, tof_bins;
  std::string scanner_name; // empty: generated
  std::string geometry;     // "" = Cylindrical
};

static FILE *ops, *out, *orc;
static long oracle_checks = 0, oracle_fails = 0;

static std::string
bin_str(const Bin& b)
{
  std::ostringstream s;
  s << b.segment_num() << " " << b.view_num() << " " << b.axial_pos_num() << " " << b.tangential_pos_num() << " "
    << b.timing_pos_num();
  return s.str();
}

typedef std::tuple<int, int, int, int, int> DP;
static std::string
dps_str(std::vector<DP> v)
{
  std::sort(v.begin(), v.end());
  std::ostringstream s;
  for (std::size_t i = 0; i < v.size(); ++i)
    s << (i ? " " : "") << std::get<0>(v[i]) << "," << std::get<1>(v[i]) << "," << std::get<2>(v[i]) << "," << std::get<3>(v[i])
      << "," << std::get<4>(v[i]);
  return s.str();
}


#include "stir/ProjDataInfoGenericNoArcCorr.h"
#include "stir/ProjDataInfoBlocksOnCylindricalNoArcCorr.h"

// the Generic/Blocks classes have the same API without the `ignore_non_spatial_dimensions` argument
static void
all_pairs(const ProjDataInfoCylindricalNoArcCorr& p, std::vector<DetectionPositionPair<>>& v, const Bin& b, bool ignore)
{
  p.get_all_det_pos_pairs_for_bin(v, b, ignore);
}
static void
all_pairs(const ProjDataInfoGenericNoArcCorr& p, std::vector<DetectionPositionPair<>>& v, const Bin& b, bool)
{
  p.get_all_det_pos_pairs_for_bin(v, b);
}
static unsigned
num_pairs(const ProjDataInfoCylindricalNoArcCorr& p, const Bin& b, bool ignore)
{
  return p.get_num_det_pos_pairs_for_bin(b, ignore);
}
static unsigned
num_pairs(const ProjDataInfoGenericNoArcCorr& p, const Bin& b, bool)
{
  return p.get_num_det_pos_pairs_for_bin(b);
}

template <class PDI>
static void run_cfg_t(const Cfg& c, vh::Rng& rng, bool thorough, PDI* pdi, int N, int R);

static void
run_cfg(const Cfg& c, vh::Rng& rng, bool thorough)
{
  shared_ptr<Scanner> scanner;
  if (!c.scanner_name.empty())
    scanner.reset(Scanner::get_scanner_from_name(c.scanner_name));
  else
    scanner = vh::make_scanner(c.N, c.R, c.tof_bins);
  if (!c.geometry.empty())
    {
      try
        {
          scanner->set_scanner_geometry(c.geometry);
          scanner->set_up();
        }
      catch (...)
        {
          return; // this scanner cannot be used with that geometry: not a configuration the library accepts
        }
    }
  const int N = scanner->get_num_detectors_per_ring();
  const int R = scanner->get_num_rings();
  std::fprintf(ops, "cfg %d %d %d %d %d %d\n", N, R, c.span, c.max_delta, c.views, c.tof_mash);
  shared_ptr<ProjDataInfo> pdi0;
  try
    {
      pdi0 = vh::make_pdi(scanner, c.span, c.max_delta, c.views, std::max(1, std::min(N / 2 - 1, scanner->get_max_num_non_arccorrected_bins())), false, c.tof_mash);
    }
  catch (...)
    {
      std::fprintf(out, "err\n");
      return;
    }
  if (auto* cyl = dynamic_cast<ProjDataInfoCylindricalNoArcCorr*>(pdi0.get()))
    run_cfg_t(c, rng, thorough, cyl, N, R);
  else if (auto* gen = dynamic_cast<ProjDataInfoGenericNoArcCorr*>(pdi0.get()))
    run_cfg_t(c, rng, thorough, gen, N, R);
  else
    std::fprintf(out, "err\n");
}

template <class PDI>
static void
run_cfg_t(const Cfg& c, vh::Rng& rng, bool thorough, PDI* pdi, int N, int R)
{
  {
    std::ostringstream s;
    s << "segs " << pdi->get_min_segment_num() << " :";
    for (int sg = pdi->get_min_segment_num(); sg <= pdi->get_max_segment_num(); ++sg)
      s << " " << pdi->get_min_ring_difference(sg) << "," << pdi->get_max_ring_difference(sg) << "," << pdi->get_num_axial_poss(sg);
    std::fprintf(out, "%s\n", s.str().c_str());
  }
  const int mash = pdi->get_view_mashing_factor();
  const int min_t = pdi->get_min_tof_pos_num(), max_t = pdi->get_max_tof_pos_num();
  const int tofm = pdi->get_tof_mash_factor();

  // ---- transaxial tables
  const int dstride = (N > 128 && !thorough) ? 7 : (N > 400 ? 3 : 1);
  for (int v = 0; v < N / 2; v += dstride)
    for (int tp = -(N / 2) + 1; tp <= N / 2; tp += dstride)
      {
        int d1, d2;
        pdi->get_det_num_pair_for_view_tangential_pos_num(d1, d2, v, tp);
        std::fprintf(ops, "vt %d %d\n", v, tp);
        std::fprintf(out, "%d %d\n", d1, d2);
      }
  // all ordered detector pairs (strided for the largest rings): oracle on the transaxial partition
  std::map<std::pair<int, int>, int> vt_count;
  for (int d1 = 0; d1 < N; d1 += dstride)
    for (int d2 = 0; d2 < N; ++d2)
      {
        if (d1 == d2)
          continue;
        int v, tp;
        const bool keep = pdi->get_view_tangential_pos_num_for_det_num_pair(v, tp, d1, d2);
        if ((d2 % dstride) == 0)
          {
            std::fprintf(ops, "dv %d %d\n", d1, d2);
            std::fprintf(out, "%d %d %d\n", v, tp, keep ? 1 : 0);
          }
        // ORACLE: exchanging the detectors gives the same (view,tang) with the opposite flag
        int v2, tp2;
        const bool keep2 = pdi->get_view_tangential_pos_num_for_det_num_pair(v2, tp2, d2, d1);
        ++oracle_checks;
        if (v != v2 || tp != tp2 || keep == keep2 || v < 0 || v >= N / 2 / mash || tp <= -(N / 2) || tp > N / 2)
          {
            ++oracle_fails;
            if (oracle_fails < 20)
              std::fprintf(orc, "ORACLE-FAIL swap/range N=%d mash=%d d1=%d d2=%d -> (%d,%d,%d) vs (%d,%d,%d)\n", N, mash, d1, d2, v, tp, keep, v2, tp2, keep2);
          }
        if (keep && dstride == 1)
          vt_count[std::make_pair(v, tp)]++;
      }
  if (dstride == 1)
    {
      // ORACLE: each (view,tang) with |tang| < N/2 receives exactly `mash` unswapped detector pairs
      for (int v = 0; v < N / 2 / mash; ++v)
        for (int tp = -(N / 2) + 1; tp < N / 2; ++tp)
          {
            ++oracle_checks;
            const int expect = mash;
            if (vt_count[std::make_pair(v, tp)] != expect)
              {
                ++oracle_fails;
                if (oracle_fails < 20)
                  std::fprintf(orc, "ORACLE-FAIL transaxial count N=%d mash=%d view=%d tang=%d count=%d\n", N, mash, v, tp, vt_count[std::make_pair(v, tp)]);
              }
          }
    }

  // ---- axial tables: every ring pair, every (segment, axial position)
  std::map<std::pair<int, int>, std::set<std::pair<int, int>>> assigned;
  for (int r1 = 0; r1 < R; ++r1)
    for (int r2 = 0; r2 < R; ++r2)
      {
        int s, a;
        const bool ok = pdi->get_segment_axial_pos_num_for_ring_pair(s, a, r1, r2) == Succeeded::yes;
        std::fprintf(ops, "rp2sa %d %d\n", r1, r2);
        if (ok)
          {
            std::fprintf(out, "%d %d\n", s, a);
            assigned[std::make_pair(s, a)].insert(std::make_pair(r1, r2));
          }
        else
          std::fprintf(out, "none\n");
        // ORACLE: a covered ring difference must be assigned
        ++oracle_checks;
        bool covered = false;
        for (int sg = pdi->get_min_segment_num(); sg <= pdi->get_max_segment_num(); ++sg)
          if (r2 - r1 >= pdi->get_min_ring_difference(sg) && r2 - r1 <= pdi->get_max_ring_difference(sg))
            covered = true;
        if (covered != ok)
          {
            ++oracle_fails;
            std::fprintf(orc, "ORACLE-FAIL ring pair (%d,%d) covered=%d assigned=%d\n", r1, r2, covered, ok);
          }
      }
  bool axial_mismatch = false;
  std::set<int> bad_segments;
  for (int s = pdi->get_min_segment_num(); s <= pdi->get_max_segment_num(); ++s)
    for (int a = pdi->get_min_axial_pos_num(s); a <= pdi->get_max_axial_pos_num(s); ++a)
      {
        const ProjDataInfoCylindrical::RingNumPairs& rps = pdi->get_all_ring_pairs_for_segment_axial_pos_num(s, a);
        std::vector<std::pair<int, int>> v(rps.begin(), rps.end());
        std::sort(v.begin(), v.end());
        std::ostringstream os;
        for (std::size_t i = 0; i < v.size(); ++i)
          os << (i ? " " : "") << v[i].first << "," << v[i].second;
        std::fprintf(ops, "sa2rps %d %d\n", s, a);
        std::fprintf(out, "%s\n", os.str().c_str());
        // ORACLE: listed set == assigned set, no duplicates, count
        ++oracle_checks;
        std::set<std::pair<int, int>> listed(v.begin(), v.end());
        if (listed.size() != v.size() || listed != assigned[std::make_pair(s, a)]
            || pdi->get_num_ring_pairs_for_segment_axial_pos_num(s, a) != v.size())
          {
            axial_mismatch = true;
            bad_segments.insert(s);
          }
      }
  // ring pairs assigned to an axial position outside the segment's range
  for (auto& kv : assigned)
    {
      const int s = kv.first.first, a = kv.first.second;
      ++oracle_checks;
      if (a < pdi->get_min_axial_pos_num(s) || a > pdi->get_max_axial_pos_num(s))
        {
          axial_mismatch = true;
          bad_segments.insert(s);
        }
    }
  std::fprintf(ops, "wf\n");
  std::fprintf(out, "%d\n", axial_mismatch ? 0 : 1);
  if (axial_mismatch)
    {
      ++oracle_fails;
      // class of the known finding: only outermost segments, clipped by max_delta to ONE ring difference d
      // while span > 1, with (num_rings - 1 - |d|) odd.  Anything else gets a configuration-specific key.
      bool in_class = c.span > 1;
      for (int s : bad_segments)
        {
          const int d = pdi->get_min_ring_difference(s);
          if (!(std::abs(s) == pdi->get_max_segment_num() && pdi->get_min_ring_difference(s) == pdi->get_max_ring_difference(s)
                && std::abs(d) == c.max_delta && (R - 1 - std::abs(d)) % 2 != 0))
            in_class = false;
        }
      if (in_class)
        std::fprintf(orc, "KNOWN-CANDIDATE ringpairs:outermost-segment-clipped-to-single-ring-difference-of-odd-parity ring pairs of the clipped outermost segment are assigned to axial positions by truncating division while get_all_ring_pairs_for_segment_axial_pos_num lists none (first seen: rings=%d span=%d max_delta=%d)\n",
                     R, c.span, c.max_delta);
      else
        std::fprintf(orc, "KNOWN-CANDIDATE ringpairs:R=%d:span=%d:maxdelta=%d ring pairs assigned to (segment,axial pos) differ from the lists reported by get_all_ring_pairs_for_segment_axial_pos_num\n",
                     R, c.span, c.max_delta);
    }

  // ---- full bins: a seeded sample of detector-position pairs and of bins
  const int nsample = thorough ? 3000 : 600;
  for (int k = 0; k < nsample; ++k)
    {
      DetectionPositionPair<> dp;
      int d1 = rng.range(0, N - 1), d2 = rng.range(0, N - 1);
      if (d1 == d2)
        d2 = (d2 + 1 + rng.range(0, N - 2)) % N;
      const int r1 = rng.range(0, R - 1), r2 = rng.range(0, R - 1);
      const int t = tofm == 0 ? 0 : rng.range(min_t * tofm - tofm / 2, max_t * tofm + tofm / 2);
      dp.pos1().tangential_coord() = d1;
      dp.pos1().axial_coord() = r1;
      dp.pos2().tangential_coord() = d2;
      dp.pos2().axial_coord() = r2;
      dp.timing_pos() = t;
      Bin b;
      const bool ok = pdi->get_bin_for_det_pos_pair(b, dp) == Succeeded::yes;
      std::fprintf(ops, "d2b %d %d %d %d %d\n", d1, r1, d2, r2, t);
      std::fprintf(out, "%s\n", ok ? bin_str(b).c_str() : "none");
      if (!ok || axial_mismatch)
        continue;
      // ORACLE: exchanging the two detectors gives the same spatial bin with the TOF index negated
      DetectionPositionPair<> dps(dp);
      dps.pos1() = dp.pos2();
      dps.pos2() = dp.pos1();
      dps.timing_pos() = -t;
      Bin bs;
      ++oracle_checks;
      if (pdi->get_bin_for_det_pos_pair(bs, dps) != Succeeded::yes || !(bs == b))
        {
          ++oracle_fails;
          std::fprintf(orc, "ORACLE-FAIL swapped pair gives another bin: %d %d %d %d %d\n", d1, r1, d2, r2, t);
        }
      if (b.tangential_pos_num() < pdi->get_min_tangential_pos_num() || b.tangential_pos_num() > pdi->get_max_tangential_pos_num())
        continue;
      // the bin's own list
      std::vector<DetectionPositionPair<>> all;
      all_pairs(*pdi, all, b, false);
      std::vector<DP> lst;
      bool found = false, sound = true;
      for (auto& q : all)
        {
          lst.push_back(DP(q.pos1().tangential_coord(), q.pos1().axial_coord(), q.pos2().tangential_coord(), q.pos2().axial_coord(), q.timing_pos()));
          Bin bq;
          if (pdi->get_bin_for_det_pos_pair(bq, q) != Succeeded::yes || !(bq == b))
            sound = false;
          if ((q.pos1() == dp.pos1() && q.pos2() == dp.pos2() && q.timing_pos() == t)
              || (q.pos1() == dp.pos2() && q.pos2() == dp.pos1() && q.timing_pos() == -t))
            found = true;
        }
      std::fprintf(ops, "pairs %s\n", bin_str(b).c_str());
      std::fprintf(out, "%u | %s\n", num_pairs(*pdi, b, false), dps_str(lst).c_str());
      ++oracle_checks;
      std::set<DP> uniq(lst.begin(), lst.end());
      if (!found || !sound || uniq.size() != lst.size() || lst.size() != num_pairs(*pdi, b, false))
        {
          ++oracle_fails;
          std::fprintf(orc, "ORACLE-FAIL bin list inexact (found=%d sound=%d n=%zu reported=%u) for pair %d %d %d %d %d bin %s\n", found, sound,
                       lst.size(), num_pairs(*pdi, b, false), d1, r1, d2, r2, t, bin_str(b).c_str());
        }
      // uncompressed: bin -> pair -> bin
      if (c.span == 1 && mash == 1 && tofm <= 1)
        {
          DetectionPositionPair<> back;
          pdi->get_det_pos_pair_for_bin(back, b);
          Bin b2;
          std::fprintf(ops, "b2d %s\n", bin_str(b).c_str());
          std::fprintf(out, "%d %d %d %d %d\n", (int)back.pos1().tangential_coord(), (int)back.pos1().axial_coord(), (int)back.pos2().tangential_coord(),
                       (int)back.pos2().axial_coord(), (int)back.timing_pos());
          ++oracle_checks;
          if (pdi->get_bin_for_det_pos_pair(b2, back) != Succeeded::yes || !(b2 == b))
            {
              ++oracle_fails;
              std::fprintf(orc, "ORACLE-FAIL uncompressed bin->pair->bin not identity for bin %s\n", bin_str(b).c_str());
            }
        }
    }
}

// history: the lazily built tables must not remember the sampling that was in force when they were built
static void
run_history(const Cfg& c, vh::Rng& rng)
{
  if (!c.scanner_name.empty())
    return;
  shared_ptr<Scanner> scanner = vh::make_scanner(c.N, c.R, c.tof_bins);
  const int N = c.N;
  shared_ptr<ProjDataInfo> pdi0;
  try
    {
      pdi0 = vh::make_pdi(scanner, c.span, c.max_delta, c.views, std::max(1, N / 2 - 1), false, c.tof_mash);
    }
  catch (...)
    {
      return;
    }
  shared_ptr<ProjDataInfoCylindricalNoArcCorr> pdi = dynamic_pointer_cast<ProjDataInfoCylindricalNoArcCorr>(pdi0);
  if (!pdi)
    return;
  std::fprintf(ops, "cfg %d %d %d %d %d %d\n", N, c.R, c.span, c.max_delta, c.views, c.tof_mash);
  {
    std::ostringstream s;
    s << "segs " << pdi->get_min_segment_num() << " :";
    for (int sg = pdi->get_min_segment_num(); sg <= pdi->get_max_segment_num(); ++sg)
      s << " " << pdi->get_min_ring_difference(sg) << "," << pdi->get_max_ring_difference(sg) << "," << pdi->get_num_axial_poss(sg);
    std::fprintf(out, "%s\n", s.str().c_str());
  }
  auto probe = [&](ProjDataInfoCylindricalNoArcCorr& q, int n) {
    for (int k = 0; k < n; ++k)
      {
        int d1 = rng.range(0, N - 1), d2 = rng.range(0, N - 1);
        if (d1 == d2)
          d2 = (d2 + 1) % N;
        int v, tp;
        const bool keep = q.get_view_tangential_pos_num_for_det_num_pair(v, tp, d1, d2);
        std::fprintf(ops, "dv %d %d\n", d1, d2);
        std::fprintf(out, "%d %d %d\n", v, tp, keep ? 1 : 0);
        // ORACLE: the bin found for a pair lists that pair (or its exchange) among its own pairs
        DetectionPositionPair<> dp;
        dp.pos1().tangential_coord() = d1;
        dp.pos2().tangential_coord() = d2;
        dp.pos1().axial_coord() = 0;
        dp.pos2().axial_coord() = 0;
        dp.timing_pos() = 0;
        Bin b;
        if (q.get_bin_for_det_pos_pair(b, dp) != Succeeded::yes)
          continue;
        ++oracle_checks;
        bool ok = b.view_num() >= 0 && b.view_num() < q.get_num_views();
        if (ok && b.tangential_pos_num() >= q.get_min_tangential_pos_num() && b.tangential_pos_num() <= q.get_max_tangential_pos_num())
          {
            std::vector<DetectionPositionPair<>> all;
            q.get_all_det_pos_pairs_for_bin(all, b, true);
            bool found = false;
            for (auto& x : all)
              if ((x.pos1() == dp.pos1() && x.pos2() == dp.pos2()) || (x.pos1() == dp.pos2() && x.pos2() == dp.pos1()))
                found = true;
            ok = found;
          }
        if (!ok)
          {
            ++oracle_fails;
            if (oracle_fails < 20)
              std::fprintf(orc, "ORACLE-FAIL after changing the number of views to %d the bin of detector pair (%d,%d) has view %d / does not list the pair\n",
                           q.get_num_views(), d1, d2, b.view_num());
          }
      }
  };
  probe(*pdi, 30); // builds the tables with the original sampling
  // all view counts that divide N/2
  std::vector<int> vs;
  for (int d = 1; d <= N / 2; ++d)
    if ((N / 2) % d == 0)
      vs.push_back(N / 2 / d);
  for (int step = 0; step < 3; ++step)
    {
      const int nv = vs[rng.range(0, (int)vs.size() - 1)];
      if (rng.coin())
        {
          pdi->set_num_views(nv);
          std::fprintf(ops, "setviews %d\n", nv);
          std::fprintf(out, "ok\n");
          probe(*pdi, 40);
        }
      else
        {
          shared_ptr<ProjDataInfo> cl(pdi->clone());
          cl->set_num_views(nv);
          std::fprintf(ops, "setviews %d\n", nv);
          std::fprintf(out, "ok\n");
          probe(*dynamic_pointer_cast<ProjDataInfoCylindricalNoArcCorr>(cl), 40);
          // and the original is untouched
          std::fprintf(ops, "setviews %d\n", pdi->get_num_views());
          std::fprintf(out, "ok\n");
          probe(*pdi, 20);
        }
    }
}

int
main(int argc, char** argv)
{
  if (argc < 5)
    return 2;
  vh::quiet();
  vh::Rng rng(std::strtoull(argv[1], nullptr, 10) * 2654435761ULL + 1);
  const bool thorough = std::string(argv[2]) == "thorough";
  ops = std::fopen(argv[3], "w");
  out = std::fopen(argv[4], "w");
  orc = std::fopen((std::string(argv[4]) + ".oracle").c_str(), "w");
  std::vector<Cfg> cfgs;
  // fixed regression configurations (truncated last segment with odd/even parity)
  cfgs.push_back({ 16, 4, 3, 2, 8, 0, -1, "" });
  cfgs.push_back({ 16, 5, 3, 2, 8, 0, -1, "" });
  cfgs.push_back({ 12, 6, 5, 3, 3, 0, -1, "" });
  // generated small scanners
  const int ngen = thorough ? 300 : 45;
  for (int k = 0; k < ngen; ++k)
    {
      Cfg c;
      c.N = 2 * rng.range(2, thorough ? 40 : 20);
      c.R = rng.range(1, 9);
      const int kind = rng.range(0, 9);
      c.span = kind < 4 ? 1 : (kind < 8 ? 2 * rng.range(1, 4) + 1 : 2 * rng.range(1, 3));
      c.max_delta = rng.range(0, c.R - 1);
      if (rng.range(0, 2) == 0)
        c.max_delta = c.R - 1;
      // views: N/2 divided by a divisor
      std::vector<int> divs;
      for (int d = 1; d <= c.N / 2; ++d)
        if ((c.N / 2) % d == 0)
          divs.push_back(d);
      c.views = c.N / 2 / divs[rng.range(0, (int)divs.size() - 1)];
      const bool tof = rng.range(0, 2) == 0;
      c.tof_bins = tof ? 2 * rng.range(1, 6) + 1 : -1;
      c.tof_mash = 0;
      if (tof)
        {
          std::vector<int> od;
          for (int d = 1; d <= c.tof_bins; d += 2)
            if (c.tof_bins % d == 0)
              od.push_back(d);
          c.tof_mash = od[rng.range(0, (int)od.size() - 1)];
        }
      cfgs.push_back(c);
    }
  // the same formulas are copied into the Generic / BlocksOnCylindrical classes (no TOF, no view mashing there)
  {
    const char* bnames[] = { "SAFIRDualRingPrototype", "ECAT 953" };
    for (int k = 0; k < 2; ++k)
      {
        shared_ptr<Scanner> s(Scanner::get_scanner_from_name(bnames[k]));
        if (!s || s->get_type() == Scanner::Unknown_scanner)
          continue;
        Cfg c;
        c.scanner_name = bnames[k];
        c.geometry = "BlocksOnCylindrical";
        c.N = s->get_num_detectors_per_ring();
        c.R = s->get_num_rings();
        c.span = 1;
        c.max_delta = std::min(c.R - 1, 5);
        c.views = c.N / 2;
        c.tof_mash = 0;
        c.tof_bins = -1;
        cfgs.push_back(c);
      }
  }
  // predefined scanners with their default-ish sampling
  const char* names_quick[] = { "ECAT 953", "ECAT 931", "GE Advance", "Siemens mMR" };
  const char* names_thorough[] = { "ECAT 953", "ECAT 931", "ECAT 962", "GE Advance", "Siemens mMR", "GE Discovery 690", "ECAT HRRT", "GE Signa PET/MR", "Siemens mCT" };
  const char** names = thorough ? names_thorough : names_quick;
  const int nn = thorough ? 9 : 4;
  for (int k = 0; k < nn; ++k)
    {
      shared_ptr<Scanner> s(Scanner::get_scanner_from_name(names[k]));
      if (!s || s->get_type() == Scanner::Unknown_scanner)
        continue;
      Cfg c;
      c.scanner_name = names[k];
      c.N = s->get_num_detectors_per_ring();
      c.R = s->get_num_rings();
      c.span = (k % 2) ? 1 : 3;
      c.max_delta = c.R - 1;
      c.views = c.N / 2;
      c.tof_mash = 0;
      c.tof_bins = -1;
      cfgs.push_back(c);
    }
  for (auto& c : cfgs)
    {
      try
        {
          run_cfg(c, rng, thorough);
          run_history(c, rng);
        }
      catch (std::exception& e)
        {
          std::fprintf(orc, "ORACLE-FAIL exception in configuration N=%d R=%d span=%d maxdelta=%d views=%d: %s\n", c.N, c.R, c.span, c.max_delta, c.views, e.what());
          ++oracle_fails;
        }
    }
  std::fprintf(orc, "ORACLE-DONE checks=%ld fails=%ld\n", oracle_checks, oracle_fails);
  std::fclose(ops);
  std::fclose(out);
  std::fclose(orc);
  return 0;
}
