// C09 — implementation side.  Priors: value, gradient and Hessian are mutually consistent and convex.
// Drives the REAL classes QuadraticPrior<float>, RelativeDifferencePrior<float>, LogcoshPrior<float>, PLSPrior<float>
// through the GeneralisedPrior public API (compute_value, compute_gradient, compute_Hessian, accumulate_Hessian_times_input,
// add_multiplication_with_approximate_Hessian, parabolic_surrogate_curvature, is_convex, get_weights) on generated
// images (1x1x1 .. ~6x7x8, singleton dimensions, shifted index ranges, anisotropic voxel sizes), default / user weights,
// kappa images, penalisation factors and prior parameters.
// Usage: c09_priors <seed> <quick|thorough> <opsfile> <implfile>
//   <opsfile>        one operation per line (line protocol, answered by lean/Driver/C09.lean)
//   <implfile>       the implementation's answer to each operation
//   <implfile>.oracle  verdicts of the property oracle (the property's own statement evaluated on the implementation)
//
// Line protocol (all floats as C99 hex):
//   cfg <Q|R|L|P> <pf> <only2d> <gamma> <eps> <scalar> <alpha> <eta>  <z0 z1 y0 y1 x0 x1>  <wz0 wz1 wy0 wy1 wx0 wx1> <weights...> K <0|1> [kappa...] A <0|1> [anat...]
//   defw <kind> <vz> <vy> <vx> <only2d> -> the default weights as computed by the class (read back with get_weights())
//   img <cur|inp|out> <values...>       -> ok
//   value | grad | htimes | hrow z y x | approx | surr      (see Driver/C09.lean)
// Object life cycle (one prior OBJECT, its members kept by the driver; Model.lean: NbPrior):
//   onew <Q|R|L|P> <pf> <only2d-arg> <gamma> <eps> <scalar>          constructor                                    -> ok
//   oparse <kind> <pf> <only2d> <gamma> <eps> <scalar> W <nz> {<ny> {<nx> <values>}}   parse() of a parameter text  -> ok | err
//   obox <z0 z1 y0 y1 x0 x1>   image box of the following img/okappa/oanat lines                                    -> ok
//   okappa <0|1> [values] | oanat <values> | osetw <box> [values] | oset <pf|gamma|eps|scalar|alpha|eta|only2d> <v> | osetup  -> ok
//   ocall <vz> <vy> <vx> <value|grad|htimes|hrow z y x|approx|surr>    API call with images of that voxel size      -> as above
//   owts                                                              get_weights(): <box> [values]
#include "stir_fixtures.h"
#include "common.h"
#include "stir/recon_buildblock/QuadraticPrior.h"
#include "stir/recon_buildblock/RelativeDifferencePrior.h"
#include "stir/recon_buildblock/LogcoshPrior.h"
#include "stir/recon_buildblock/PLSPrior.h"
#include "stir/recon_buildblock/PriorWithParabolicSurrogate.h"
#include "stir/VoxelsOnCartesianGrid.h"
#include "stir/IndexRange3D.h"
#include "stir/Succeeded.h"
#include "stir/IO/write_to_file.h"
#include <cmath>
#include <algorithm>
#include <map>

using namespace stir;

typedef DiscretisedDensity<3, float> Img;
typedef VoxelsOnCartesianGrid<float> Vox;
typedef shared_ptr<Vox> VoxP;
typedef GeneralisedPrior<Img> Prior;

static const double UF = 5.9604644775390625e-08; // 2^-24, unit round-off of float

struct Box
{
  int z0, z1, y0, y1, x0, x1;
  int nz() const { return z1 - z0 + 1; }
  int ny() const { return y1 - y0 + 1; }
  int nx() const { return x1 - x0 + 1; }
  int n() const { return nz() * ny() * nx(); }
  bool has(int z, int y, int x) const { return z >= z0 && z <= z1 && y >= y0 && y <= y1 && x >= x0 && x <= x1; }
};
#define FORBOX(b) \
  for (int z = (b).z0; z <= (b).z1; ++z) \
    for (int y = (b).y0; y <= (b).y1; ++y) \
      for (int x = (b).x0; x <= (b).x1; ++x)

static VoxP
mk(const Box& b, const float* sp)
{
  return VoxP(new Vox(IndexRange3D(b.z0, b.z1, b.y0, b.y1, b.x0, b.x1),
                      CartesianCoordinate3D<float>(0.F, 0.F, 0.F),
                      CartesianCoordinate3D<float>(sp[0], sp[1], sp[2])));
}
static VoxP
copy_of(const Vox& a)
{
  return VoxP(a.clone());
}
static std::string
dump(const Img& a, const Box& b)
{
  std::string s;
  FORBOX(b)
  {
    if (!s.empty())
      s += ' ';
    s += vh::hex(static_cast<double>(a[z][y][x]));
  }
  return s;
}
static std::string
dumpw(const Array<3, float>& w)
{
  std::string s;
  for (int z = w.get_min_index(); z <= w.get_max_index(); ++z)
    for (int y = w[z].get_min_index(); y <= w[z].get_max_index(); ++y)
      for (int x = w[z][y].get_min_index(); x <= w[z][y].get_max_index(); ++x)
        {
          if (!s.empty())
            s += ' ';
          s += vh::hex(static_cast<double>(w[z][y][x]));
        }
  return s;
}
static Box
wbox(const Array<3, float>& w)
{
  Box b = { 0, -1, 0, -1, 0, -1 };
  if (w.get_length() == 0)
    return b;
  b.z0 = w.get_min_index();
  b.z1 = w.get_max_index();
  b.y0 = w[b.z0].get_min_index();
  b.y1 = w[b.z0].get_max_index();
  b.x0 = w[b.z0][b.y0].get_min_index();
  b.x1 = w[b.z0][b.y0].get_max_index();
  return b;
}
static double
dot(const Img& a, const Img& b, const Box& bx)
{
  double s = 0;
  FORBOX(bx) s += static_cast<double>(a[z][y][x]) * static_cast<double>(b[z][y][x]);
  return s;
}
static double
absdot(const Img& a, const Img& b, const Box& bx)
{
  double s = 0;
  FORBOX(bx) s += std::fabs(static_cast<double>(a[z][y][x]) * static_cast<double>(b[z][y][x]));
  return s;
}
static double
maxabs(const Img& a, const Box& bx)
{
  double s = 0;
  FORBOX(bx) s = std::max(s, std::fabs(static_cast<double>(a[z][y][x])));
  return s;
}

// ------------------------------------------------------------------------------------------------ configuration
struct Cfg
{
  char kind; // Q R L P
  Box b;
  float sp[3];
  float pf;
  bool only2d;
  float gamma, eps, scalar;
  double alpha, eta;
  bool userw;
  Array<3, float> w; // user weights, or (after read-back) the default weights
  VoxP kappa;        // may be null
  VoxP anat;         // PLS only
  std::string wclass; // "default", "sym", "asym", "centre"
};

static shared_ptr<Prior>
build(const Cfg& c, float pf, const VoxP& target)
{
  shared_ptr<Prior> p;
  if (c.kind == 'Q')
    {
      shared_ptr<QuadraticPrior<float>> q(new QuadraticPrior<float>(c.only2d, pf));
      if (c.userw)
        q->set_weights(c.w);
      if (c.kappa)
        q->set_kappa_sptr(c.kappa);
      p = q;
    }
  else if (c.kind == 'R')
    {
      shared_ptr<RelativeDifferencePrior<float>> q(new RelativeDifferencePrior<float>(c.only2d, pf, c.gamma, c.eps));
      if (c.userw)
        q->set_weights(c.w);
      if (c.kappa)
        q->set_kappa_sptr(c.kappa);
      p = q;
    }
  else if (c.kind == 'L')
    {
      shared_ptr<LogcoshPrior<float>> q(new LogcoshPrior<float>(c.only2d, pf, c.scalar));
      if (c.userw)
        q->set_weights(c.w);
      if (c.kappa)
        q->set_kappa_sptr(c.kappa);
      p = q;
    }
  else
    {
      shared_ptr<PLSPrior<float>> q(new PLSPrior<float>(c.only2d, pf));
      // NB the constructor PLSPrior(only_2D, pf) calls set_defaults() after initialising only_2D, i.e. ignores its first argument
      q->set_only_2D(c.only2d);
      q->set_alpha(c.alpha);
      q->set_eta(c.eta);
      q->set_anatomical_image_sptr(c.anat);
      if (c.kappa)
        q->set_kappa_sptr(c.kappa);
      p = q;
    }
  if (p->set_up(target) != Succeeded::yes)
    throw std::runtime_error("set_up failed");
  return p;
}
static Array<3, float>
read_weights(const Cfg& c, Prior& p)
{
  if (c.kind == 'Q')
    return dynamic_cast<QuadraticPrior<float>&>(p).get_weights();
  if (c.kind == 'R')
    return dynamic_cast<RelativeDifferencePrior<float>&>(p).get_weights();
  if (c.kind == 'L')
    return dynamic_cast<LogcoshPrior<float>&>(p).get_weights();
  return Array<3, float>();
}

// thin wrappers over the public API
static VoxP
api_grad(Prior& p, const Vox& cur)
{
  VoxP g(cur.get_empty_copy());
  g->fill(12345.F); // "The derived class should overwrite any data in prior_gradient"
  p.compute_gradient(*g, cur);
  return g;
}
static VoxP
api_htimes(Prior& p, const Vox& cur, const Vox& inp, const Vox* out0)
{
  VoxP o(out0 ? out0->clone() : cur.get_empty_copy());
  p.accumulate_Hessian_times_input(*o, cur, inp);
  return o;
}
static VoxP
api_hrow(Prior& p, const Vox& cur, int z, int y, int x)
{
  VoxP o(cur.get_empty_copy());
  o->fill(777.F); // must be overwritten (zero outside the neighbourhood)
  p.compute_Hessian(*o, make_coordinate(z, y, x), cur);
  return o;
}

// ------------------------------------------------------------------------------------------------ generators
static float
coarse(vh::Rng& r, float lo, int steps, float step)
{
  return lo + step * static_cast<float>(r.range(0, steps));
}
static void
fill_positive(Vox& a, const Box& b, vh::Rng& r, bool coarse_grid, float lo, float hi)
{
  FORBOX(b)
  {
    if (coarse_grid)
      a[z][y][x] = lo + static_cast<float>(r.range(0, static_cast<int>((hi - lo) * 512.F))) / 512.F;
    else
      a[z][y][x] = static_cast<float>(lo + (hi - lo) * r.unit());
  }
}
static void
fill_signed(Vox& a, const Box& b, vh::Rng& r, float amp)
{
  FORBOX(b) a[z][y][x] = amp * static_cast<float>(r.range(-256, 256)) / 256.F;
}
static Array<3, float>
user_weights(vh::Rng& r, int hz, int hy, int hx, const std::string& cls)
{
  Array<3, float> w(IndexRange3D(-hz, hz, -hy, hy, -hx, hx));
  for (int z = -hz; z <= hz; ++z)
    for (int y = -hy; y <= hy; ++y)
      for (int x = -hx; x <= hx; ++x)
        {
          // fill one half, mirror the other (symmetric: w(-d) = w(d))
          const bool first_half = (z > 0) || (z == 0 && y > 0) || (z == 0 && y == 0 && x > 0);
          if (z == 0 && y == 0 && x == 0)
            w[z][y][x] = 0.F;
          else if (first_half || cls == "asym")
            w[z][y][x] = r.range(0, 5) == 0 ? 0.F : static_cast<float>(r.range(1, 64)) / 32.F;
        }
  if (cls != "asym")
    for (int z = -hz; z <= hz; ++z)
      for (int y = -hy; y <= hy; ++y)
        for (int x = -hx; x <= hx; ++x)
          {
            const bool first_half = (z > 0) || (z == 0 && y > 0) || (z == 0 && y == 0 && x > 0);
            if (first_half)
              w[-z][-y][-x] = w[z][y][x];
          }
  if (cls == "centre")
    w[0][0][0] = static_cast<float>(r.range(1, 64)) / 32.F;
  return w;
}
static bool
weights_symmetric(const Array<3, float>& w)
{
  const Box b = wbox(w);
  if (b.z0 != -b.z1 || b.y0 != -b.y1 || b.x0 != -b.x1)
    return false;
  FORBOX(b)
  if (w[z][y][x] != w[-z][-y][-x])
    return false;
  return true;
}

// ------------------------------------------------------------------------------------------------ main
static FILE *ops, *out, *orc;
static long oracle_checks = 0, oracle_fails = 0;
static std::map<std::string, int> candidate_seen;

static std::string
describe(const Cfg& c)
{
  char buf[400];
  std::snprintf(buf, sizeof buf, "prior=%c box=[%d..%d]x[%d..%d]x[%d..%d] spacing=(%g,%g,%g) pf=%g only2d=%d weights=%s kappa=%d gamma=%g eps=%g scalar=%g alpha=%g eta=%g",
                c.kind, c.b.z0, c.b.z1, c.b.y0, c.b.y1, c.b.x0, c.b.x1, c.sp[0], c.sp[1], c.sp[2], c.pf, c.only2d, c.wclass.c_str(),
                c.kappa ? 1 : 0, c.gamma, c.eps, c.scalar, c.alpha, c.eta);
  return buf;
}
// ok==false -> the clause `what` of the property is false on the implementation for this input
static void
verdict(bool ok, const Cfg& c, const std::string& what, double lhs, double rhs, double tol, const std::string& candidate_key = "")
{
  ++oracle_checks;
  if (ok)
    return;
  if (!candidate_key.empty())
    {
      if (candidate_seen[candidate_key]++ == 0)
        std::fprintf(orc, "KNOWN-CANDIDATE %s %s: got %.9g expected %.9g (tolerance %.3g) [%s]\n", candidate_key.c_str(), what.c_str(), lhs, rhs, tol,
                     describe(c).c_str());
      return;
    }
  ++oracle_fails;
  std::fprintf(orc, "ORACLE-FAIL %s: got %.9g expected %.9g (tolerance %.3g) [%s]\n", what.c_str(), lhs, rhs, tol, describe(c).c_str());
}

static long case_id = 0;
static void
emit(const std::string& op, const std::string& answer)
{
  // the trailing "@<case>" token is ignored by the driver; it makes the operation lines of different cases distinct
  if (op.compare(0, 3, "cfg") == 0 || op.compare(0, 4, "defw") == 0)
    std::fprintf(ops, "%s\n", op.c_str());
  else
    std::fprintf(ops, "%s @%ld\n", op.c_str(), case_id);
  std::fprintf(out, "%s\n", answer.c_str());
}

static std::string
cfg_line(const Cfg& c)
{
  std::ostringstream s;
  const Box wb = wbox(c.w);
  s << "cfg " << c.kind << ' ' << vh::hex(c.pf) << ' ' << (c.only2d ? 1 : 0) << ' ' << vh::hex(c.gamma) << ' ' << vh::hex(c.eps) << ' '
    << vh::hex(c.scalar) << ' ' << vh::hex(c.alpha) << ' ' << vh::hex(c.eta) << ' ' << c.b.z0 << ' ' << c.b.z1 << ' ' << c.b.y0 << ' '
    << c.b.y1 << ' ' << c.b.x0 << ' ' << c.b.x1 << ' ' << wb.z0 << ' ' << wb.z1 << ' ' << wb.y0 << ' ' << wb.y1 << ' ' << wb.x0 << ' '
    << wb.x1;
  if (c.w.get_length() > 0)
    s << ' ' << dumpw(c.w);
  s << " K " << (c.kappa ? 1 : 0);
  if (c.kappa)
    s << ' ' << dump(*c.kappa, c.b);
  s << " A " << (c.anat ? 1 : 0);
  if (c.anat)
    s << ' ' << dump(*c.anat, c.b);
  return s.str();
}

// S_j = pf * sum over in-image neighbours of (|w(d)| + |w(-d)|) kappa_j kappa_{j+d}   (scale of everything voxel j takes part in)
static double
local_scale(const Cfg& c, int z, int y, int x, bool both_directions)
{
  const Box wb = wbox(c.w);
  double s = 0;
  for (int dz = wb.z0; dz <= wb.z1; ++dz)
    for (int dy = wb.y0; dy <= wb.y1; ++dy)
      for (int dx = wb.x0; dx <= wb.x1; ++dx)
        {
          if (!c.b.has(z + dz, y + dy, x + dx))
            continue;
          double ww = std::fabs(c.w[dz][dy][dx]);
          if (both_directions && wb.has(-dz, -dy, -dx))
            ww += std::fabs(c.w[-dz][-dy][-dx]);
          const double kk = c.kappa ? static_cast<double>((*c.kappa)[z][y][x]) * (*c.kappa)[z + dz][y + dy][x + dx] : 1.0;
          s += ww * kk;
        }
  return s * std::fabs(c.pf);
}

// `reuse`: an EXISTING prior object (already used with other images / parsed / modified by setters) whose members the caller has brought
// to the configuration c0 (penalisation factor, parameters, kappa = c0.kappa; weights: whatever the object holds, c0.pf != 0).  It is set
// up again for the new image, and all clauses of the property are then evaluated on it exactly as on a fresh object; the weights the
// object holds are read back and given to the model and to the fresh comparison objects of the oracle as user weights.
static void
run_case(const Cfg& c0, vh::Rng& rng, bool fd_friendly, shared_ptr<Prior> reuse = shared_ptr<Prior>())
{
  ++case_id;
  Cfg c = c0;
  const Box& b = c.b;
  VoxP cur = mk(b, c.sp);
  const bool pls = c.kind == 'P';
  // PLS: smaller dynamic range (conditioning of sqrt(alpha^2+|g|^2-<g,xi>^2) in float)
  fill_positive(*cur, b, rng, fd_friendly || rng.coin(), 0.5F, pls ? 2.5F : 8.5F);
  shared_ptr<Prior> P;
  if (reuse)
    {
      P = reuse;
      if (P->set_up(cur) != Succeeded::yes)
        throw std::runtime_error("set_up failed (reused object)");
    }
  else
    P = build(c, c.pf, cur);
  const double v0 = P->compute_value(*cur);

  if (reuse && !pls)
    {
      c.w = read_weights(c, *P);
      c.userw = true;
      if (c.wclass == "default")
        c.wclass = "held";
    }
  // ---- default weights are computed lazily on first use: read them back (and send them to the model as data)
  if (!pls && !c.userw)
    {
      Cfg probe = c;
      shared_ptr<Prior> Pp = build(probe, 1.F, cur);
      Pp->compute_value(*cur);
      c.w = read_weights(c, *Pp);
      if (c.pf != 0.F)
        {
          const Array<3, float> w2 = read_weights(c, *P);
          verdict(w2 == c.w, c, "default weights do not depend on the penalisation factor / are computed once", 0, 0, 0);
        }
      char buf[200];
      std::snprintf(buf, sizeof buf, "defw %c %s %s %s %d", c.kind, vh::hex(c.sp[0]).c_str(), vh::hex(c.sp[1]).c_str(), vh::hex(c.sp[2]).c_str(), c.only2d ? 1 : 0);
      const Box wb = wbox(c.w);
      std::ostringstream a;
      a << wb.z0 << ' ' << wb.z1 << ' ' << wb.y0 << ' ' << wb.y1 << ' ' << wb.x0 << ' ' << wb.x1 << ' ' << dumpw(c.w);
      emit(buf, a.str());
      verdict(weights_symmetric(c.w) && c.w[0][0][0] == 0.F, c, "default weights are symmetric with zero centre", 0, 0, 0);
      {
        // documented: "x-voxel_size divided by the Euclidean distance between the points"
        const Box wb2 = wbox(c.w);
        double worst = 0, wa = 0, wb_ = 0;
        FORBOX(wb2)
        {
          if (z == 0 && y == 0 && x == 0)
            continue;
          const double ex = static_cast<double>(c.sp[2])
                            / std::sqrt(std::pow(double(x) * c.sp[2], 2) + std::pow(double(y) * c.sp[1], 2) + std::pow(double(z) * c.sp[0], 2));
          const double d = std::fabs(c.w[z][y][x] - ex) / (8 * UF * ex);
          if (d > worst)
            {
              worst = d;
              wa = c.w[z][y][x];
              wb_ = ex;
            }
        }
        verdict(worst <= 1., c, "default weights are x-voxel-size / Euclidean distance", wa, wb_, 8 * UF * wb_);
      }
    }
  emit(cfg_line(c), "ok");
  emit("img cur " + dump(*cur, b), "ok");
  emit("value", vh::hex(v0));
  VoxP g0 = api_grad(*P, *cur);
  emit("grad", dump(*g0, b));

  VoxP inp = mk(b, c.sp), out0 = mk(b, c.sp);
  fill_signed(*inp, b, rng, 2.F);
  fill_signed(*out0, b, rng, 4.F);
  std::vector<BasicCoordinate<3, int>> rows;
  if (!pls)
    {
      emit("img inp " + dump(*inp, b), "ok");
      emit("img out " + dump(*out0, b), "ok");
      VoxP ht = api_htimes(*P, *cur, *inp, out0.get());
      emit("htimes", dump(*ht, b));
      if (b.n() <= 64)
        {
          FORBOX(b) rows.push_back(make_coordinate(z, y, x));
        }
      else
        {
          for (int k = 0; k < 8; ++k)
            rows.push_back(make_coordinate(k & 4 ? b.z1 : b.z0, k & 2 ? b.y1 : b.y0, k & 1 ? b.x1 : b.x0));
          for (int k = 0; k < 8; ++k)
            rows.push_back(make_coordinate(rng.range(b.z0, b.z1), rng.range(b.y0, b.y1), rng.range(b.x0, b.x1)));
        }
      for (auto& rc : rows)
        {
          VoxP row = api_hrow(*P, *cur, rc[1], rc[2], rc[3]);
          char buf[100];
          std::snprintf(buf, sizeof buf, "hrow %d %d %d", rc[1], rc[2], rc[3]);
          emit(buf, dump(*row, b));
        }
      if (c.kind == 'Q')
        {
          VoxP o(out0->clone());
          P->add_multiplication_with_approximate_Hessian(*o, *inp);
          emit("approx", dump(*o, b));
        }
      if (c.kind == 'Q' || c.kind == 'L')
        {
          VoxP o(cur->get_empty_copy());
          o->fill(555.F);
          dynamic_cast<PriorWithParabolicSurrogate<Img>&>(*P).parabolic_surrogate_curvature(*o, *cur);
          emit("surr", dump(*o, b));
        }
    }

  // =========================================================================================== ORACLE
  // the property's own clauses, evaluated on the implementation only
  const bool sym_w = pls || weights_symmetric(c.w);
  const bool centre0 = pls || c.w[0][0][0] == 0.F;
  // key under which failures of this input class are reported: asymmetric user weights w(-d) != w(d) are accepted by set_weights()
  // but value, gradient and Hessian functions are consistent only for symmetric weights (known finding, see known_findings.txt).
  // Everything else (in particular a non-zero centre weight) is checked strictly.
  const std::string key_asym = (!pls && !sym_w) ? "neighbourhood-priors:asymmetric-user-weights" : "";
  (void)centre0;

  // magnitude of the terms that make up one gradient / Hessian-times-vector element (rounding errors are relative to these,
  // not to the possibly cancelling result)
  const double kmax_all = c.kappa ? maxabs(*c.kappa, b) : 1.;
  auto gscale = [&](int z, int y, int x) -> double {
    if (pls)
      return 6. * kmax_all * std::fabs(c.pf);
    const double f = c.kind == 'Q' ? 8.5 : (c.kind == 'R' ? 3. : std::min(1. / c.scalar, 8.5));
    return local_scale(c, z, y, x, false) * f;
  };
  auto hscale = [&](int z, int y, int x, double inpmax) -> double {
    return local_scale(c, z, y, x, true) * (c.kind == 'R' ? 2. : 1.) * 2. * inpmax;
  };

  if (c.pf == 0.F)
    {
      // zero penalisation factor: everything vanishes (linear scaling, factor 0)
      verdict(v0 == 0., c, "value is 0 for penalisation factor 0", v0, 0, 0);
      verdict(maxabs(*g0, b) == 0., c, "gradient is 0 for penalisation factor 0", maxabs(*g0, b), 0, 0);
      if (!pls)
        {
          VoxP ht = api_htimes(*P, *cur, *inp, nullptr);
          verdict(maxabs(*ht, b) == 0., c, "Hessian-times-vector is 0 for penalisation factor 0", maxabs(*ht, b), 0, 0);
          VoxP row = api_hrow(*P, *cur, b.z0, b.y0, b.x0);
          verdict(maxabs(*row, b) == 0., c, "Hessian row is 0 for penalisation factor 0", maxabs(*row, b), 0, 0);
        }
      return;
    }

  // ---- (1) linear in the penalisation factor
  {
    const float cs[2] = { 2.F, 3.F };
    for (float cf : cs)
      {
        shared_ptr<Prior> P2 = build(c, c.pf * cf, cur);
        const double v2 = P2->compute_value(*cur);
        verdict(std::fabs(v2 - cf * v0) <= 64 * UF * std::fabs(cf * v0), c, "value scales linearly with the penalisation factor", v2, cf * v0,
                64 * UF * std::fabs(cf * v0));
        VoxP g2 = api_grad(*P2, *cur);
        double worst = 0, wa = 0, wb_ = 0;
        FORBOX(b)
        {
          const double d = std::fabs(static_cast<double>((*g2)[z][y][x]) - cf * static_cast<double>((*g0)[z][y][x]));
          const double t = 4 * UF * cf * std::fabs((*g0)[z][y][x]) + 64 * UF * cf * gscale(z, y, x) + 1e-30;
          if (d / t > worst)
            {
              worst = d / t;
              wa = (*g2)[z][y][x];
              wb_ = cf * (*g0)[z][y][x];
            }
        }
        verdict(worst <= 1., c, "gradient scales linearly with the penalisation factor", wa, wb_, 4 * UF * std::fabs(wb_));
        if (!pls)
          {
            VoxP h1 = api_htimes(*P, *cur, *inp, nullptr);
            VoxP h2 = api_htimes(*P2, *cur, *inp, nullptr);
            worst = 0;
            FORBOX(b)
            {
              const double d = std::fabs(static_cast<double>((*h2)[z][y][x]) - cf * static_cast<double>((*h1)[z][y][x]));
              const double t = 4 * UF * cf * std::fabs((*h1)[z][y][x]) + 64 * UF * cf * hscale(z, y, x, 2.) + 1e-30;
              if (d / t > worst)
                {
                  worst = d / t;
                  wa = (*h2)[z][y][x];
                  wb_ = cf * (*h1)[z][y][x];
                }
            }
            verdict(worst <= 1., c, "Hessian-times-vector scales linearly with the penalisation factor", wa, wb_, 4 * UF * std::fabs(wb_));
            const auto rc = rows[rng.range(0, static_cast<int>(rows.size()) - 1)];
            VoxP r1 = api_hrow(*P, *cur, rc[1], rc[2], rc[3]);
            VoxP r2 = api_hrow(*P2, *cur, rc[1], rc[2], rc[3]);
            worst = 0;
            FORBOX(b)
            {
              const double d = std::fabs(static_cast<double>((*r2)[z][y][x]) - cf * static_cast<double>((*r1)[z][y][x]));
              const double t = 4 * UF * cf * std::fabs((*r1)[z][y][x]) + 64 * UF * cf * hscale(rc[1], rc[2], rc[3], 1.) + 1e-30;
              if (d / t > worst)
                {
                  worst = d / t;
                  wa = (*r2)[z][y][x];
                  wb_ = cf * (*r1)[z][y][x];
                }
            }
            verdict(worst <= 1., c, "Hessian row scales linearly with the penalisation factor", wa, wb_, 4 * UF * std::fabs(wb_));
          }
      }
  }

  // ---- (2) the gradient vanishes for uniform images
  {
    VoxP u = mk(b, c.sp);
    const float val = coarse(rng, 0.5F, 64, 0.125F);
    u->fill(val);
    VoxP gu = api_grad(*P, *u);
    double worst = 0, wa = 0, wt = 0;
    FORBOX(b)
    {
      // exactly 0 for the present code; a tolerance relative to the magnitude of the terms for implementations that sum differently
      const double t = 64 * UF * gscale(z, y, x) * (pls ? 1. : val / 8.5) + 1e-30;
      if (std::fabs((*gu)[z][y][x]) / t > worst)
        {
          worst = std::fabs((*gu)[z][y][x]) / t;
          wa = (*gu)[z][y][x];
          wt = t;
        }
    }
    verdict(worst <= 1., c, "gradient of a uniform image is zero", wa, 0, wt);
  }

  // ---- (3) border: voxels interact only with neighbours inside the image / inside the neighbourhood
  //      (a) changing a voxel outside the reach of voxel r leaves the gradient at r bitwise unchanged
  //      (b) point reflection of image, kappa and weights reflects the gradient and keeps the value (non-PLS)
  {
    const Box wb = pls ? Box{ -1, 1, -1, 1, -1, 1 } : wbox(c.w);
    const int sz = rng.range(b.z0, b.z1), sy = rng.range(b.y0, b.y1), sx = rng.range(b.x0, b.x1);
    VoxP pert = copy_of(*cur);
    (*pert)[sz][sy][sx] += 1.F;
    VoxP gp = api_grad(*P, *pert);
    bool ok = true;
    int nchanged = 0;
    FORBOX(b)
    {
      // voxel r=(z,y,x) may depend on s only if s-r is a neighbourhood offset (PLS: r within one forward/backward step pattern)
      const bool in_reach = pls ? (std::abs(sz - z) <= 1 && std::abs(sy - y) <= 1 && std::abs(sx - x) <= 1) : wb.has(sz - z, sy - y, sx - x);
      if ((*gp)[z][y][x] != (*g0)[z][y][x])
        {
          ++nchanged;
          if (!in_reach)
            ok = false;
        }
    }
    verdict(ok, c, "gradient at a voxel depends only on voxels within the neighbourhood reach", nchanged, 0, 0);
  }
  if (!pls)
    {
      Cfg m = c;
      m.userw = true; // reflected weights are passed explicitly (for default weights they equal the original)
      const Box wb = wbox(c.w);
      m.w = Array<3, float>(IndexRange3D(-wb.z1, -wb.z0, -wb.y1, -wb.y0, -wb.x1, -wb.x0));
      FORBOX(wb) m.w[-z][-y][-x] = c.w[z][y][x];
      VoxP mcur = mk(b, c.sp);
      FORBOX(b)(*mcur)[z][y][x] = (*cur)[b.z0 + b.z1 - z][b.y0 + b.y1 - y][b.x0 + b.x1 - x];
      if (c.kappa)
        {
          m.kappa = mk(b, c.sp);
          FORBOX(b)(*m.kappa)[z][y][x] = (*c.kappa)[b.z0 + b.z1 - z][b.y0 + b.y1 - y][b.x0 + b.x1 - x];
        }
      shared_ptr<Prior> Pm = build(m, c.pf, mcur);
      const double vm = Pm->compute_value(*mcur);
      verdict(std::fabs(vm - v0) <= 64 * UF * std::fabs(v0), c, "value is invariant under point reflection of image, kappa and weights", vm, v0,
              64 * UF * std::fabs(v0));
      VoxP gm = api_grad(*Pm, *mcur);
      double worst = 0, wa = 0, wb_ = 0;
      FORBOX(b)
      {
        const double a = (*gm)[b.z0 + b.z1 - z][b.y0 + b.y1 - y][b.x0 + b.x1 - x], e = (*g0)[z][y][x];
        const double tol = 64 * UF * (local_scale(c, z, y, x, false) * (c.kind == 'Q' ? 8.5 : 3.0) / (c.kind == 'L' ? std::min(1.F, c.scalar) : 1.F));
        if (std::fabs(a - e) / (tol + 1e-30) > worst)
          {
            worst = std::fabs(a - e) / (tol + 1e-30);
            wa = a;
            wb_ = e;
          }
      }
      verdict(worst <= 1., c, "gradient is equivariant under point reflection (borders treated alike at both ends)", wa, wb_, 0);
    }

  // ---- (4) convexity of the value (priors that declare is_convex()): V((a+b)/2) <= (V(a)+V(b))/2
  if (P->is_convex())
    {
      VoxP a2 = mk(b, c.sp), mid = mk(b, c.sp);
      fill_positive(*a2, b, rng, true, 0.5F, pls ? 2.5F : 8.5F);
      FORBOX(b)(*mid)[z][y][x] = 0.5F * ((*cur)[z][y][x] + (*a2)[z][y][x]);
      const double va = v0, vb = P->compute_value(*a2), vm = P->compute_value(*mid);
      const double tol = 1e-5 * (std::fabs(va) + std::fabs(vb));
      verdict(vm <= 0.5 * (va + vb) + tol, c, "value is midpoint-convex (is_convex())", vm, 0.5 * (va + vb), tol);
    }

  if (pls)
    {
      // ---- (5P) gradient = derivative of the value, central difference with derived tolerance.
      // P_r = sqrt(alpha^2 + g^T M g), |M|<=1, so along a unit voxel direction |d^3/dt^3 P_r| <= 6 |g'|^3 / alpha^2 ; voxel j enters
      // P_j with |g'| = sqrt(3) (sqrt(2) in 2D) and P_{j-e} with |g'| = 1 for each direction e.
      const double h = 1. / 32;
      const int ndir = c.only2d ? 2 : 3;
      const double kmax = c.kappa ? maxabs(*c.kappa, b) : 1.;
      const double B3 = 6. * (std::pow(std::sqrt(double(ndir)), 3) + ndir) / (c.alpha * c.alpha) * kmax * c.pf;
      double gmax2 = 0;
      FORBOX(b) gmax2 = std::max(gmax2, double(ndir) * 4.); // images in [0.5,2.5]: |g|^2 <= ndir*2^2
      const double cond = (c.alpha * c.alpha + 2 * gmax2) / (c.alpha * c.alpha);
      const double Pmax = std::sqrt(c.alpha * c.alpha + gmax2);
      FORBOX(b)
      {
        VoxP p1 = copy_of(*cur), p2 = copy_of(*cur);
        (*p1)[z][y][x] += static_cast<float>(h);
        (*p2)[z][y][x] -= static_cast<float>(h);
        const double delta = static_cast<double>((*p1)[z][y][x]) - static_cast<double>((*p2)[z][y][x]);
        const double fd = (P->compute_value(*p1) - P->compute_value(*p2)) / delta;
        const double tol = h * h / 6 * B3 + 2 * (ndir + 1) * 16 * UF * cond * Pmax * kmax * c.pf / delta + 8 * UF * std::fabs((*g0)[z][y][x]);
        verdict(std::fabs(fd - (*g0)[z][y][x]) <= tol, c, "gradient is the derivative of the value (central difference, voxel " + std::to_string(z) + "," + std::to_string(y) + "," + std::to_string(x) + ")",
                (*g0)[z][y][x], fd, tol);
      }
      return;
    }

  // ---- (6) Hessian: symmetric; row = H * unit; positive semi-definite; accumulate adds to the output
  {
    VoxP u = mk(b, c.sp), v = mk(b, c.sp);
    fill_signed(*u, b, rng, 1.F);
    fill_signed(*v, b, rng, 1.F);
    VoxP Hv = api_htimes(*P, *cur, *v, nullptr), Hu = api_htimes(*P, *cur, *u, nullptr);
    const double s1 = dot(*u, *Hv, b), s2 = dot(*v, *Hu, b);
    double scale = 0;
    FORBOX(b) scale += (std::fabs((*u)[z][y][x]) + std::fabs((*v)[z][y][x])) * local_scale(c, z, y, x, false);
    // d20,|d11| <= 1 (Q, L), <= 2/(x_j+x_k+eps) <= 2 (R, images >= 0.5); float sums of <= 125 terms
    const double tol = 256 * UF * 2 * scale;
    verdict(std::fabs(s1 - s2) <= tol, c, "Hessian is symmetric: <u,Hv> = <v,Hu>", s1, s2, tol, key_asym);
    const double q = dot(*u, *Hu, b);
    if (P->is_convex())
      verdict(q >= -tol, c, "Hessian is positive semi-definite: <u,Hu> >= 0 (is_convex())", q, 0, tol, key_asym);
    // accumulate: output = out0 + H inp
    VoxP acc = api_htimes(*P, *cur, *v, out0.get());
    double worst = 0, wa = 0, wb_ = 0;
    FORBOX(b)
    {
      const double e = static_cast<double>((*out0)[z][y][x]) + (*Hv)[z][y][x];
      const double t = 4 * UF * (std::fabs((*out0)[z][y][x]) + std::fabs((*Hv)[z][y][x])) + 1e-30;
      if (std::fabs((*acc)[z][y][x] - e) / t > worst)
        {
          worst = std::fabs((*acc)[z][y][x] - e) / t;
          wa = (*acc)[z][y][x];
          wb_ = e;
        }
    }
    verdict(worst <= 1., c, "accumulate_Hessian_times_input adds H*input to the existing output", wa, wb_, 0);
  }
  for (auto& rc : rows)
    {
      VoxP row = api_hrow(*P, *cur, rc[1], rc[2], rc[3]);
      VoxP e = mk(b, c.sp);
      (*e)[rc[1]][rc[2]][rc[3]] = 1.F;
      VoxP He = api_htimes(*P, *cur, *e, nullptr);
      double worst = 0, wa = 0, wb_ = 0;
      const double sc = local_scale(c, rc[1], rc[2], rc[3], true) * 2;
      FORBOX(b)
      {
        const double t = 256 * UF * sc + 1e-30;
        const double d = std::fabs(static_cast<double>((*row)[z][y][x]) - (*He)[z][y][x]);
        if (d / t > worst)
          {
            worst = d / t;
            wa = (*row)[z][y][x];
            wb_ = (*He)[z][y][x];
          }
      }
      verdict(worst <= 1., c, "Hessian row (compute_Hessian) equals H applied to the unit image", wa, wb_, 256 * UF * sc, key_asym);
    }

  // ---- (7) gradient = derivative of value; Hessian = derivative of gradient
  if (c.kind == 'Q')
    {
      // exact quadratic expansion: V(l+e) = V(l) + <g(l),e> + 1/2 <e,He>  and  g(l+e) = g(l) + He   (no finite differences)
      VoxP e = mk(b, c.sp);
      fill_signed(*e, b, rng, 4.F);
      VoxP l1 = mk(b, c.sp);
      FORBOX(b)(*l1)[z][y][x] = (*cur)[z][y][x] + (*e)[z][y][x];
      FORBOX(b)(*e)[z][y][x] = (*l1)[z][y][x] - (*cur)[z][y][x]; // exactly representable step
      const double v1 = P->compute_value(*l1);
      VoxP He = api_htimes(*P, *cur, *e, nullptr);
      const double ge = dot(*g0, *e, b), eHe = dot(*e, *He, b);
      const double scale = std::fabs(v1) + std::fabs(v0) + absdot(*g0, *e, b) + 0.5 * absdot(*e, *He, b);
      const double tol = 64 * UF * scale;
      verdict(std::fabs(v1 - (v0 + ge + 0.5 * eHe)) <= tol, c, "quadratic expansion value(l+e) = value(l) + <grad,e> + 1/2<e,He>", v1, v0 + ge + 0.5 * eHe, tol, key_asym);
      VoxP g1 = api_grad(*P, *l1);
      double worst = 0, wa = 0, wb_ = 0;
      FORBOX(b)
      {
        const double ex = static_cast<double>((*g0)[z][y][x]) + (*He)[z][y][x];
        const double t = 256 * UF * local_scale(c, z, y, x, false) * 20. + 1e-30;
        if (std::fabs((*g1)[z][y][x] - ex) / t > worst)
          {
            worst = std::fabs((*g1)[z][y][x] - ex) / t;
            wa = (*g1)[z][y][x];
            wb_ = ex;
          }
      }
      verdict(worst <= 1., c, "Hessian-times-vector is the directional derivative of the gradient: grad(l+e) = grad(l) + He", wa, wb_, 0);
      // per voxel: V(l + t e_j) = V(l) + t g_j + t^2/2 H_jj
      for (auto& rc : rows)
        {
          const float t = static_cast<float>(rng.range(1, 4)) * (rng.coin() ? 1.F : -1.F);
          VoxP lj = copy_of(*cur);
          (*lj)[rc[1]][rc[2]][rc[3]] += t;
          const double tt = static_cast<double>((*lj)[rc[1]][rc[2]][rc[3]]) - (*cur)[rc[1]][rc[2]][rc[3]];
          const double vj = P->compute_value(*lj);
          VoxP row = api_hrow(*P, *cur, rc[1], rc[2], rc[3]);
          const double gj = (*g0)[rc[1]][rc[2]][rc[3]], hjj = (*row)[rc[1]][rc[2]][rc[3]];
          const double sc = std::fabs(vj) + std::fabs(v0) + std::fabs(tt * gj) + 0.5 * tt * tt * std::fabs(hjj);
          verdict(std::fabs(vj - (v0 + tt * gj + 0.5 * tt * tt * hjj)) <= 64 * UF * sc, c,
                  "per-voxel expansion value(l+t e_j) = value(l) + t grad_j + t^2/2 H_jj", vj, v0 + tt * gj + 0.5 * tt * tt * hjj, 64 * UF * sc, key_asym);
        }
    }
  else
    {
      // central differences with derived tolerance (truncation from bounds on the 3rd/4th derivatives of the potential,
      // rounding from the float evaluation of the potential)
      float lmin = 1e30F, lmax = 0;
      FORBOX(b)
      {
        lmin = std::min(lmin, (*cur)[z][y][x]);
        lmax = std::max(lmax, (*cur)[z][y][x]);
      }
      const double h = 1. / 64;
      for (auto& rc : rows)
        {
          const int jz = rc[1], jy = rc[2], jx = rc[3];
          VoxP p1 = copy_of(*cur), p2 = copy_of(*cur);
          (*p1)[jz][jy][jx] += static_cast<float>(h);
          (*p2)[jz][jy][jx] -= static_cast<float>(h);
          const double delta = static_cast<double>((*p1)[jz][jy][jx]) - static_cast<double>((*p2)[jz][jy][jx]);
          const double fd = (P->compute_value(*p1) - P->compute_value(*p2)) / delta;
          const double Sj = local_scale(c, jz, jy, jx, true);
          double tol;
          if (c.kind == 'R')
            {
              // psi = phi/2, phi = u^2/D homogeneous of degree 1 in (x+eps/2, y+eps/2): |phi_xxx| <= 24(1+gamma)/D^2, D >= x+y+eps
              const double Dmin = 2 * (lmin - h) + c.eps;
              const double trunc = h * h / 6 * Sj * 12 * (1 + c.gamma) / (Dmin * Dmin);
              const double round = 2 * 16 * UF * Sj * 0.5 * (lmax - lmin + h) / delta; // psi <= |u|/2, relative error <= 16 u
              tol = trunc + round + 8 * UF * 3 * Sj;
            }
          else
            {
              // f(u) = logcosh(s u)/(2 s^2): |f'''| <= 0.385 s ; float log(cosh(.)) has absolute error <= (3 + 2|s u|) u
              const double s = c.scalar;
              const double trunc = h * h / 6 * Sj * 0.385 * s;
              const double round = 2 * 2 * (3 + 2 * s * (lmax - lmin + h)) * UF / (2 * s * s) * Sj / delta;
              tol = trunc + round + 8 * UF * Sj / s;
            }
          verdict(std::fabs(fd - (*g0)[jz][jy][jx]) <= tol, c,
                  "gradient is the derivative of the value (central difference, voxel " + std::to_string(jz) + "," + std::to_string(jy) + "," + std::to_string(jx) + ")",
                  (*g0)[jz][jy][jx], fd, tol, key_asym);
          // Hessian row j = d grad / d l_j
          VoxP gp = api_grad(*P, *p1), gm = api_grad(*P, *p2);
          VoxP row = api_hrow(*P, *cur, jz, jy, jx);
          const Box wb = wbox(c.w);
          double worst = 0, wa = 0, wb_ = 0, wt = 0;
          FORBOX(b)
          {
            const double fdh = (static_cast<double>((*gp)[z][y][x]) - (*gm)[z][y][x]) / delta;
            const bool diag = z == jz && y == jy && x == jx;
            const double Sr = local_scale(c, z, y, x, false);
            // weight of the terms of grad_r that depend on l_j
            double wgt;
            if (diag)
              wgt = Sr;
            else
              {
                const bool inr = wb.has(jz - z, jy - y, jx - x);
                const double kk = c.kappa ? static_cast<double>((*c.kappa)[z][y][x]) * (*c.kappa)[jz][jy][jx] : 1.0;
                wgt = inr ? std::fabs(c.w[jz - z][jy - y][jx - x]) * kk * c.pf : 0.;
              }
            double t;
            if (c.kind == 'R')
              {
                // 4th derivatives of phi: <= 144 (1+gamma)^2 / D^3 away from x=y; at x=y the 3rd derivatives of phi_x jump by
                // J = 12 gamma / D^2, which adds J h / 4 to the central-difference error when |x-y| < h
                const double Dl = diag ? 2 * (lmin - h) + c.eps : static_cast<double>((*cur)[z][y][x]) + (*cur)[jz][jy][jx] - h + c.eps;
                t = h * h / 6 * wgt * 144 * (1 + c.gamma) * (1 + c.gamma) / (Dl * Dl * Dl) + 2 * 40 * UF * 3 * Sr / delta;
                if (diag)
                  {
                    for (int dz = wb.z0; dz <= wb.z1; ++dz)
                      for (int dy = wb.y0; dy <= wb.y1; ++dy)
                        for (int dx = wb.x0; dx <= wb.x1; ++dx)
                          if (!(dz == 0 && dy == 0 && dx == 0) && b.has(z + dz, y + dy, x + dx) && std::fabs((*cur)[z + dz][y + dy][x + dx] - (*cur)[z][y][x]) <= h)
                            {
                              const double kk = c.kappa ? static_cast<double>((*c.kappa)[z][y][x]) * (*c.kappa)[z + dz][y + dy][x + dx] : 1.0;
                              const double Dk = static_cast<double>((*cur)[z][y][x]) + (*cur)[z + dz][y + dy][x + dx] - h + c.eps;
                              t += std::fabs(c.w[dz][dy][dx]) * kk * c.pf * 3 * c.gamma * h / (Dk * Dk);
                            }
                  }
                else if (std::fabs((*cur)[z][y][x] - (*cur)[jz][jy][jx]) <= h)
                  t += wgt * 3 * c.gamma * h / (Dl * Dl);
              }
            else
              {
                // d^3/du^3 tanh(s u)/s: <= 2 s^2 ; float tanh relative error, |tanh/s| <= min(1/s, |u|)
                const double s = c.scalar;
                t = h * h / 6 * wgt * 2 * s * s + 2 * 16 * UF * Sr * std::min(1 / s, double(lmax - lmin + h)) / delta;
              }
            t += 64 * UF * std::fabs((*row)[z][y][x]);
            const double d = std::fabs(fdh - (*row)[z][y][x]);
            if (d / (t + 1e-30) > worst)
              {
                worst = d / (t + 1e-30);
                wa = (*row)[z][y][x];
                wb_ = fdh;
                wt = t;
              }
          }
          verdict(worst <= 1., c,
                  "Hessian row is the derivative of the gradient (central difference, voxel " + std::to_string(jz) + "," + std::to_string(jy) + "," + std::to_string(jx) + ")",
                  wa, wb_, wt, key_asym);
        }
    }
}


// The concrete instances of lean/StirVerif/C09/Props.lean replayed on the implementation:
// negative witnesses C09_quadratic_expansion_asymmetric_weights_fails, C09_quadratic_H_symmetric_asymmetric_weights_fails (asymmetric
// weights: the clause must FAIL on the code exactly as in Lean, reported under the known-finding key) and the positive instance
// C09_nonzero_centre_weight_is_covered (symmetric weights with centre weight 2: the clause must HOLD, strict).
// 1x1x2 image l = (3,1), e = (1,0), penalisation factor 1, no kappa, weights on the offsets x in {-1,0,1}.
static void
replay_witnesses()
{
  for (int which = 0; which < 2; ++which)
    {
      Cfg c;
      c.kind = 'Q';
      c.b = Box{ 0, 0, 0, 0, 0, 1 };
      c.sp[0] = c.sp[1] = c.sp[2] = 1.F;
      c.pf = 1.F;
      c.only2d = false;
      c.gamma = c.eps = c.scalar = 0.F;
      c.alpha = c.eta = 0.;
      c.userw = true;
      c.wclass = which == 0 ? "asym" : "centre";
      c.w = Array<3, float>(IndexRange3D(0, 0, 0, 0, -1, 1));
      if (which == 0)
        {
          c.w[0][0][-1] = 0.F;
          c.w[0][0][0] = 0.F;
          c.w[0][0][1] = 1.F;
        }
      else
        {
          c.w[0][0][-1] = 1.F;
          c.w[0][0][0] = 2.F;
          c.w[0][0][1] = 1.F;
        }
      VoxP l = mk(c.b, c.sp), e = mk(c.b, c.sp), l1 = mk(c.b, c.sp);
      (*l)[0][0][0] = 3.F;
      (*l)[0][0][1] = 1.F;
      (*e)[0][0][0] = 1.F;
      (*l1)[0][0][0] = 4.F;
      (*l1)[0][0][1] = 1.F;
      shared_ptr<Prior> P = build(c, c.pf, l);
      const double v1 = P->compute_value(*l1), v0 = P->compute_value(*l);
      VoxP g = api_grad(*P, *l);
      VoxP He = api_htimes(*P, *l, *e, nullptr);
      const double ge = dot(*g, *e, c.b), eHe = dot(*e, *He, c.b);
      // the numbers of the Lean witnesses
      const double Lv1 = which == 0 ? 2.25 : 4.5, Lv0 = which == 0 ? 1. : 2., Lge = 2., LeHe = 1.;
      verdict(v1 == Lv1 && v0 == Lv0 && ge == Lge && eHe == LeHe, c, "the implementation reproduces the numbers of the Lean instance", v1, Lv1, 0);
      verdict(v1 == v0 + ge + 0.5 * eHe, c,
              which == 0 ? "quadratic expansion value(l+e) = value(l) + <grad,e> + 1/2<e,He> (Lean negative witness replayed)"
                         : "quadratic expansion value(l+e) = value(l) + <grad,e> + 1/2<e,He> (non-zero centre weight, Lean instance replayed)",
              v1, v0 + ge + 0.5 * eHe, 0, which == 0 ? "neighbourhood-priors:asymmetric-user-weights" : "");
      if (which == 0)
        {
          VoxP e0 = mk(c.b, c.sp), e1 = mk(c.b, c.sp);
          (*e0)[0][0][0] = 1.F;
          (*e1)[0][0][1] = 1.F;
          VoxP He0 = api_htimes(*P, *l, *e0, nullptr), He1 = api_htimes(*P, *l, *e1, nullptr);
          const double a = dot(*e0, *He1, c.b), b2 = dot(*e1, *He0, c.b);
          verdict(a == -1. && b2 == 0., c, "the implementation reproduces the numbers of the Lean negative witness (Hessian symmetry)", a, -1, 0);
          verdict(a == b2, c, "Hessian is symmetric: <u,Hv> = <v,Hu> (Lean negative witness replayed)", a, b2, 0,
                  "neighbourhood-priors:asymmetric-user-weights");
        }
    }
}

static Cfg
gen_cfg(vh::Rng& rng, char kind, int k, bool thorough)
{
  Cfg c;
  c.kind = kind;
  // sizes 1x1x1 .. 6x7x8 with singleton dimensions and shifted index ranges
  int nz, ny, nx;
  switch (k % 8)
    {
    case 0: nz = 1; ny = 1; nx = 1; break;
    case 1: nz = 1; ny = 1; nx = rng.range(2, 8); break;
    case 2: nz = rng.range(2, 6); ny = 1; nx = 1; break;
    case 3: nz = 1; ny = rng.range(2, 7); nx = rng.range(2, 8); break;
    case 4: nz = rng.range(2, 4); ny = rng.range(2, 4); nx = rng.range(2, 4); break;
    case 5: nz = rng.range(1, 3); ny = rng.range(1, 3); nx = rng.range(1, 3); break;
    case 6: nz = rng.range(3, 6); ny = rng.range(3, 7); nx = rng.range(3, 8); break;
    default: nz = rng.range(1, 6); ny = rng.range(1, 7); nx = rng.range(1, 8); break;
    }
  if (thorough && k % 16 == 14)
    {
      nz = 8; ny = 9; nx = 10;
    }
  if (kind == 'P' && k % 2 == 1)
    {
      // PLS: make sure there are strictly interior voxels as well as border voxels
      nz = rng.range(3, 5); ny = rng.range(3, 6); nx = rng.range(3, 6);
    }
  c.b.z0 = rng.range(-2, 2);
  c.b.y0 = rng.coin() ? -(ny / 2) : rng.range(-3, 3);
  c.b.x0 = rng.coin() ? -(nx / 2) : rng.range(-3, 3);
  c.b.z1 = c.b.z0 + nz - 1;
  c.b.y1 = c.b.y0 + ny - 1;
  c.b.x1 = c.b.x0 + nx - 1;
  c.sp[0] = coarse(rng, 1.F, 24, 0.125F);
  c.sp[1] = coarse(rng, 1.F, 16, 0.125F);
  c.sp[2] = rng.range(0, 2) == 0 ? c.sp[1] : coarse(rng, 1.F, 16, 0.125F);
  c.pf = rng.range(0, 11) == 0 ? 0.F : static_cast<float>(rng.range(1, 80)) / 16.F;
  c.only2d = rng.range(0, 3) == 0;
  c.gamma = rng.range(0, 4) == 0 ? 0.F : static_cast<float>(rng.range(1, 12)) / 4.F;
  c.eps = static_cast<float>(rng.range(1, 32)) / 16.F;
  c.scalar = (rng.range(0, 5) == 0) ? 5.F : static_cast<float>(rng.range(2, 24)) / 8.F;
  c.alpha = 1. + rng.range(0, 16) / 8.;
  c.eta = 0.5 + rng.range(0, 12) / 8.;
  c.userw = false;
  c.wclass = "default";
  if (kind != 'P')
    {
      const int m = rng.range(0, 9);
      if (m >= 4)
        {
          c.userw = true;
          c.wclass = "sym";
          int hz = 1, hy = 1, hx = 1;
          if (m == 5)
            hz = hy = hx = 2;
          else if (m == 6)
            hz = 0;
          else if (m == 7)
            {
              hz = rng.range(0, 2);
              hy = rng.range(0, 2);
              hx = rng.range(0, 2);
            }
          c.w = user_weights(rng, hz, hy, hx, "sym");
        }
    }
  const Box& b = c.b;
  if (rng.coin())
    {
      c.kappa = mk(b, c.sp);
      if (kind == 'P' && rng.range(0, 3) > 0)
        c.kappa->fill(coarse(rng, 0.5F, 12, 0.125F) + 0.0625F); // spatially uniform kappa (never 1)
      else
        fill_positive(*c.kappa, b, rng, true, 0.5F, 2.F);
    }
  if (kind == 'P')
    {
      c.anat = mk(b, c.sp);
      if (rng.range(0, 3) == 0)
        c.anat->fill(1.F); // flat anatomical image: PLS becomes smoothed TV
      else
        fill_positive(*c.anat, b, rng, true, 0.F, 4.F);
    }
  return c;
}


// ================================================================================================ object life cycle
// The ops `onew oparse obox okappa oanat osetw oset osetup ocall owts` describe what is done to ONE prior object; the Lean driver keeps
// the members of the object (Model.lean: NbPrior) and answers every call from them.  Covered here and nowhere else:
//  * the lazy `compute_weights` block of EVERY API function (first call on a fresh object is that function),
//  * an object that is set up again for an image of another size / voxel size (set_up does not touch the weights),
//  * objects configured by parse(): `weights :=` (post_processing re-indexes to -n/2.., even sizes), `only 2D`, `kappa filename`,
//  * setters (penalisation factor, gamma, epsilon, scalar, weights, kappa; PLS: only_2D, alpha, eta) on an object that has been used.
static std::string scratch_prefix;

static const char* const KEY_STALE = ""; // repaired (C09-4): strict

static std::vector<std::string>
fns_of(char kind)
{
  if (kind == 'Q')
    return { "value", "grad", "hrow", "htimes", "approx", "surr" };
  if (kind == 'R')
    return { "value", "grad", "hrow", "htimes" };
  if (kind == 'L')
    return { "value", "grad", "hrow", "htimes", "surr" };
  return { "value", "grad" };
}
static void
set_weights_of(char kind, Prior& p, const Array<3, float>& w)
{
  if (kind == 'Q')
    dynamic_cast<QuadraticPrior<float>&>(p).set_weights(w);
  else if (kind == 'R')
    dynamic_cast<RelativeDifferencePrior<float>&>(p).set_weights(w);
  else if (kind == 'L')
    dynamic_cast<LogcoshPrior<float>&>(p).set_weights(w);
}
static void
set_kappa_of(char kind, Prior& p, const VoxP& k)
{
  if (kind == 'Q')
    dynamic_cast<QuadraticPrior<float>&>(p).set_kappa_sptr(shared_ptr<const Img>(k));
  else if (kind == 'R')
    dynamic_cast<RelativeDifferencePrior<float>&>(p).set_kappa_sptr(shared_ptr<Img>(k));
  else if (kind == 'L')
    dynamic_cast<LogcoshPrior<float>&>(p).set_kappa_sptr(shared_ptr<Img>(k));
  else
    dynamic_cast<PLSPrior<float>&>(p).set_kappa_sptr(shared_ptr<const Img>(k));
}
static shared_ptr<const Img>
get_kappa_of(char kind, Prior& p)
{
  if (kind == 'Q')
    return dynamic_cast<QuadraticPrior<float>&>(p).get_kappa_sptr();
  if (kind == 'R')
    return dynamic_cast<RelativeDifferencePrior<float>&>(p).get_kappa_sptr();
  if (kind == 'L')
    return dynamic_cast<LogcoshPrior<float>&>(p).get_kappa_sptr();
  return dynamic_cast<PLSPrior<float>&>(p).get_kappa_sptr();
}

struct Life
{
  Cfg c;               // the members of the object as the harness set them (kind, pf, only2d, gamma, eps, scalar, alpha, eta, kappa, anat, box, sp)
  shared_ptr<Prior> P; // THE object
  VoxP cur, inp, out0;
  int rz, ry, rx;      // Hessian row asked for
};

static std::string
call_fn(char kind, Prior& p, const std::string& fn, const Life& L)
{
  const Box& b = L.c.b;
  if (fn == "value")
    return vh::hex(p.compute_value(*L.cur));
  if (fn == "grad")
    return dump(*api_grad(p, *L.cur), b);
  if (fn == "htimes")
    return dump(*api_htimes(p, *L.cur, *L.inp, L.out0.get()), b);
  if (fn == "hrow")
    return dump(*api_hrow(p, *L.cur, L.rz, L.ry, L.rx), b);
  if (fn == "approx")
    {
      VoxP o(L.out0->clone());
      p.add_multiplication_with_approximate_Hessian(*o, *L.inp);
      return dump(*o, b);
    }
  VoxP o(L.cur->get_empty_copy());
  o->fill(555.F);
  dynamic_cast<PriorWithParabolicSurrogate<Img>&>(p).parabolic_surrogate_curvature(*o, *L.cur);
  return dump(*o, b);
}
static std::string
fn_op(const std::string& fn, const Life& L)
{
  char buf[200];
  std::snprintf(buf, sizeof buf, "ocall %s %s %s %s", vh::hex(L.c.sp[0]).c_str(), vh::hex(L.c.sp[1]).c_str(), vh::hex(L.c.sp[2]).c_str(), fn.c_str());
  std::string s = buf;
  if (fn == "hrow")
    {
      std::snprintf(buf, sizeof buf, " %d %d %d", L.rz, L.ry, L.rx);
      s += buf;
    }
  return s;
}
static std::string
wts_answer(const Array<3, float>& w)
{
  const Box wb = wbox(w);
  std::ostringstream a;
  a << wb.z0 << ' ' << wb.z1 << ' ' << wb.y0 << ' ' << wb.y1 << ' ' << wb.x0 << ' ' << wb.x1;
  if (w.get_length() > 0)
    a << ' ' << dumpw(w);
  return a.str();
}

static void
o_new(Life& L)
{
  const Cfg& c = L.c;
  char buf[300];
  std::snprintf(buf, sizeof buf, "onew %c %s %d %s %s %s", c.kind, vh::hex(c.pf).c_str(), c.only2d ? 1 : 0, vh::hex(c.gamma).c_str(),
                vh::hex(c.eps).c_str(), vh::hex(c.scalar).c_str());
  if (c.kind == 'Q')
    L.P.reset(new QuadraticPrior<float>(c.only2d, c.pf));
  else if (c.kind == 'R')
    L.P.reset(new RelativeDifferencePrior<float>(c.only2d, c.pf, c.gamma, c.eps));
  else if (c.kind == 'L')
    L.P.reset(new LogcoshPrior<float>(c.only2d, c.pf, c.scalar));
  else
    L.P.reset(new PLSPrior<float>(c.only2d, c.pf));
  emit(buf, "ok");
}
static void
o_box(Life& L)
{
  const Box& b = L.c.b;
  char buf[200];
  std::snprintf(buf, sizeof buf, "obox %d %d %d %d %d %d", b.z0, b.z1, b.y0, b.y1, b.x0, b.x1);
  emit(buf, "ok");
}
static void
o_kappa(Life& L, const VoxP& k)
{
  L.c.kappa = k;
  set_kappa_of(L.c.kind, *L.P, k);
  emit(k ? "okappa 1 " + dump(*k, L.c.b) : std::string("okappa 0"), "ok");
}
static void
o_setw(Life& L, const Array<3, float>& w)
{
  set_weights_of(L.c.kind, *L.P, w);
  emit("osetw " + wts_answer(w), "ok");
}
static void
o_set(Life& L, const std::string& what, double v)
{
  Cfg& c = L.c;
  if (what == "pf")
    {
      c.pf = static_cast<float>(v);
      L.P->set_penalisation_factor(c.pf);
    }
  else if (what == "gamma")
    {
      c.gamma = static_cast<float>(v);
      dynamic_cast<RelativeDifferencePrior<float>&>(*L.P).set_gamma(c.gamma);
    }
  else if (what == "eps")
    {
      c.eps = static_cast<float>(v);
      dynamic_cast<RelativeDifferencePrior<float>&>(*L.P).set_epsilon(c.eps);
    }
  else if (what == "scalar")
    {
      c.scalar = static_cast<float>(v);
      dynamic_cast<LogcoshPrior<float>&>(*L.P).set_scalar(c.scalar);
    }
  else if (what == "alpha")
    {
      c.alpha = v;
      dynamic_cast<PLSPrior<float>&>(*L.P).set_alpha(v);
    }
  else if (what == "eta")
    {
      c.eta = v;
      dynamic_cast<PLSPrior<float>&>(*L.P).set_eta(v);
    }
  else if (what == "only2d")
    {
      c.only2d = v != 0;
      dynamic_cast<PLSPrior<float>&>(*L.P).set_only_2D(c.only2d);
      emit("oset only2d " + std::string(c.only2d ? "1" : "0"), "ok");
      return;
    }
  emit("oset " + what + " " + vh::hex(v), "ok");
}
static void
o_anat(Life& L, const VoxP& a)
{
  L.c.anat = a;
  dynamic_cast<PLSPrior<float>&>(*L.P).set_anatomical_image_sptr(a);
  emit("oanat " + dump(*a, L.c.b), "ok");
}
static void
o_setup(Life& L)
{
  if (L.P->set_up(L.cur) != Succeeded::yes)
    throw std::runtime_error("set_up failed");
  emit("osetup", "ok");
}
// new images of the current box / voxel size
static void
o_images(Life& L, vh::Rng& rng)
{
  const Box& b = L.c.b;
  L.cur = mk(b, L.c.sp);
  L.inp = mk(b, L.c.sp);
  L.out0 = mk(b, L.c.sp);
  fill_positive(*L.cur, b, rng, true, 0.5F, L.c.kind == 'P' ? 2.5F : 8.5F);
  fill_signed(*L.inp, b, rng, 2.F);
  fill_signed(*L.out0, b, rng, 4.F);
  L.rz = rng.range(b.z0, b.z1);
  L.ry = rng.range(b.y0, b.y1);
  L.rx = rng.range(b.x0, b.x1);
}
static void
o_emit_images(const Life& L)
{
  emit("img cur " + dump(*L.cur, L.c.b), "ok");
  if (L.c.kind != 'P')
    {
      emit("img inp " + dump(*L.inp, L.c.b), "ok");
      emit("img out " + dump(*L.out0, L.c.b), "ok");
    }
}
static std::string
o_call(Life& L, const std::string& fn)
{
  const std::string a = call_fn(L.c.kind, *L.P, fn, L);
  emit(fn_op(fn, L), a);
  return a;
}
static Array<3, float>
o_wts(Life& L)
{
  const Array<3, float> w = read_weights(L.c, *L.P);
  emit("owts", wts_answer(w));
  return w;
}
// a FRESH object with the members of L (weights: `w` if not empty, else the defaults it computes itself), set up for L.cur
static shared_ptr<Prior>
fresh_like(const Life& L, const Array<3, float>& w)
{
  Cfg f = L.c;
  f.userw = w.get_length() > 0;
  f.w = w;
  shared_ptr<Prior> p = build(f, f.pf, L.cur);
  return p;
}
// every API function on the object (ops) and on `ref` (not in the ops): the answers must be the same bit for bit
static void
o_all_calls_vs(Life& L, Prior& ref, const std::string& what, const std::string& key = "")
{
  for (const std::string& fn : fns_of(L.c.kind))
    {
      const std::string a = o_call(L, fn);
      const std::string r = call_fn(L.c.kind, ref, fn, L);
      verdict(a == r, L.c, what + " [" + fn + "]", 0, 0, 0, key);
    }
}

static Cfg
default_weights_cfg(vh::Rng& rng, char kind, int k, bool thorough)
{
  Cfg c = gen_cfg(rng, kind, k, thorough);
  c.userw = false;
  c.wclass = "default";
  c.w = Array<3, float>();
  return c;
}

// ---- gap 1: the first call on a fresh object is F, for every API function F
static void
session_first_call(vh::Rng& rng, char kind, int k, bool thorough)
{
  ++case_id;
  Life L;
  L.c = default_weights_cfg(rng, kind, k % 8 == 0 ? 5 : k, thorough);
  if (k % 5 != 4 && L.c.pf == 0.F)
    L.c.pf = 1.5F;
  if (k % 5 == 4)
    L.c.pf = 0.F; // nothing is computed, the weights stay empty
  o_images(L, rng);
  // reference: the object every other test uses (compute_value first)
  shared_ptr<Prior> Pv = build(L.c, L.c.pf, L.cur);
  Pv->compute_value(*L.cur);
  const Array<3, float> Wv = read_weights(L.c, *Pv);
  const std::vector<std::string> fns = fns_of(kind);
  for (const std::string& fn : fns)
    {
      o_new(L);
      o_box(L);
      o_kappa(L, L.c.kappa);
      o_setup(L);
      if (&fn == &fns[0])
        o_emit_images(L);
      const Array<3, float> W0 = o_wts(L);
      verdict(W0.get_length() == 0, L.c, "a new object has no weights before its first use", W0.get_length(), 0, 0);
      const std::string a = o_call(L, fn);
      const Array<3, float> W1 = o_wts(L);
      verdict(W1 == Wv, L.c, "weights after a first call of " + fn + " = weights after a first call of compute_value", 0, 0, 0);
      verdict(a == call_fn(kind, *Pv, fn, L), L.c, "result of " + fn + " as first call = result on the object that computed its value first", 0, 0, 0);
      // and a second, different function on the same object
      const std::string& g = fns[rng.range(0, static_cast<int>(fns.size()) - 1)];
      const std::string a2 = o_call(L, g);
      verdict(a2 == call_fn(kind, *Pv, g, L), L.c, "result of " + g + " after a first call of " + fn + " = result on the value-first object", 0, 0, 0);
      verdict(read_weights(L.c, *L.P) == Wv, L.c, "weights are computed once", 0, 0, 0);
    }
}

// ---- gap 2: one object, two images (other size and/or other voxel size); set_up again in between
static void
session_second_image(vh::Rng& rng, char kind, int k, bool thorough)
{
  ++case_id;
  Life L;
  L.c = gen_cfg(rng, kind, k, thorough);
  if (k % 3 != 2)
    {
      L.c.userw = false;
      L.c.wclass = "default";
      L.c.w = Array<3, float>();
    }
  if (L.c.pf == 0.F && k % 7 != 6)
    L.c.pf = 2.F;
  const std::vector<std::string> fns = fns_of(kind);
  o_new(L);
  if (L.c.userw)
    o_setw(L, L.c.w);
  o_box(L);
  o_images(L, rng);
  o_kappa(L, L.c.kappa);
  if (kind == 'P')
    {
      o_set(L, "only2d", L.c.only2d);
      o_set(L, "alpha", L.c.alpha);
      o_set(L, "eta", L.c.eta);
      o_anat(L, L.c.anat);
    }
  o_setup(L);
  o_emit_images(L);
  o_call(L, fns[rng.range(0, static_cast<int>(fns.size()) - 1)]);
  o_wts(L);
  // the second image
  const Cfg c2 = gen_cfg(rng, kind, k + 3, thorough);
  const int mode = k % 4; // 0: other size, same voxel size; 1: same size, other voxel size; 2, 3: both differ
  if (mode != 1)
    L.c.b = c2.b;
  const bool same_spacing = mode == 0;
  if (!same_spacing)
    {
      L.c.sp[0] = c2.sp[0];
      L.c.sp[1] = c2.sp[1];
      L.c.sp[2] = c2.sp[2] == L.c.sp[2] && c2.sp[1] == c2.sp[2] ? c2.sp[2] + 0.5F : c2.sp[2];
    }
  o_box(L);
  o_images(L, rng);
  VoxP k2;
  if (L.c.kappa)
    {
      k2 = mk(L.c.b, L.c.sp);
      fill_positive(*k2, L.c.b, rng, true, 0.5F, 2.F);
    }
  o_kappa(L, k2);
  if (kind == 'P')
    {
      VoxP a2 = mk(L.c.b, L.c.sp);
      fill_positive(*a2, L.c.b, rng, true, 0.F, 4.F);
      o_anat(L, a2);
    }
  o_setup(L);
  o_emit_images(L);
  // "every voxel spacing": the object must behave like a fresh object for the new image.  With default weights it does not when
  // the voxel size changes: the weights computed from the first image are kept (known finding)
  shared_ptr<Prior> F = fresh_like(L, L.c.userw ? L.c.w : Array<3, float>());
  const bool may_be_stale = kind != 'P' && !L.c.userw && !same_spacing;
  o_all_calls_vs(L, *F, "an object set up again for another image gives the result of a fresh object", may_be_stale ? KEY_STALE : "");
  const Array<3, float> W = o_wts(L);
  if (kind != 'P')
    verdict(W == read_weights(L.c, *F), L.c, "weights of an object set up again for another image = weights of a fresh object", 0, 0, 0,
            may_be_stale ? KEY_STALE : "");
  // all clauses of the property on the re-used object (value, gradient and Hessian must be consistent whatever weights it holds)
  if (L.c.pf != 0.F)
    run_case(L.c, rng, kind != 'Q', L.P);
}

static std::string
dec(double v)
{
  char buf[64];
  std::snprintf(buf, sizeof buf, "%.9g", v);
  return buf;
}
static std::string
remove_image_files(const std::string& stem)
{
  std::remove((stem + ".hv").c_str());
  std::remove((stem + ".v").c_str());
  std::remove((stem + ".ahv").c_str());
  return stem;
}

// ---- gap 3: the object is configured by parse(): `weights :=`, `only 2D`, `kappa filename`, ...
// shape: 0 = no weights key, 1 = 3x3x3, 2 = 5x5x5, 3 = 1x3x3, 4.. = even sizes, 9 = ragged (parse error)
static void
session_parse(vh::Rng& rng, char kind, int k, bool thorough, int shape)
{
  ++case_id;
  Life L;
  L.c = gen_cfg(rng, kind, k, thorough);
  Cfg& c = L.c;
  if (c.pf == 0.F)
    c.pf = 0.75F;
  // images read from file have index ranges 0.., -(n/2).., -(n/2)..: the kappa image must have the characteristics of the image
  {
    const int nz = c.b.nz(), ny = c.b.ny(), nx = c.b.nx();
    c.b = Box{ 0, nz - 1, -(ny / 2), -(ny / 2) + ny - 1, -(nx / 2), -(nx / 2) + nx - 1 };
  }
  const bool pls = kind == 'P';
  if (c.kappa)
    {
      c.kappa = mk(c.b, c.sp);
      fill_positive(*c.kappa, c.b, rng, true, 0.5F, 2.F);
    }
  if (pls)
    {
      c.anat = mk(c.b, c.sp);
      fill_positive(*c.anat, c.b, rng, true, 0.F, 4.F);
    }
  o_images(L, rng);
  int nz = 0, ny = 0, nx = 0;
  switch (shape)
    {
    case 1: nz = ny = nx = 3; break;
    case 2: nz = ny = nx = 5; break;
    case 3: nz = 1; ny = nx = 3; break;
    case 4: nz = 2; ny = nx = 3; break;
    case 5: nz = 3; ny = 2; nx = 3; break;
    case 6: nz = 3; ny = 3; nx = 4; break;
    case 7: nz = ny = nx = 2; break;
    case 8: nz = 1; ny = 1; nx = 2; break;
    case 9: nz = 2; ny = 2; nx = 3; break;
    default: break;
    }
  if (pls)
    nz = ny = nx = 0;
  // weights as written in the parameter file: a[z][y][x], indices from 0; symmetric about the middle element for odd sizes
  std::vector<std::vector<std::vector<float>>> a(nz, std::vector<std::vector<float>>(ny, std::vector<float>(nx, 0.F)));
  for (int z = 0; z < nz; ++z)
    for (int y = 0; y < ny; ++y)
      for (int x = 0; x < nx; ++x)
        a[z][y][x] = rng.range(0, 5) == 0 ? 0.F : static_cast<float>(rng.range(1, 64)) / 32.F;
  const bool all_odd = nz % 2 == 1 && ny % 2 == 1 && nx % 2 == 1;
  if (all_odd)
    {
      for (int z = 0; z < nz; ++z)
        for (int y = 0; y < ny; ++y)
          for (int x = 0; x < nx; ++x)
            a[nz - 1 - z][ny - 1 - y][nx - 1 - x] = a[z][y][x];
      a[nz / 2][ny / 2][nx / 2] = rng.coin() ? 0.F : 0.5F;
    }
  if (shape == 9)
    a[1][1].pop_back(); // ragged
  c.userw = nz > 0;
  c.wclass = nz == 0 ? "default" : (all_odd ? "sym" : "asym");
  c.only2d = pls ? rng.coin() : (nz == 0 ? rng.coin() : c.only2d);

  // ---- the parameter text
  std::ostringstream t, op;
  const char* const name = kind == 'Q' ? "Quadratic Prior Parameters" : kind == 'R' ? "Relative Difference Prior Parameters" : kind == 'L' ? "Logcosh Prior Parameters" : "PLS Prior Parameters";
  t << name << ":=\n penalisation factor := " << dec(c.pf) << "\n only 2D := " << (c.only2d ? 1 : 0) << "\n";
  if (kind == 'R')
    t << " gamma value := " << dec(c.gamma) << "\n epsilon value := " << dec(c.eps) << "\n";
  if (kind == 'L')
    t << " scalar := " << dec(c.scalar) << "\n";
  if (pls)
    t << " alpha := " << dec(c.alpha) << "\n eta := " << dec(c.eta) << "\n";
  std::string kstem, astem;
  if (c.kappa)
    {
      kstem = scratch_prefix + "_kappa" + std::to_string(case_id);
      write_to_file(kstem + ".hv", *c.kappa);
      t << " kappa filename := " << kstem << ".hv\n";
    }
  if (pls)
    {
      astem = scratch_prefix + "_anat" + std::to_string(case_id);
      write_to_file(astem + ".hv", *c.anat);
      t << " anatomical_filename := " << astem << ".hv\n";
    }
  op << "oparse " << kind << ' ' << vh::hex(c.pf) << ' ' << (c.only2d ? 1 : 0) << ' ' << vh::hex(c.gamma) << ' ' << vh::hex(c.eps) << ' '
     << vh::hex(c.scalar) << " W " << nz;
  if (nz > 0)
    {
      t << " weights := {";
      for (int z = 0; z < nz; ++z)
        {
          t << (z ? ", {" : "{");
          op << ' ' << a[z].size();
          for (size_t y = 0; y < a[z].size(); ++y)
            {
              t << (y ? ", {" : "{");
              op << ' ' << a[z][y].size();
              for (size_t x = 0; x < a[z][y].size(); ++x)
                {
                  t << (x ? "," : "") << dec(a[z][y][x]);
                  op << ' ' << vh::hex(a[z][y][x]);
                }
              t << "}";
            }
          t << "}";
        }
      t << "}\n";
    }
  t << "END " << name << ":=\n";

  if (kind == 'Q')
    L.P.reset(new QuadraticPrior<float>());
  else if (kind == 'R')
    L.P.reset(new RelativeDifferencePrior<float>());
  else if (kind == 'L')
    L.P.reset(new LogcoshPrior<float>());
  else
    L.P.reset(new PLSPrior<float>());
  std::istringstream is(t.str());
  const bool parsed = L.P->parse(is);
  if (!kstem.empty())
    remove_image_files(kstem);
  if (!astem.empty())
    remove_image_files(astem);
  emit(op.str(), parsed ? "ok" : "err");
  verdict(parsed == (shape != 9), c, "parse() accepts regular weights arrays and rejects ragged ones", parsed, shape != 9, 0);
  if (!parsed)
    return;
  o_box(L);
  if (pls)
    {
      PLSPrior<float>& pp = dynamic_cast<PLSPrior<float>&>(*L.P);
      emit("oset alpha " + vh::hex(pp.get_alpha()), "ok");
      emit("oset eta " + vh::hex(pp.get_eta()), "ok");
      verdict(pp.get_alpha() == c.alpha && pp.get_eta() == c.eta && pp.get_only_2D() == c.only2d, c, "parse() stores alpha, eta, only 2D", pp.get_alpha(), c.alpha, 0);
      shared_ptr<const Img> an = pp.get_anatomical_image_sptr();
      std::string why;
      const bool same = an && an->has_same_characteristics(*L.cur, why);
      verdict(same, c, "anatomical image read from `anatomical_filename` has the characteristics of the image written", 0, 0, 0);
      if (!same)
        return;
      emit("oanat " + dump(*an, c.b), "ok");
      verdict(dump(*an, c.b) == dump(*c.anat, c.b), c, "anatomical image read from file = image written", 0, 0, 0);
    }
  {
    shared_ptr<const Img> kp = get_kappa_of(kind, *L.P);
    verdict(!kp == !c.kappa, c, "kappa is read from `kappa filename`", !kp, !c.kappa, 0);
    std::string why;
    if (kp && !kp->has_same_characteristics(*L.cur, why))
      {
        verdict(false, c, "kappa image read from file has the characteristics of the image written: " + why, 0, 0, 0);
        return;
      }
    emit(kp ? "okappa 1 " + dump(*kp, c.b) : std::string("okappa 0"), "ok");
    if (kp && c.kappa)
      verdict(dump(*kp, c.b) == dump(*c.kappa, c.b), c, "kappa image read from file = image written", 0, 0, 0);
  }
  verdict(L.P->get_penalisation_factor() == c.pf, c, "parse() stores the penalisation factor", L.P->get_penalisation_factor(), c.pf, 0);
  o_setup(L);
  o_emit_images(L);
  Array<3, float> W = pls ? Array<3, float>() : o_wts(L);
  if (!pls)
    {
      // documented: the middle element of each dimension gets index 0
      Array<3, float> E;
      if (nz > 0)
        {
          E = Array<3, float>(IndexRange3D(-(nz / 2), -(nz / 2) + nz - 1, -(ny / 2), -(ny / 2) + ny - 1, -(nx / 2), -(nx / 2) + nx - 1));
          for (int z = 0; z < nz; ++z)
            for (int y = 0; y < ny; ++y)
              for (int x = 0; x < nx; ++x)
                E[z - nz / 2][y - ny / 2][x - nx / 2] = a[z][y][x];
        }
      verdict(W == E, c, "weights given with `weights :=` are re-indexed to -n/2 .. (values in the order written)", 0, 0, 0);
      c.w = W;
    }
  // reference: the same configuration made with the constructor and the setters (default weights: `only 2D` as parsed, which only
  // QuadraticPrior's constructor can express: take the weights the parsed object computes)
  const std::string first = o_call(L, "value");
  if (!pls)
    W = o_wts(L);
  {
    Cfg f = c;
    f.userw = W.get_length() > 0;
    f.w = W;
    shared_ptr<Prior> F = build(f, f.pf, L.cur);
    verdict(first == call_fn(kind, *F, "value", L), c, "object configured by parse() = object configured by constructor and setters [value]", 0, 0, 0);
    o_all_calls_vs(L, *F, "object configured by parse() = object configured by constructor and setters");
    if (!pls && nz == 0)
      {
        // default weights of a parsed object: 1x3x3 if `only 2D`, else 3x3x3 (RDP and log-cosh can be 2-D only through the parser)
        const Box wb = wbox(W);
        verdict(wb.z0 == (c.only2d ? 0 : -1) && wb.z1 == (c.only2d ? 0 : 1) && wb.y0 == -1 && wb.y1 == 1 && wb.x0 == -1 && wb.x1 == 1, c,
                "`only 2D` selects 1x3x3 default weights", wb.z0, c.only2d ? 0 : -1, 0);
      }
  }
  c.userw = W.get_length() > 0;
  run_case(c, rng, kind != 'Q', L.P);
}

// ---- gap 4: setters on an object that has been used
static void
session_setters(vh::Rng& rng, char kind, int k, bool thorough)
{
  ++case_id;
  Life L;
  L.c = gen_cfg(rng, kind, k, thorough);
  Cfg& c = L.c;
  const bool pls = kind == 'P';
  if (k % 4 == 3)
    c.pf = 0.F; // used first with penalisation factor 0 (nothing computed), then switched on
  else if (c.pf == 0.F)
    c.pf = 1.25F;
  const std::vector<std::string> fns = fns_of(kind);
  o_new(L);
  if (c.userw)
    o_setw(L, c.w);
  o_box(L);
  o_images(L, rng);
  o_kappa(L, c.kappa);
  if (pls)
    {
      o_set(L, "only2d", c.only2d);
      o_set(L, "alpha", c.alpha);
      o_set(L, "eta", c.eta);
      o_anat(L, c.anat);
    }
  o_setup(L);
  o_emit_images(L);
  o_call(L, "value");
  o_call(L, fns[rng.range(0, static_cast<int>(fns.size()) - 1)]);
  bool stale = false; // PLS: true while only_2D / eta differ from the values set_up used (the anatomical norm it stored is then stale)
  if (!pls)
    o_wts(L);
  const int nsteps = 4;
  for (int step = 0; step < nsteps; ++step)
    {
      // which member changes
      int what = step == 0 ? 0 : rng.range(0, 4);
      std::string v_prev;
      const float pf_prev = c.pf;
      if (what == 0)
        {
          v_prev = o_call(L, "value");
          float npf = static_cast<float>(rng.range(1, 80)) / 16.F;
          if (step > 0 && rng.range(0, 4) == 0)
            npf = 0.F;
          o_set(L, "pf", npf);
        }
      else if (what == 1)
        {
          if (kind == 'R')
            {
              o_set(L, "gamma", static_cast<float>(rng.range(0, 12)) / 4.F);
              o_set(L, "eps", static_cast<float>(rng.range(1, 32)) / 16.F);
            }
          else if (kind == 'L')
            o_set(L, "scalar", static_cast<float>(rng.range(2, 24)) / 8.F);
          else if (pls)
            o_set(L, "alpha", 1. + rng.range(0, 16) / 8.);
          else
            o_set(L, "pf", static_cast<float>(rng.range(1, 80)) / 16.F);
        }
      else if (what == 2)
        {
          if (pls)
            {
              // eta / only_2D enter the anatomical norm that set_up() stores: with or without a new set_up
              if (rng.coin())
                o_set(L, "eta", 0.5 + rng.range(0, 12) / 8.);
              else if (!c.only2d)
                o_set(L, "only2d", 1); // 3-D -> 2-D (the other way needs the z-gradient that a 2-D set_up does not make)
              if (rng.coin())
                {
                  o_setup(L);
                  stale = false;
                }
              else
                stale = true;
            }
          else
            {
              // other user weights, or none (the defaults are computed again at the next use)
              const int m = rng.range(0, 3);
              if (m == 0)
                {
                  c.userw = false;
                  c.wclass = "default";
                  o_setw(L, Array<3, float>());
                }
              else
                {
                  c.userw = true;
                  c.wclass = "sym";
                  c.w = user_weights(rng, m == 1 ? 1 : rng.range(0, 2), 1, m == 3 ? 2 : 1, "sym");
                  o_setw(L, c.w);
                }
              o_setup(L); // RelativeDifferencePrior::set_weights resets _already_set_up
            }
        }
      else if (what == 3)
        {
          VoxP k2;
          if (rng.range(0, 2) > 0)
            {
              k2 = mk(c.b, c.sp);
              fill_positive(*k2, c.b, rng, true, 0.5F, 2.F);
            }
          o_kappa(L, k2);
          o_setup(L); // RelativeDifferencePrior::set_kappa_sptr resets _already_set_up
        }
      else
        {
          // new image values, same object
          o_images(L, rng);
          o_emit_images(L);
        }
      const Array<3, float> Wnow = pls ? Array<3, float>() : read_weights(c, *L.P);
      if (!stale)
        {
          // a fresh object with the present members (and the weights the object holds, if any)
          shared_ptr<Prior> F = fresh_like(L, Wnow);
          o_all_calls_vs(L, *F, "object after setters = fresh object with the same members");
        }
      else
        for (const std::string& fn : fns)
          o_call(L, fn);
      if (!pls)
        {
          const Array<3, float> W = o_wts(L);
          if (!c.userw && c.pf != 0.F)
            {
              Cfg f = c;
              shared_ptr<Prior> F0 = build(f, f.pf, L.cur);
              F0->compute_value(*L.cur);
              verdict(W == read_weights(c, *F0), c, "default weights of a re-configured object = default weights of a fresh object", 0, 0, 0);
            }
        }
      // linear in the penalisation factor, on ONE object
      const std::string v_now = call_fn(kind, *L.P, "value", L);
      if (what == 0 && pf_prev != 0.F && c.pf != 0.F)
        {
          const double a = std::strtod(v_now.c_str(), nullptr) * pf_prev, e = std::strtod(v_prev.c_str(), nullptr) * c.pf;
          verdict(std::fabs(a - e) <= 64 * UF * std::fabs(e), c, "value scales linearly with the penalisation factor (set_penalisation_factor on a used object)", a, e, 64 * UF * std::fabs(e));
        }
      if (what == 0 && c.pf == 0.F)
        verdict(std::strtod(v_now.c_str(), nullptr) == 0., c, "value is 0 after set_penalisation_factor(0)", std::strtod(v_now.c_str(), nullptr), 0, 0);
    }
  if (stale)
    o_setup(L);
  // all clauses of the property on the object as it is now
  if (c.pf != 0.F)
    run_case(c, rng, kind != 'Q', L.P);
}


// The Lean instance C09_default_weights_stale_after_set_up_fails replayed on the implementation: QuadraticPrior(false, 1) used once with an
// image of voxel size (1,1,1), then set up again for the 1x2x1 image (3,1) of voxel size (z,y,x) = (1,2,1): value 2, fresh object 1.
static void
replay_stale_witness()
{
  ++case_id;
  Cfg c;
  c.kind = 'Q';
  c.b = Box{ 0, 0, 0, 1, 0, 0 };
  c.sp[0] = 1.F;
  c.sp[1] = 2.F;
  c.sp[2] = 1.F;
  c.pf = 1.F;
  c.only2d = false;
  c.gamma = c.eps = c.scalar = 0.F;
  c.alpha = c.eta = 0.;
  c.userw = false;
  c.wclass = "default";
  const float sp1[3] = { 1.F, 1.F, 1.F };
  VoxP first = mk(c.b, sp1), l = mk(c.b, c.sp);
  first->fill(1.F);
  (*l)[0][0][0] = 3.F;
  (*l)[0][1][0] = 1.F;
  shared_ptr<Prior> P = build(c, c.pf, first);
  P->compute_value(*first);
  P->set_up(l);
  const double used = P->compute_value(*l);
  shared_ptr<Prior> F = build(c, c.pf, l);
  const double fresh = F->compute_value(*l);
  verdict(fresh == 1., c, "the implementation reproduces the number of the Lean instance (fresh object)", fresh, 1, 0);
  verdict(used == 1., c, "the implementation reproduces the number of the Lean instance (re-used object)", used, 1, 0);
  verdict(used == fresh, c, "an object set up again for another image gives the result of a fresh object (Lean negative witness replayed)", used, fresh, 0, KEY_STALE);
}

int
main(int argc, char** argv)
{
  if (argc < 5)
    {
      std::fprintf(stderr, "usage: %s <seed> <quick|thorough> <opsfile> <implfile>\n", argv[0]);
      return 2;
    }
  const uint64_t seed = std::strtoull(argv[1], nullptr, 10);
  const bool thorough = std::string(argv[2]) == "thorough";
  ops = std::fopen(argv[3], "w");
  out = std::fopen(argv[4], "w");
  orc = std::fopen((std::string(argv[4]) + ".oracle").c_str(), "w");
  if (!ops || !out || !orc)
    return 2;
  scratch_prefix = argv[4];
  vh::quiet();
  vh::Rng rng(seed * 0x100000001B3ULL + 0xC09);

  try
    {
      const int nQ = thorough ? 320 : 96, nR = thorough ? 240 : 72, nL = thorough ? 200 : 60, nP = thorough ? 160 : 48;
      for (int k = 0; k < nQ; ++k)
        run_case(gen_cfg(rng, 'Q', k, thorough), rng, false);
      for (int k = 0; k < nR; ++k)
        run_case(gen_cfg(rng, 'R', k, thorough), rng, true);
      for (int k = 0; k < nL; ++k)
        run_case(gen_cfg(rng, 'L', k, thorough), rng, true);
      for (int k = 0; k < nP; ++k)
        run_case(gen_cfg(rng, 'P', k, thorough), rng, true);
      replay_witnesses();
      replay_stale_witness();
      // ---- object life cycle (see above)
      {
        const char k4[4] = { 'Q', 'R', 'L', 'P' };
        const int m = thorough ? 8 : 2;
        for (int ki = 0; ki < 3; ++ki)
          for (int k = 0; k < 10 * m; ++k)
            session_first_call(rng, k4[ki], k, thorough);
        for (int ki = 0; ki < 4; ++ki)
          for (int k = 0; k < (ki == 0 ? 12 : 8) * m; ++k)
            session_second_image(rng, k4[ki], k + 1, thorough);
        for (int ki = 0; ki < 4; ++ki)
          for (int rep = 0; rep < m; ++rep)
            for (int shape = 0; shape <= (ki == 3 ? 2 : 9); ++shape)
              session_parse(rng, k4[ki], 3 + shape + rep, thorough, shape);
        for (int ki = 0; ki < 4; ++ki)
          for (int k = 0; k < 8 * m; ++k)
            session_setters(rng, k4[ki], k + 1, thorough);
      }
      // PLS: 3-D case without kappa and with a spatially varying kappa (present for every seed; the two classes of inputs on which the
      // gradient was not the derivative of the value before the repairs C09-1 / C09-2)
      for (int k = 0; k < 2; ++k)
        {
          Cfg c = gen_cfg(rng, 'P', 1, thorough);
          if (c.pf == 0.F)
            c.pf = 1.F;
          c.only2d = false;
          if (k == 0)
            c.kappa.reset(); // border voxels, no kappa
          else
            {
              c.kappa = mk(c.b, c.sp);
              fill_positive(*c.kappa, c.b, rng, true, 0.5F, 2.F); // spatially varying kappa
            }
          run_case(c, rng, true);
        }
      // user weights with a non-zero centre weight (value and gradient do not depend on it, so the Hessian must not either): strict
      const char kinds[3] = { 'Q', 'R', 'L' };
      for (int ki = 0; ki < 3; ++ki)
        for (int k = 0; k < 2; ++k)
          {
            Cfg c = gen_cfg(rng, kinds[ki], 4 + 2 * k, thorough);
            c.userw = true;
            c.wclass = "centre";
            c.w = user_weights(rng, 1, 1, 1, "centre");
            if (c.pf == 0.F)
              c.pf = 1.F;
            run_case(c, rng, kinds[ki] != 'Q');
          }
      // asymmetric user weights: the input class on which the code is known not to satisfy all clauses (reported under a stable key)
      for (int ki = 0; ki < 3; ++ki)
        for (int k = 0; k < (ki == 0 ? 3 : 2); ++k)
          {
            Cfg c = gen_cfg(rng, kinds[ki], 4 + 2 * k, thorough);
            c.userw = true;
            c.wclass = "asym";
            c.w = user_weights(rng, k == 0 ? 0 : 1, k == 0 ? 0 : 1, 1, "asym");
            if (c.pf == 0.F)
              c.pf = 1.F;
            run_case(c, rng, kinds[ki] != 'Q');
          }
    }
  catch (std::exception& e)
    {
      std::fprintf(orc, "ORACLE-FAIL exception from the implementation: %s\n", e.what());
      ++oracle_fails;
    }
  std::fprintf(orc, "ORACLE-DONE checks=%ld fails=%ld\n", oracle_checks, oracle_fails);
  std::fclose(ops);
  std::fclose(out);
  std::fclose(orc);
  return 0;
}
