// C09 — implementation side.  Priors: value, gradient and Hessian are mutually consistent and convex.
// Drives the REAL classes QuadraticPrior<float>, RelativeDifferencePrior<float>, LogcoshPrior<float>, PLSPrior<float>
// through the GeneralisedPrior public API (compute_value, compute_gradient, compute_Hessian, accumulate_Hessian_times_input,
// add_multiplication_with_approximate_Hessian, parabolic_surrogate_curvature, is_convex, get_weights) on generated
// images (1x1x1 .. ~6x7x8, singleton dimensions, shifted index ranges, anisotropic voxel sizes), default / user weights,
// kappa images, penalisation factors and prior parameters.
// Usage: c09_priors <seed> <quick|thorough> <opsfile> <implfile>
//   <opsfile>        one operation per line (line protocol, answered by lean/Driver/C09.lean)
//   <implfile>       the implementation's answer to each operation
//   <implfile>.oracle  verdicts of the property oracle (the property's own statement evaluated on the implementation)
//
// Line protocol (all floats as C99 hex):
//   cfg <Q|R|L|P> <pf> <only2d> <gamma> <eps> <scalar> <alpha> <eta>  <z0 z1 y0 y1 x0 x1>  <wz0 wz1 wy0 wy1 wx0 wx1> <weights...> K <0|1> [kappa...] A <0|1> [anat...]
//   defw <kind> <vz> <vy> <vx> <only2d> -> the default weights as computed by the class (read back with get_weights())
//   img <cur|inp|out> <values...>       -> ok
//   value | grad | htimes | hrow z y x | approx | surr      (see Driver/C09.lean)
#include "stir_fixtures.h"
#include "common.h"
#include "stir/recon_buildblock/QuadraticPrior.h"
#include "stir/recon_buildblock/RelativeDifferencePrior.h"
#include "stir/recon_buildblock/LogcoshPrior.h"
#include "stir/recon_buildblock/PLSPrior.h"
#include "stir/recon_buildblock/PriorWithParabolicSurrogate.h"
#include "stir/VoxelsOnCartesianGrid.h"
#include "stir/IndexRange3D.h"
#include "stir/Succeeded.h"
#include <cmath>
#include <algorithm>
#include <map>

using namespace stir;

typedef DiscretisedDensity<3, float> Img;
typedef VoxelsOnCartesianGrid<float> Vox;
typedef shared_ptr<Vox> VoxP;
typedef GeneralisedPrior<Img> Prior;

static const double UF = 5.9604644775390625e-08; // 2^-24, unit round-off of float

struct Box
{
  int z0, z1, y0, y1, x0, x1;
  int nz() const { return z1 - z0 + 1; }
  int ny() const { return y1 - y0 + 1; }
  int nx() const { return x1 - x0 + 1; }
  int n() const { return nz() * ny() * nx(); }
  bool has(int z, int y, int x) const { return z >= z0 && z <= z1 && y >= y0 && y <= y1 && x >= x0 && x <= x1; }
};
#define FORBOX(b) \
  for (int z = (b).z0; z <= (b).z1; ++z) \
    for (int y = (b).y0; y <= (b).y1; ++y) \
      for (int x = (b).x0; x <= (b).x1; ++x)

static VoxP
mk(const Box& b, const float* sp)
{
  return VoxP(new Vox(IndexRange3D(b.z0, b.z1, b.y0, b.y1, b.x0, b.x1),
                      CartesianCoordinate3D<float>(0.F, 0.F, 0.F),
                      CartesianCoordinate3D<float>(sp[0], sp[1], sp[2])));
}
static VoxP
copy_of(const Vox& a)
{
  return VoxP(a.clone());
}
static std::string
dump(const Img& a, const Box& b)
{
  std::string s;
  FORBOX(b)
  {
    if (!s.empty())
      s += ' ';
    s += vh::hex(static_cast<double>(a[z][y][x]));
  }
  return s;
}
static std::string
dumpw(const Array<3, float>& w)
{
  std::string s;
  for (int z = w.get_min_index(); z <= w.get_max_index(); ++z)
    for (int y = w[z].get_min_index(); y <= w[z].get_max_index(); ++y)
      for (int x = w[z][y].get_min_index(); x <= w[z][y].get_max_index(); ++x)
        {
          if (!s.empty())
            s += ' ';
          s += vh::hex(static_cast<double>(w[z][y][x]));
        }
  return s;
}
static Box
wbox(const Array<3, float>& w)
{
  Box b = { 0, -1, 0, -1, 0, -1 };
  if (w.get_length() == 0)
    return b;
  b.z0 = w.get_min_index();
  b.z1 = w.get_max_index();
  b.y0 = w[b.z0].get_min_index();
  b.y1 = w[b.z0].get_max_index();
  b.x0 = w[b.z0][b.y0].get_min_index();
  b.x1 = w[b.z0][b.y0].get_max_index();
  return b;
}
static double
dot(const Img& a, const Img& b, const Box& bx)
{
  double s = 0;
  FORBOX(bx) s += static_cast<double>(a[z][y][x]) * static_cast<double>(b[z][y][x]);
  return s;
}
static double
absdot(const Img& a, const Img& b, const Box& bx)
{
  double s = 0;
  FORBOX(bx) s += std::fabs(static_cast<double>(a[z][y][x]) * static_cast<double>(b[z][y][x]));
  return s;
}
static double
maxabs(const Img& a, const Box& bx)
{
  double s = 0;
  FORBOX(bx) s = std::max(s, std::fabs(static_cast<double>(a[z][y][x])));
  return s;
}

// ------------------------------------------------------------------------------------------------ configuration
struct Cfg
{
  char kind; // Q R L P
  Box b;
  float sp[3];
  float pf;
  bool only2d;
  float gamma, eps, scalar;
  double alpha, eta;
  bool userw;
  Array<3, float> w; // user weights, or (after read-back) the default weights
  VoxP kappa;        // may be null
  VoxP anat;         // PLS only
  std::string wclass; // "default", "sym", "asym", "centre"
};

static shared_ptr<Prior>
build(const Cfg& c, float pf, const VoxP& target)
{
  shared_ptr<Prior> p;
  if (c.kind == 'Q')
    {
      shared_ptr<QuadraticPrior<float>> q(new QuadraticPrior<float>(c.only2d, pf));
      if (c.userw)
        q->set_weights(c.w);
      if (c.kappa)
        q->set_kappa_sptr(c.kappa);
      p = q;
    }
  else if (c.kind == 'R')
    {
      shared_ptr<RelativeDifferencePrior<float>> q(new RelativeDifferencePrior<float>(c.only2d, pf, c.gamma, c.eps));
      if (c.userw)
        q->set_weights(c.w);
      if (c.kappa)
        q->set_kappa_sptr(c.kappa);
      p = q;
    }
  else if (c.kind == 'L')
    {
      shared_ptr<LogcoshPrior<float>> q(new LogcoshPrior<float>(c.only2d, pf, c.scalar));
      if (c.userw)
        q->set_weights(c.w);
      if (c.kappa)
        q->set_kappa_sptr(c.kappa);
      p = q;
    }
  else
    {
      shared_ptr<PLSPrior<float>> q(new PLSPrior<float>(c.only2d, pf));
      // NB the constructor PLSPrior(only_2D, pf) calls set_defaults() after initialising only_2D, i.e. ignores its first argument
      q->set_only_2D(c.only2d);
      q->set_alpha(c.alpha);
      q->set_eta(c.eta);
      q->set_anatomical_image_sptr(c.anat);
      if (c.kappa)
        q->set_kappa_sptr(c.kappa);
      p = q;
    }
  if (p->set_up(target) != Succeeded::yes)
    throw std::runtime_error("set_up failed");
  return p;
}
static Array<3, float>
read_weights(const Cfg& c, Prior& p)
{
  if (c.kind == 'Q')
    return dynamic_cast<QuadraticPrior<float>&>(p).get_weights();
  if (c.kind == 'R')
    return dynamic_cast<RelativeDifferencePrior<float>&>(p).get_weights();
  if (c.kind == 'L')
    return dynamic_cast<LogcoshPrior<float>&>(p).get_weights();
  return Array<3, float>();
}

// thin wrappers over the public API
static VoxP
api_grad(Prior& p, const Vox& cur)
{
  VoxP g(cur.get_empty_copy());
  g->fill(12345.F); // "The derived class should overwrite any data in prior_gradient"
  p.compute_gradient(*g, cur);
  return g;
}
static VoxP
api_htimes(Prior& p, const Vox& cur, const Vox& inp, const Vox* out0)
{
  VoxP o(out0 ? out0->clone() : cur.get_empty_copy());
  p.accumulate_Hessian_times_input(*o, cur, inp);
  return o;
}
static VoxP
api_hrow(Prior& p, const Vox& cur, int z, int y, int x)
{
  VoxP o(cur.get_empty_copy());
  o->fill(777.F); // must be overwritten (zero outside the neighbourhood)
  p.compute_Hessian(*o, make_coordinate(z, y, x), cur);
  return o;
}

// ------------------------------------------------------------------------------------------------ generators
static float
coarse(vh::Rng& r, float lo, int steps, float step)
{
  return lo + step * static_cast<float>(r.range(0, steps));
}
static void
fill_positive(Vox& a, const Box& b, vh::Rng& r, bool coarse_grid, float lo, float hi)
{
  FORBOX(b)
  {
    if (coarse_grid)
      a[z][y][x] = lo + static_cast<float>(r.range(0, static_cast<int>((hi - lo) * 512.F))) / 512.F;
    else
      a[z][y][x] = static_cast<float>(lo + (hi - lo) * r.unit());
  }
}
static void
fill_signed(Vox& a, const Box& b, vh::Rng& r, float amp)
{
  FORBOX(b) a[z][y][x] = amp * static_cast<float>(r.range(-256, 256)) / 256.F;
}
static Array<3, float>
user_weights(vh::Rng& r, int hz, int hy, int hx, const std::string& cls)
{
  Array<3, float> w(IndexRange3D(-hz, hz, -hy, hy, -hx, hx));
  for (int z = -hz; z <= hz; ++z)
    for (int y = -hy; y <= hy; ++y)
      for (int x = -hx; x <= hx; ++x)
        {
          // fill one half, mirror the other (symmetric: w(-d) = w(d))
          const bool first_half = (z > 0) || (z == 0 && y > 0) || (z == 0 && y == 0 && x > 0);
          if (z == 0 && y == 0 && x == 0)
            w[z][y][x] = 0.F;
          else if (first_half || cls == "asym")
            w[z][y][x] = r.range(0, 5) == 0 ? 0.F : static_cast<float>(r.range(1, 64)) / 32.F;
        }
  if (cls != "asym")
    for (int z = -hz; z <= hz; ++z)
      for (int y = -hy; y <= hy; ++y)
        for (int x = -hx; x <= hx; ++x)
          {
            const bool first_half = (z > 0) || (z == 0 && y > 0) || (z == 0 && y == 0 && x > 0);
            if (first_half)
              w[-z][-y][-x] = w[z][y][x];
          }
  if (cls == "centre")
    w[0][0][0] = static_cast<float>(r.range(1, 64)) / 32.F;
  return w;
}
static bool
weights_symmetric(const Array<3, float>& w)
{
  const Box b = wbox(w);
  if (b.z0 != -b.z1 || b.y0 != -b.y1 || b.x0 != -b.x1)
    return false;
  FORBOX(b)
  if (w[z][y][x] != w[-z][-y][-x])
    return false;
  return true;
}

// ------------------------------------------------------------------------------------------------ main
static FILE *ops, *out, *orc;
static long oracle_checks = 0, oracle_fails = 0;
static std::map<std::string, int> candidate_seen;

static std::string
describe(const Cfg& c)
{
  char buf[400];
  std::snprintf(buf, sizeof buf, "prior=%c box=[%d..%d]x[%d..%d]x[%d..%d] spacing=(%g,%g,%g) pf=%g only2d=%d weights=%s kappa=%d gamma=%g eps=%g scalar=%g alpha=%g eta=%g",
                c.kind, c.b.z0, c.b.z1, c.b.y0, c.b.y1, c.b.x0, c.b.x1, c.sp[0], c.sp[1], c.sp[2], c.pf, c.only2d, c.wclass.c_str(),
                c.kappa ? 1 : 0, c.gamma, c.eps, c.scalar, c.alpha, c.eta);
  return buf;
}
// ok==false -> the clause `what` of the property is false on the implementation for this input
static void
verdict(bool ok, const Cfg& c, const std::string& what, double lhs, double rhs, double tol, const std::string& candidate_key = "")
{
  ++oracle_checks;
  if (ok)
    return;
  if (!candidate_key.empty())
    {
      if (candidate_seen[candidate_key]++ == 0)
        std::fprintf(orc, "KNOWN-CANDIDATE %s %s: got %.9g expected %.9g (tolerance %.3g) [%s]\n", candidate_key.c_str(), what.c_str(), lhs, rhs, tol,
                     describe(c).c_str());
      return;
    }
  ++oracle_fails;
  std::fprintf(orc, "ORACLE-FAIL %s: got %.9g expected %.9g (tolerance %.3g) [%s]\n", what.c_str(), lhs, rhs, tol, describe(c).c_str());
}

static long case_id = 0;
static void
emit(const std::string& op, const std::string& answer)
{
  // the trailing "@<case>" token is ignored by the driver; it makes the operation lines of different cases distinct
  if (op.compare(0, 3, "cfg") == 0 || op.compare(0, 4, "defw") == 0)
    std::fprintf(ops, "%s\n", op.c_str());
  else
    std::fprintf(ops, "%s @%ld\n", op.c_str(), case_id);
  std::fprintf(out, "%s\n", answer.c_str());
}

static std::string
cfg_line(const Cfg& c)
{
  std::ostringstream s;
  const Box wb = wbox(c.w);
  s << "cfg " << c.kind << ' ' << vh::hex(c.pf) << ' ' << (c.only2d ? 1 : 0) << ' ' << vh::hex(c.gamma) << ' ' << vh::hex(c.eps) << ' '
    << vh::hex(c.scalar) << ' ' << vh::hex(c.alpha) << ' ' << vh::hex(c.eta) << ' ' << c.b.z0 << ' ' << c.b.z1 << ' ' << c.b.y0 << ' '
    << c.b.y1 << ' ' << c.b.x0 << ' ' << c.b.x1 << ' ' << wb.z0 << ' ' << wb.z1 << ' ' << wb.y0 << ' ' << wb.y1 << ' ' << wb.x0 << ' '
    << wb.x1;
  if (c.w.get_length() > 0)
    s << ' ' << dumpw(c.w);
  s << " K " << (c.kappa ? 1 : 0);
  if (c.kappa)
    s << ' ' << dump(*c.kappa, c.b);
  s << " A " << (c.anat ? 1 : 0);
  if (c.anat)
    s << ' ' << dump(*c.anat, c.b);
  return s.str();
}

// S_j = pf * sum over in-image neighbours of (|w(d)| + |w(-d)|) kappa_j kappa_{j+d}   (scale of everything voxel j takes part in)
static double
local_scale(const Cfg& c, int z, int y, int x, bool both_directions)
{
  const Box wb = wbox(c.w);
  double s = 0;
  for (int dz = wb.z0; dz <= wb.z1; ++dz)
    for (int dy = wb.y0; dy <= wb.y1; ++dy)
      for (int dx = wb.x0; dx <= wb.x1; ++dx)
        {
          if (!c.b.has(z + dz, y + dy, x + dx))
            continue;
          double ww = std::fabs(c.w[dz][dy][dx]);
          if (both_directions && wb.has(-dz, -dy, -dx))
            ww += std::fabs(c.w[-dz][-dy][-dx]);
          const double kk = c.kappa ? static_cast<double>((*c.kappa)[z][y][x]) * (*c.kappa)[z + dz][y + dy][x + dx] : 1.0;
          s += ww * kk;
        }
  return s * std::fabs(c.pf);
}

static void
run_case(const Cfg& c0, vh::Rng& rng, bool fd_friendly)
{
  ++case_id;
  Cfg c = c0;
  const Box& b = c.b;
  VoxP cur = mk(b, c.sp);
  const bool pls = c.kind == 'P';
  // PLS: smaller dynamic range (conditioning of sqrt(alpha^2+|g|^2-<g,xi>^2) in float)
  fill_positive(*cur, b, rng, fd_friendly || rng.coin(), 0.5F, pls ? 2.5F : 8.5F);
  shared_ptr<Prior> P = build(c, c.pf, cur);
  const double v0 = P->compute_value(*cur);

  // ---- default weights are computed lazily on first use: read them back (and send them to the model as data)
  if (!pls && !c.userw)
    {
      Cfg probe = c;
      shared_ptr<Prior> Pp = build(probe, 1.F, cur);
      Pp->compute_value(*cur);
      c.w = read_weights(c, *Pp);
      if (c.pf != 0.F)
        {
          const Array<3, float> w2 = read_weights(c, *P);
          verdict(w2 == c.w, c, "default weights do not depend on the penalisation factor / are computed once", 0, 0, 0);
        }
      char buf[200];
      std::snprintf(buf, sizeof buf, "defw %c %s %s %s %d", c.kind, vh::hex(c.sp[0]).c_str(), vh::hex(c.sp[1]).c_str(), vh::hex(c.sp[2]).c_str(), c.only2d ? 1 : 0);
      const Box wb = wbox(c.w);
      std::ostringstream a;
      a << wb.z0 << ' ' << wb.z1 << ' ' << wb.y0 << ' ' << wb.y1 << ' ' << wb.x0 << ' ' << wb.x1 << ' ' << dumpw(c.w);
      emit(buf, a.str());
      verdict(weights_symmetric(c.w) && c.w[0][0][0] == 0.F, c, "default weights are symmetric with zero centre", 0, 0, 0);
      {
        // documented: "x-voxel_size divided by the Euclidean distance between the points"
        const Box wb2 = wbox(c.w);
        double worst = 0, wa = 0, wb_ = 0;
        FORBOX(wb2)
        {
          if (z == 0 && y == 0 && x == 0)
            continue;
          const double ex = static_cast<double>(c.sp[2])
                            / std::sqrt(std::pow(double(x) * c.sp[2], 2) + std::pow(double(y) * c.sp[1], 2) + std::pow(double(z) * c.sp[0], 2));
          const double d = std::fabs(c.w[z][y][x] - ex) / (8 * UF * ex);
          if (d > worst)
            {
              worst = d;
              wa = c.w[z][y][x];
              wb_ = ex;
            }
        }
        verdict(worst <= 1., c, "default weights are x-voxel-size / Euclidean distance", wa, wb_, 8 * UF * wb_);
      }
    }
  emit(cfg_line(c), "ok");
  emit("img cur " + dump(*cur, b), "ok");
  emit("value", vh::hex(v0));
  VoxP g0 = api_grad(*P, *cur);
  emit("grad", dump(*g0, b));

  VoxP inp = mk(b, c.sp), out0 = mk(b, c.sp);
  fill_signed(*inp, b, rng, 2.F);
  fill_signed(*out0, b, rng, 4.F);
  std::vector<BasicCoordinate<3, int>> rows;
  if (!pls)
    {
      emit("img inp " + dump(*inp, b), "ok");
      emit("img out " + dump(*out0, b), "ok");
      VoxP ht = api_htimes(*P, *cur, *inp, out0.get());
      emit("htimes", dump(*ht, b));
      if (b.n() <= 64)
        {
          FORBOX(b) rows.push_back(make_coordinate(z, y, x));
        }
      else
        {
          for (int k = 0; k < 8; ++k)
            rows.push_back(make_coordinate(k & 4 ? b.z1 : b.z0, k & 2 ? b.y1 : b.y0, k & 1 ? b.x1 : b.x0));
          for (int k = 0; k < 8; ++k)
            rows.push_back(make_coordinate(rng.range(b.z0, b.z1), rng.range(b.y0, b.y1), rng.range(b.x0, b.x1)));
        }
      for (auto& rc : rows)
        {
          VoxP row = api_hrow(*P, *cur, rc[1], rc[2], rc[3]);
          char buf[100];
          std::snprintf(buf, sizeof buf, "hrow %d %d %d", rc[1], rc[2], rc[3]);
          emit(buf, dump(*row, b));
        }
      if (c.kind == 'Q')
        {
          VoxP o(out0->clone());
          P->add_multiplication_with_approximate_Hessian(*o, *inp);
          emit("approx", dump(*o, b));
        }
      if (c.kind == 'Q' || c.kind == 'L')
        {
          VoxP o(cur->get_empty_copy());
          o->fill(555.F);
          dynamic_cast<PriorWithParabolicSurrogate<Img>&>(*P).parabolic_surrogate_curvature(*o, *cur);
          emit("surr", dump(*o, b));
        }
    }

  // =========================================================================================== ORACLE
  // the property's own clauses, evaluated on the implementation only
  const bool sym_w = pls || weights_symmetric(c.w);
  const bool centre0 = pls || c.w[0][0][0] == 0.F;
  // key under which failures of this input class are reported: asymmetric user weights w(-d) != w(d) are accepted by set_weights()
  // but value, gradient and Hessian functions are consistent only for symmetric weights (known finding, see known_findings.txt).
  // Everything else (in particular a non-zero centre weight) is checked strictly.
  const std::string key_asym = (!pls && !sym_w) ? "neighbourhood-priors:asymmetric-user-weights" : "";
  (void)centre0;

  // magnitude of the terms that make up one gradient / Hessian-times-vector element (rounding errors are relative to these,
  // not to the possibly cancelling result)
  const double kmax_all = c.kappa ? maxabs(*c.kappa, b) : 1.;
  auto gscale = [&](int z, int y, int x) -> double {
    if (pls)
      return 6. * kmax_all * std::fabs(c.pf);
    const double f = c.kind == 'Q' ? 8.5 : (c.kind == 'R' ? 3. : std::min(1. / c.scalar, 8.5));
    return local_scale(c, z, y, x, false) * f;
  };
  auto hscale = [&](int z, int y, int x, double inpmax) -> double {
    return local_scale(c, z, y, x, true) * (c.kind == 'R' ? 2. : 1.) * 2. * inpmax;
  };

  if (c.pf == 0.F)
    {
      // zero penalisation factor: everything vanishes (linear scaling, factor 0)
      verdict(v0 == 0., c, "value is 0 for penalisation factor 0", v0, 0, 0);
      verdict(maxabs(*g0, b) == 0., c, "gradient is 0 for penalisation factor 0", maxabs(*g0, b), 0, 0);
      if (!pls)
        {
          VoxP ht = api_htimes(*P, *cur, *inp, nullptr);
          verdict(maxabs(*ht, b) == 0., c, "Hessian-times-vector is 0 for penalisation factor 0", maxabs(*ht, b), 0, 0);
          VoxP row = api_hrow(*P, *cur, b.z0, b.y0, b.x0);
          verdict(maxabs(*row, b) == 0., c, "Hessian row is 0 for penalisation factor 0", maxabs(*row, b), 0, 0);
        }
      return;
    }

  // ---- (1) linear in the penalisation factor
  {
    const float cs[2] = { 2.F, 3.F };
    for (float cf : cs)
      {
        shared_ptr<Prior> P2 = build(c, c.pf * cf, cur);
        const double v2 = P2->compute_value(*cur);
        verdict(std::fabs(v2 - cf * v0) <= 64 * UF * std::fabs(cf * v0), c, "value scales linearly with the penalisation factor", v2, cf * v0,
                64 * UF * std::fabs(cf * v0));
        VoxP g2 = api_grad(*P2, *cur);
        double worst = 0, wa = 0, wb_ = 0;
        FORBOX(b)
        {
          const double d = std::fabs(static_cast<double>((*g2)[z][y][x]) - cf * static_cast<double>((*g0)[z][y][x]));
          const double t = 4 * UF * cf * std::fabs((*g0)[z][y][x]) + 64 * UF * cf * gscale(z, y, x) + 1e-30;
          if (d / t > worst)
            {
              worst = d / t;
              wa = (*g2)[z][y][x];
              wb_ = cf * (*g0)[z][y][x];
            }
        }
        verdict(worst <= 1., c, "gradient scales linearly with the penalisation factor", wa, wb_, 4 * UF * std::fabs(wb_));
        if (!pls)
          {
            VoxP h1 = api_htimes(*P, *cur, *inp, nullptr);
            VoxP h2 = api_htimes(*P2, *cur, *inp, nullptr);
            worst = 0;
            FORBOX(b)
            {
              const double d = std::fabs(static_cast<double>((*h2)[z][y][x]) - cf * static_cast<double>((*h1)[z][y][x]));
              const double t = 4 * UF * cf * std::fabs((*h1)[z][y][x]) + 64 * UF * cf * hscale(z, y, x, 2.) + 1e-30;
              if (d / t > worst)
                {
                  worst = d / t;
                  wa = (*h2)[z][y][x];
                  wb_ = cf * (*h1)[z][y][x];
                }
            }
            verdict(worst <= 1., c, "Hessian-times-vector scales linearly with the penalisation factor", wa, wb_, 4 * UF * std::fabs(wb_));
            const auto rc = rows[rng.range(0, static_cast<int>(rows.size()) - 1)];
            VoxP r1 = api_hrow(*P, *cur, rc[1], rc[2], rc[3]);
            VoxP r2 = api_hrow(*P2, *cur, rc[1], rc[2], rc[3]);
            worst = 0;
            FORBOX(b)
            {
              const double d = std::fabs(static_cast<double>((*r2)[z][y][x]) - cf * static_cast<double>((*r1)[z][y][x]));
              const double t = 4 * UF * cf * std::fabs((*r1)[z][y][x]) + 64 * UF * cf * hscale(rc[1], rc[2], rc[3], 1.) + 1e-30;
              if (d / t > worst)
                {
                  worst = d / t;
                  wa = (*r2)[z][y][x];
                  wb_ = cf * (*r1)[z][y][x];
                }
            }
            verdict(worst <= 1., c, "Hessian row scales linearly with the penalisation factor", wa, wb_, 4 * UF * std::fabs(wb_));
          }
      }
  }

  // ---- (2) the gradient vanishes for uniform images
  {
    VoxP u = mk(b, c.sp);
    const float val = coarse(rng, 0.5F, 64, 0.125F);
    u->fill(val);
    VoxP gu = api_grad(*P, *u);
    double worst = 0, wa = 0, wt = 0;
    FORBOX(b)
    {
      // exactly 0 for the present code; a tolerance relative to the magnitude of the terms for implementations that sum differently
      const double t = 64 * UF * gscale(z, y, x) * (pls ? 1. : val / 8.5) + 1e-30;
      if (std::fabs((*gu)[z][y][x]) / t > worst)
        {
          worst = std::fabs((*gu)[z][y][x]) / t;
          wa = (*gu)[z][y][x];
          wt = t;
        }
    }
    verdict(worst <= 1., c, "gradient of a uniform image is zero", wa, 0, wt);
  }

  // ---- (3) border: voxels interact only with neighbours inside the image / inside the neighbourhood
  //      (a) changing a voxel outside the reach of voxel r leaves the gradient at r bitwise unchanged
  //      (b) point reflection of image, kappa and weights reflects the gradient and keeps the value (non-PLS)
  {
    const Box wb = pls ? Box{ -1, 1, -1, 1, -1, 1 } : wbox(c.w);
    const int sz = rng.range(b.z0, b.z1), sy = rng.range(b.y0, b.y1), sx = rng.range(b.x0, b.x1);
    VoxP pert = copy_of(*cur);
    (*pert)[sz][sy][sx] += 1.F;
    VoxP gp = api_grad(*P, *pert);
    bool ok = true;
    int nchanged = 0;
    FORBOX(b)
    {
      // voxel r=(z,y,x) may depend on s only if s-r is a neighbourhood offset (PLS: r within one forward/backward step pattern)
      const bool in_reach = pls ? (std::abs(sz - z) <= 1 && std::abs(sy - y) <= 1 && std::abs(sx - x) <= 1) : wb.has(sz - z, sy - y, sx - x);
      if ((*gp)[z][y][x] != (*g0)[z][y][x])
        {
          ++nchanged;
          if (!in_reach)
            ok = false;
        }
    }
    verdict(ok, c, "gradient at a voxel depends only on voxels within the neighbourhood reach", nchanged, 0, 0);
  }
  if (!pls)
    {
      Cfg m = c;
      m.userw = true; // reflected weights are passed explicitly (for default weights they equal the original)
      const Box wb = wbox(c.w);
      m.w = Array<3, float>(IndexRange3D(-wb.z1, -wb.z0, -wb.y1, -wb.y0, -wb.x1, -wb.x0));
      FORBOX(wb) m.w[-z][-y][-x] = c.w[z][y][x];
      VoxP mcur = mk(b, c.sp);
      FORBOX(b)(*mcur)[z][y][x] = (*cur)[b.z0 + b.z1 - z][b.y0 + b.y1 - y][b.x0 + b.x1 - x];
      if (c.kappa)
        {
          m.kappa = mk(b, c.sp);
          FORBOX(b)(*m.kappa)[z][y][x] = (*c.kappa)[b.z0 + b.z1 - z][b.y0 + b.y1 - y][b.x0 + b.x1 - x];
        }
      shared_ptr<Prior> Pm = build(m, c.pf, mcur);
      const double vm = Pm->compute_value(*mcur);
      verdict(std::fabs(vm - v0) <= 64 * UF * std::fabs(v0), c, "value is invariant under point reflection of image, kappa and weights", vm, v0,
              64 * UF * std::fabs(v0));
      VoxP gm = api_grad(*Pm, *mcur);
      double worst = 0, wa = 0, wb_ = 0;
      FORBOX(b)
      {
        const double a = (*gm)[b.z0 + b.z1 - z][b.y0 + b.y1 - y][b.x0 + b.x1 - x], e = (*g0)[z][y][x];
        const double tol = 64 * UF * (local_scale(c, z, y, x, false) * (c.kind == 'Q' ? 8.5 : 3.0) / (c.kind == 'L' ? std::min(1.F, c.scalar) : 1.F));
        if (std::fabs(a - e) / (tol + 1e-30) > worst)
          {
            worst = std::fabs(a - e) / (tol + 1e-30);
            wa = a;
            wb_ = e;
          }
      }
      verdict(worst <= 1., c, "gradient is equivariant under point reflection (borders treated alike at both ends)", wa, wb_, 0);
    }

  // ---- (4) convexity of the value (priors that declare is_convex()): V((a+b)/2) <= (V(a)+V(b))/2
  if (P->is_convex())
    {
      VoxP a2 = mk(b, c.sp), mid = mk(b, c.sp);
      fill_positive(*a2, b, rng, true, 0.5F, pls ? 2.5F : 8.5F);
      FORBOX(b)(*mid)[z][y][x] = 0.5F * ((*cur)[z][y][x] + (*a2)[z][y][x]);
      const double va = v0, vb = P->compute_value(*a2), vm = P->compute_value(*mid);
      const double tol = 1e-5 * (std::fabs(va) + std::fabs(vb));
      verdict(vm <= 0.5 * (va + vb) + tol, c, "value is midpoint-convex (is_convex())", vm, 0.5 * (va + vb), tol);
    }

  if (pls)
    {
      // ---- (5P) gradient = derivative of the value, central difference with derived tolerance.
      // P_r = sqrt(alpha^2 + g^T M g), |M|<=1, so along a unit voxel direction |d^3/dt^3 P_r| <= 6 |g'|^3 / alpha^2 ; voxel j enters
      // P_j with |g'| = sqrt(3) (sqrt(2) in 2D) and P_{j-e} with |g'| = 1 for each direction e.
      const double h = 1. / 32;
      const int ndir = c.only2d ? 2 : 3;
      const double kmax = c.kappa ? maxabs(*c.kappa, b) : 1.;
      const double B3 = 6. * (std::pow(std::sqrt(double(ndir)), 3) + ndir) / (c.alpha * c.alpha) * kmax * c.pf;
      double gmax2 = 0;
      FORBOX(b) gmax2 = std::max(gmax2, double(ndir) * 4.); // images in [0.5,2.5]: |g|^2 <= ndir*2^2
      const double cond = (c.alpha * c.alpha + 2 * gmax2) / (c.alpha * c.alpha);
      const double Pmax = std::sqrt(c.alpha * c.alpha + gmax2);
      FORBOX(b)
      {
        VoxP p1 = copy_of(*cur), p2 = copy_of(*cur);
        (*p1)[z][y][x] += static_cast<float>(h);
        (*p2)[z][y][x] -= static_cast<float>(h);
        const double delta = static_cast<double>((*p1)[z][y][x]) - static_cast<double>((*p2)[z][y][x]);
        const double fd = (P->compute_value(*p1) - P->compute_value(*p2)) / delta;
        const double tol = h * h / 6 * B3 + 2 * (ndir + 1) * 16 * UF * cond * Pmax * kmax * c.pf / delta + 8 * UF * std::fabs((*g0)[z][y][x]);
        verdict(std::fabs(fd - (*g0)[z][y][x]) <= tol, c, "gradient is the derivative of the value (central difference, voxel " + std::to_string(z) + "," + std::to_string(y) + "," + std::to_string(x) + ")",
                (*g0)[z][y][x], fd, tol);
      }
      return;
    }

  // ---- (6) Hessian: symmetric; row = H * unit; positive semi-definite; accumulate adds to the output
  {
    VoxP u = mk(b, c.sp), v = mk(b, c.sp);
    fill_signed(*u, b, rng, 1.F);
    fill_signed(*v, b, rng, 1.F);
    VoxP Hv = api_htimes(*P, *cur, *v, nullptr), Hu = api_htimes(*P, *cur, *u, nullptr);
    const double s1 = dot(*u, *Hv, b), s2 = dot(*v, *Hu, b);
    double scale = 0;
    FORBOX(b) scale += (std::fabs((*u)[z][y][x]) + std::fabs((*v)[z][y][x])) * local_scale(c, z, y, x, false);
    // d20,|d11| <= 1 (Q, L), <= 2/(x_j+x_k+eps) <= 2 (R, images >= 0.5); float sums of <= 125 terms
    const double tol = 256 * UF * 2 * scale;
    verdict(std::fabs(s1 - s2) <= tol, c, "Hessian is symmetric: <u,Hv> = <v,Hu>", s1, s2, tol, key_asym);
    const double q = dot(*u, *Hu, b);
    if (P->is_convex())
      verdict(q >= -tol, c, "Hessian is positive semi-definite: <u,Hu> >= 0 (is_convex())", q, 0, tol, key_asym);
    // accumulate: output = out0 + H inp
    VoxP acc = api_htimes(*P, *cur, *v, out0.get());
    double worst = 0, wa = 0, wb_ = 0;
    FORBOX(b)
    {
      const double e = static_cast<double>((*out0)[z][y][x]) + (*Hv)[z][y][x];
      const double t = 4 * UF * (std::fabs((*out0)[z][y][x]) + std::fabs((*Hv)[z][y][x])) + 1e-30;
      if (std::fabs((*acc)[z][y][x] - e) / t > worst)
        {
          worst = std::fabs((*acc)[z][y][x] - e) / t;
          wa = (*acc)[z][y][x];
          wb_ = e;
        }
    }
    verdict(worst <= 1., c, "accumulate_Hessian_times_input adds H*input to the existing output", wa, wb_, 0);
  }
  for (auto& rc : rows)
    {
      VoxP row = api_hrow(*P, *cur, rc[1], rc[2], rc[3]);
      VoxP e = mk(b, c.sp);
      (*e)[rc[1]][rc[2]][rc[3]] = 1.F;
      VoxP He = api_htimes(*P, *cur, *e, nullptr);
      double worst = 0, wa = 0, wb_ = 0;
      const double sc = local_scale(c, rc[1], rc[2], rc[3], true) * 2;
      FORBOX(b)
      {
        const double t = 256 * UF * sc + 1e-30;
        const double d = std::fabs(static_cast<double>((*row)[z][y][x]) - (*He)[z][y][x]);
        if (d / t > worst)
          {
            worst = d / t;
            wa = (*row)[z][y][x];
            wb_ = (*He)[z][y][x];
          }
      }
      verdict(worst <= 1., c, "Hessian row (compute_Hessian) equals H applied to the unit image", wa, wb_, 256 * UF * sc, key_asym);
    }

  // ---- (7) gradient = derivative of value; Hessian = derivative of gradient
  if (c.kind == 'Q')
    {
      // exact quadratic expansion: V(l+e) = V(l) + <g(l),e> + 1/2 <e,He>  and  g(l+e) = g(l) + He   (no finite differences)
      VoxP e = mk(b, c.sp);
      fill_signed(*e, b, rng, 4.F);
      VoxP l1 = mk(b, c.sp);
      FORBOX(b)(*l1)[z][y][x] = (*cur)[z][y][x] + (*e)[z][y][x];
      FORBOX(b)(*e)[z][y][x] = (*l1)[z][y][x] - (*cur)[z][y][x]; // exactly representable step
      const double v1 = P->compute_value(*l1);
      VoxP He = api_htimes(*P, *cur, *e, nullptr);
      const double ge = dot(*g0, *e, b), eHe = dot(*e, *He, b);
      const double scale = std::fabs(v1) + std::fabs(v0) + absdot(*g0, *e, b) + 0.5 * absdot(*e, *He, b);
      const double tol = 64 * UF * scale;
      verdict(std::fabs(v1 - (v0 + ge + 0.5 * eHe)) <= tol, c, "quadratic expansion value(l+e) = value(l) + <grad,e> + 1/2<e,He>", v1, v0 + ge + 0.5 * eHe, tol, key_asym);
      VoxP g1 = api_grad(*P, *l1);
      double worst = 0, wa = 0, wb_ = 0;
      FORBOX(b)
      {
        const double ex = static_cast<double>((*g0)[z][y][x]) + (*He)[z][y][x];
        const double t = 256 * UF * local_scale(c, z, y, x, false) * 20. + 1e-30;
        if (std::fabs((*g1)[z][y][x] - ex) / t > worst)
          {
            worst = std::fabs((*g1)[z][y][x] - ex) / t;
            wa = (*g1)[z][y][x];
            wb_ = ex;
          }
      }
      verdict(worst <= 1., c, "Hessian-times-vector is the directional derivative of the gradient: grad(l+e) = grad(l) + He", wa, wb_, 0);
      // per voxel: V(l + t e_j) = V(l) + t g_j + t^2/2 H_jj
      for (auto& rc : rows)
        {
          const float t = static_cast<float>(rng.range(1, 4)) * (rng.coin() ? 1.F : -1.F);
          VoxP lj = copy_of(*cur);
          (*lj)[rc[1]][rc[2]][rc[3]] += t;
          const double tt = static_cast<double>((*lj)[rc[1]][rc[2]][rc[3]]) - (*cur)[rc[1]][rc[2]][rc[3]];
          const double vj = P->compute_value(*lj);
          VoxP row = api_hrow(*P, *cur, rc[1], rc[2], rc[3]);
          const double gj = (*g0)[rc[1]][rc[2]][rc[3]], hjj = (*row)[rc[1]][rc[2]][rc[3]];
          const double sc = std::fabs(vj) + std::fabs(v0) + std::fabs(tt * gj) + 0.5 * tt * tt * std::fabs(hjj);
          verdict(std::fabs(vj - (v0 + tt * gj + 0.5 * tt * tt * hjj)) <= 64 * UF * sc, c,
                  "per-voxel expansion value(l+t e_j) = value(l) + t grad_j + t^2/2 H_jj", vj, v0 + tt * gj + 0.5 * tt * tt * hjj, 64 * UF * sc, key_asym);
        }
    }
  else
    {
      // central differences with derived tolerance (truncation from bounds on the 3rd/4th derivatives of the potential,
      // rounding from the float evaluation of the potential)
      float lmin = 1e30F, lmax = 0;
      FORBOX(b)
      {
        lmin = std::min(lmin, (*cur)[z][y][x]);
        lmax = std::max(lmax, (*cur)[z][y][x]);
      }
      const double h = 1. / 64;
      for (auto& rc : rows)
        {
          const int jz = rc[1], jy = rc[2], jx = rc[3];
          VoxP p1 = copy_of(*cur), p2 = copy_of(*cur);
          (*p1)[jz][jy][jx] += static_cast<float>(h);
          (*p2)[jz][jy][jx] -= static_cast<float>(h);
          const double delta = static_cast<double>((*p1)[jz][jy][jx]) - static_cast<double>((*p2)[jz][jy][jx]);
          const double fd = (P->compute_value(*p1) - P->compute_value(*p2)) / delta;
          const double Sj = local_scale(c, jz, jy, jx, true);
          double tol;
          if (c.kind == 'R')
            {
              // psi = phi/2, phi = u^2/D homogeneous of degree 1 in (x+eps/2, y+eps/2): |phi_xxx| <= 24(1+gamma)/D^2, D >= x+y+eps
              const double Dmin = 2 * (lmin - h) + c.eps;
              const double trunc = h * h / 6 * Sj * 12 * (1 + c.gamma) / (Dmin * Dmin);
              const double round = 2 * 16 * UF * Sj * 0.5 * (lmax - lmin + h) / delta; // psi <= |u|/2, relative error <= 16 u
              tol = trunc + round + 8 * UF * 3 * Sj;
            }
          else
            {
              // f(u) = logcosh(s u)/(2 s^2): |f'''| <= 0.385 s ; float log(cosh(.)) has absolute error <= (3 + 2|s u|) u
              const double s = c.scalar;
              const double trunc = h * h / 6 * Sj * 0.385 * s;
              const double round = 2 * 2 * (3 + 2 * s * (lmax - lmin + h)) * UF / (2 * s * s) * Sj / delta;
              tol = trunc + round + 8 * UF * Sj / s;
            }
          verdict(std::fabs(fd - (*g0)[jz][jy][jx]) <= tol, c,
                  "gradient is the derivative of the value (central difference, voxel " + std::to_string(jz) + "," + std::to_string(jy) + "," + std::to_string(jx) + ")",
                  (*g0)[jz][jy][jx], fd, tol, key_asym);
          // Hessian row j = d grad / d l_j
          VoxP gp = api_grad(*P, *p1), gm = api_grad(*P, *p2);
          VoxP row = api_hrow(*P, *cur, jz, jy, jx);
          const Box wb = wbox(c.w);
          double worst = 0, wa = 0, wb_ = 0, wt = 0;
          FORBOX(b)
          {
            const double fdh = (static_cast<double>((*gp)[z][y][x]) - (*gm)[z][y][x]) / delta;
            const bool diag = z == jz && y == jy && x == jx;
            const double Sr = local_scale(c, z, y, x, false);
            // weight of the terms of grad_r that depend on l_j
            double wgt;
            if (diag)
              wgt = Sr;
            else
              {
                const bool inr = wb.has(jz - z, jy - y, jx - x);
                const double kk = c.kappa ? static_cast<double>((*c.kappa)[z][y][x]) * (*c.kappa)[jz][jy][jx] : 1.0;
                wgt = inr ? std::fabs(c.w[jz - z][jy - y][jx - x]) * kk * c.pf : 0.;
              }
            double t;
            if (c.kind == 'R')
              {
                // 4th derivatives of phi: <= 144 (1+gamma)^2 / D^3 away from x=y; at x=y the 3rd derivatives of phi_x jump by
                // J = 12 gamma / D^2, which adds J h / 4 to the central-difference error when |x-y| < h
                const double Dl = diag ? 2 * (lmin - h) + c.eps : static_cast<double>((*cur)[z][y][x]) + (*cur)[jz][jy][jx] - h + c.eps;
                t = h * h / 6 * wgt * 144 * (1 + c.gamma) * (1 + c.gamma) / (Dl * Dl * Dl) + 2 * 40 * UF * 3 * Sr / delta;
                if (diag)
                  {
                    for (int dz = wb.z0; dz <= wb.z1; ++dz)
                      for (int dy = wb.y0; dy <= wb.y1; ++dy)
                        for (int dx = wb.x0; dx <= wb.x1; ++dx)
                          if (!(dz == 0 && dy == 0 && dx == 0) && b.has(z + dz, y + dy, x + dx) && std::fabs((*cur)[z + dz][y + dy][x + dx] - (*cur)[z][y][x]) <= h)
                            {
                              const double kk = c.kappa ? static_cast<double>((*c.kappa)[z][y][x]) * (*c.kappa)[z + dz][y + dy][x + dx] : 1.0;
                              const double Dk = static_cast<double>((*cur)[z][y][x]) + (*cur)[z + dz][y + dy][x + dx] - h + c.eps;
                              t += std::fabs(c.w[dz][dy][dx]) * kk * c.pf * 3 * c.gamma * h / (Dk * Dk);
                            }
                  }
                else if (std::fabs((*cur)[z][y][x] - (*cur)[jz][jy][jx]) <= h)
                  t += wgt * 3 * c.gamma * h / (Dl * Dl);
              }
            else
              {
                // d^3/du^3 tanh(s u)/s: <= 2 s^2 ; float tanh relative error, |tanh/s| <= min(1/s, |u|)
                const double s = c.scalar;
                t = h * h / 6 * wgt * 2 * s * s + 2 * 16 * UF * Sr * std::min(1 / s, double(lmax - lmin + h)) / delta;
              }
            t += 64 * UF * std::fabs((*row)[z][y][x]);
            const double d = std::fabs(fdh - (*row)[z][y][x]);
            if (d / (t + 1e-30) > worst)
              {
                worst = d / (t + 1e-30);
                wa = (*row)[z][y][x];
                wb_ = fdh;
                wt = t;
              }
          }
          verdict(worst <= 1., c,
                  "Hessian row is the derivative of the gradient (central difference, voxel " + std::to_string(jz) + "," + std::to_string(jy) + "," + std::to_string(jx) + ")",
                  wa, wb_, wt, key_asym);
        }
    }
}


// The concrete instances of lean/StirVerif/C09/Props.lean replayed on the implementation:
// negative witnesses C09_quadratic_expansion_asymmetric_weights_fails, C09_quadratic_H_symmetric_asymmetric_weights_fails (asymmetric
// weights: the clause must FAIL on the code exactly as in Lean, reported under the known-finding key) and the positive instance
// C09_nonzero_centre_weight_is_covered (symmetric weights with centre weight 2: the clause must HOLD, strict).
// 1x1x2 image l = (3,1), e = (1,0), penalisation factor 1, no kappa, weights on the offsets x in {-1,0,1}.
static void
replay_witnesses()
{
  for (int which = 0; which < 2; ++which)
    {
      Cfg c;
      c.kind = 'Q';
      c.b = Box{ 0, 0, 0, 0, 0, 1 };
      c.sp[0] = c.sp[1] = c.sp[2] = 1.F;
      c.pf = 1.F;
      c.only2d = false;
      c.gamma = c.eps = c.scalar = 0.F;
      c.alpha = c.eta = 0.;
      c.userw = true;
      c.wclass = which == 0 ? "asym" : "centre";
      c.w = Array<3, float>(IndexRange3D(0, 0, 0, 0, -1, 1));
      if (which == 0)
        {
          c.w[0][0][-1] = 0.F;
          c.w[0][0][0] = 0.F;
          c.w[0][0][1] = 1.F;
        }
      else
        {
          c.w[0][0][-1] = 1.F;
          c.w[0][0][0] = 2.F;
          c.w[0][0][1] = 1.F;
        }
      VoxP l = mk(c.b, c.sp), e = mk(c.b, c.sp), l1 = mk(c.b, c.sp);
      (*l)[0][0][0] = 3.F;
      (*l)[0][0][1] = 1.F;
      (*e)[0][0][0] = 1.F;
      (*l1)[0][0][0] = 4.F;
      (*l1)[0][0][1] = 1.F;
      shared_ptr<Prior> P = build(c, c.pf, l);
      const double v1 = P->compute_value(*l1), v0 = P->compute_value(*l);
      VoxP g = api_grad(*P, *l);
      VoxP He = api_htimes(*P, *l, *e, nullptr);
      const double ge = dot(*g, *e, c.b), eHe = dot(*e, *He, c.b);
      // the numbers of the Lean witnesses
      const double Lv1 = which == 0 ? 2.25 : 4.5, Lv0 = which == 0 ? 1. : 2., Lge = 2., LeHe = 1.;
      verdict(v1 == Lv1 && v0 == Lv0 && ge == Lge && eHe == LeHe, c, "the implementation reproduces the numbers of the Lean instance", v1, Lv1, 0);
      verdict(v1 == v0 + ge + 0.5 * eHe, c,
              which == 0 ? "quadratic expansion value(l+e) = value(l) + <grad,e> + 1/2<e,He> (Lean negative witness replayed)"
                         : "quadratic expansion value(l+e) = value(l) + <grad,e> + 1/2<e,He> (non-zero centre weight, Lean instance replayed)",
              v1, v0 + ge + 0.5 * eHe, 0, which == 0 ? "neighbourhood-priors:asymmetric-user-weights" : "");
      if (which == 0)
        {
          VoxP e0 = mk(c.b, c.sp), e1 = mk(c.b, c.sp);
          (*e0)[0][0][0] = 1.F;
          (*e1)[0][0][1] = 1.F;
          VoxP He0 = api_htimes(*P, *l, *e0, nullptr), He1 = api_htimes(*P, *l, *e1, nullptr);
          const double a = dot(*e0, *He1, c.b), b2 = dot(*e1, *He0, c.b);
          verdict(a == -1. && b2 == 0., c, "the implementation reproduces the numbers of the Lean negative witness (Hessian symmetry)", a, -1, 0);
          verdict(a == b2, c, "Hessian is symmetric: <u,Hv> = <v,Hu> (Lean negative witness replayed)", a, b2, 0,
                  "neighbourhood-priors:asymmetric-user-weights");
        }
    }
}

static Cfg
gen_cfg(vh::Rng& rng, char kind, int k, bool thorough)
{
  Cfg c;
  c.kind = kind;
  // sizes 1x1x1 .. 6x7x8 with singleton dimensions and shifted index ranges
  int nz, ny, nx;
  switch (k % 8)
    {
    case 0: nz = 1; ny = 1; nx = 1; break;
    case 1: nz = 1; ny = 1; nx = rng.range(2, 8); break;
    case 2: nz = rng.range(2, 6); ny = 1; nx = 1; break;
    case 3: nz = 1; ny = rng.range(2, 7); nx = rng.range(2, 8); break;
    case 4: nz = rng.range(2, 4); ny = rng.range(2, 4); nx = rng.range(2, 4); break;
    case 5: nz = rng.range(1, 3); ny = rng.range(1, 3); nx = rng.range(1, 3); break;
    case 6: nz = rng.range(3, 6); ny = rng.range(3, 7); nx = rng.range(3, 8); break;
    default: nz = rng.range(1, 6); ny = rng.range(1, 7); nx = rng.range(1, 8); break;
    }
  if (thorough && k % 16 == 14)
    {
      nz = 8; ny = 9; nx = 10;
    }
  if (kind == 'P' && k % 2 == 1)
    {
      // PLS: make sure there are strictly interior voxels as well as border voxels
      nz = rng.range(3, 5); ny = rng.range(3, 6); nx = rng.range(3, 6);
    }
  c.b.z0 = rng.range(-2, 2);
  c.b.y0 = rng.coin() ? -(ny / 2) : rng.range(-3, 3);
  c.b.x0 = rng.coin() ? -(nx / 2) : rng.range(-3, 3);
  c.b.z1 = c.b.z0 + nz - 1;
  c.b.y1 = c.b.y0 + ny - 1;
  c.b.x1 = c.b.x0 + nx - 1;
  c.sp[0] = coarse(rng, 1.F, 24, 0.125F);
  c.sp[1] = coarse(rng, 1.F, 16, 0.125F);
  c.sp[2] = rng.range(0, 2) == 0 ? c.sp[1] : coarse(rng, 1.F, 16, 0.125F);
  c.pf = rng.range(0, 11) == 0 ? 0.F : static_cast<float>(rng.range(1, 80)) / 16.F;
  c.only2d = rng.range(0, 3) == 0;
  c.gamma = rng.range(0, 4) == 0 ? 0.F : static_cast<float>(rng.range(1, 12)) / 4.F;
  c.eps = static_cast<float>(rng.range(1, 32)) / 16.F;
  c.scalar = (rng.range(0, 5) == 0) ? 5.F : static_cast<float>(rng.range(2, 24)) / 8.F;
  c.alpha = 1. + rng.range(0, 16) / 8.;
  c.eta = 0.5 + rng.range(0, 12) / 8.;
  c.userw = false;
  c.wclass = "default";
  if (kind != 'P')
    {
      const int m = rng.range(0, 9);
      if (m >= 4)
        {
          c.userw = true;
          c.wclass = "sym";
          int hz = 1, hy = 1, hx = 1;
          if (m == 5)
            hz = hy = hx = 2;
          else if (m == 6)
            hz = 0;
          else if (m == 7)
            {
              hz = rng.range(0, 2);
              hy = rng.range(0, 2);
              hx = rng.range(0, 2);
            }
          c.w = user_weights(rng, hz, hy, hx, "sym");
        }
    }
  const Box& b = c.b;
  if (rng.coin())
    {
      c.kappa = mk(b, c.sp);
      if (kind == 'P' && rng.range(0, 3) > 0)
        c.kappa->fill(coarse(rng, 0.5F, 12, 0.125F) + 0.0625F); // spatially uniform kappa (never 1)
      else
        fill_positive(*c.kappa, b, rng, true, 0.5F, 2.F);
    }
  if (kind == 'P')
    {
      c.anat = mk(b, c.sp);
      if (rng.range(0, 3) == 0)
        c.anat->fill(1.F); // flat anatomical image: PLS becomes smoothed TV
      else
        fill_positive(*c.anat, b, rng, true, 0.F, 4.F);
    }
  return c;
}

int
main(int argc, char** argv)
{
  if (argc < 5)
    {
      std::fprintf(stderr, "usage: %s <seed> <quick|thorough> <opsfile> <implfile>\n", argv[0]);
      return 2;
    }
  const uint64_t seed = std::strtoull(argv[1], nullptr, 10);
  const bool thorough = std::string(argv[2]) == "thorough";
  ops = std::fopen(argv[3], "w");
  out = std::fopen(argv[4], "w");
  orc = std::fopen((std::string(argv[4]) + ".oracle").c_str(), "w");
  if (!ops || !out || !orc)
    return 2;
  vh::quiet();
  vh::Rng rng(seed * 0x100000001B3ULL + 0xC09);

  try
    {
      const int nQ = thorough ? 320 : 96, nR = thorough ? 240 : 72, nL = thorough ? 200 : 60, nP = thorough ? 160 : 48;
      for (int k = 0; k < nQ; ++k)
        run_case(gen_cfg(rng, 'Q', k, thorough), rng, false);
      for (int k = 0; k < nR; ++k)
        run_case(gen_cfg(rng, 'R', k, thorough), rng, true);
      for (int k = 0; k < nL; ++k)
        run_case(gen_cfg(rng, 'L', k, thorough), rng, true);
      for (int k = 0; k < nP; ++k)
        run_case(gen_cfg(rng, 'P', k, thorough), rng, true);
      replay_witnesses();
      // PLS: 3-D case without kappa and with a spatially varying kappa (present for every seed; the two classes of inputs on which the
      // gradient was not the derivative of the value before the repairs C09-1 / C09-2)
      for (int k = 0; k < 2; ++k)
        {
          Cfg c = gen_cfg(rng, 'P', 1, thorough);
          if (c.pf == 0.F)
            c.pf = 1.F;
          c.only2d = false;
          if (k == 0)
            c.kappa.reset(); // border voxels, no kappa
          else
            {
              c.kappa = mk(c.b, c.sp);
              fill_positive(*c.kappa, c.b, rng, true, 0.5F, 2.F); // spatially varying kappa
            }
          run_case(c, rng, true);
        }
      // user weights with a non-zero centre weight (value and gradient do not depend on it, so the Hessian must not either): strict
      const char kinds[3] = { 'Q', 'R', 'L' };
      for (int ki = 0; ki < 3; ++ki)
        for (int k = 0; k < 2; ++k)
          {
            Cfg c = gen_cfg(rng, kinds[ki], 4 + 2 * k, thorough);
            c.userw = true;
            c.wclass = "centre";
            c.w = user_weights(rng, 1, 1, 1, "centre");
            if (c.pf == 0.F)
              c.pf = 1.F;
            run_case(c, rng, kinds[ki] != 'Q');
          }
      // asymmetric user weights: the input class on which the code is known not to satisfy all clauses (reported under a stable key)
      for (int ki = 0; ki < 3; ++ki)
        for (int k = 0; k < (ki == 0 ? 3 : 2); ++k)
          {
            Cfg c = gen_cfg(rng, kinds[ki], 4 + 2 * k, thorough);
            c.userw = true;
            c.wclass = "asym";
            c.w = user_weights(rng, k == 0 ? 0 : 1, k == 0 ? 0 : 1, 1, "asym");
            if (c.pf == 0.F)
              c.pf = 1.F;
            run_case(c, rng, kinds[ki] != 'Q');
          }
    }
  catch (std::exception& e)
    {
      std::fprintf(orc, "ORACLE-FAIL exception from the implementation: %s\n", e.what());
      ++oracle_fails;
    }
  std::fprintf(orc, "ORACLE-DONE checks=%ld fails=%ld\n", oracle_checks, oracle_fails);
  std::fclose(ops);
  std::fclose(out);
  std::fclose(orc);
  return 0;
}
